// Harness for C04 / C05 / C07: end-to-end "ledger" plays through the REAL
// shakespeare binary.
//
// A play is generated (script structure, tempo, action durations, failure
// positions, spotlight / cleanup behaviour, signals), rendered to a
// configuration whose action / cleanup / spotlight commands append
//   <actor> A <action> <n> S <ns>      action started (n = this actor's n-th run of it)
//   <actor> A <action> <n> E <ns> <rc> action about to exit with status rc
//   <actor> C <n> S <ns> / C <n> E <ns> <rc>   cleanup
//   <actor> P S <ns>                   spotlight started
// to a ledger file (date +%s%N), parsed and compiled with the real parser
// (cmd.VerifParse -> the compiled play as the prompter sees it), run through the
// real binary in its own temp dir with its own marker variable, and the
// observations (ledger, csv rows, exit status, wall time, cleanup markers,
// surviving processes) are written as Coq terms.
package main

import (
	"bufio"
	"bytes"
	"flag"
	"fmt"
	"io/ioutil"
	"math/rand"
	"os"
	"os/exec"
	"path/filepath"
	"runtime"
	"sort"
	"strconv"
	"strings"
	"sync"
	"syscall"
	"time"

	"github.com/knz/shakespeare/pkg/cmd"
	"github.com/knz/shakespeare/verifharness/vh"
)

// ---------------------------------------------------------------------------
// play description

type stepDef struct {
	Action string
	FailOk bool
}

type entailDef struct {
	Target string // actor name or "every <role>"
	Steps  []stepDef
}

type sceneDef struct {
	Char    string
	Entails []entailDef
}

type actionDef struct {
	Name   string
	DurMs  int
	FailAt int  // 0 never, -1 always, k>0: the k-th run by an actor fails
	Hang   bool // sleep 300 instead of DurMs
	FailRc int  // how it fails: 0/3 = `exit 3`; 137 = kills its own shell with SIGKILL; 143 = with SIGTERM
	Extra  string // extra shell text run before the sleep
	Atomic bool   // the run counter is taken under flock (the same actor may run this action twice at once)
	Fin    string // if set: the end of the command, after its "E" ledger line (instead of `exit $rc`)
}

type playDef struct {
	Name     string
	Actors   []string
	RoleOf   map[string]string
	Roles    []string
	Actions  []actionDef
	Scenes   []sceneDef
	Story    []string // one or more storyline lines (each: acts separated by spaces)
	TempoMs  int
	Repeat   string // "" or the regexp of `repeat from`
	RepeatN  int    // 0 = no `repeat N times`
	RepeatMs int    // 0 = no `repeat time`
	// Spotlight per actor: "" none, else a shell command.
	Spot map[string]string
	// SpotKind: 0 absent, 1 keep running, 2 all exit 0 by themselves, 3 one exits non-zero,
	// 4 ignores SIGHUP (leader, exec), 5 ignores SIGHUP (child in group), 6 background child ignoring SIGHUP
	SpotKind int
	// Cleanup behaviour: fail at n-th run (0 never), hang at n-th run (0 never)
	CleanFailAt int
	CleanHangAt int
	CleanSlowAt int // the n-th cleanup run of every actor takes 2 s (0 = none)
	// SigAfterRaw: like SigAfter, for an arbitrary ledger substring
	SigAfterRaw string
	// Sig2AfterMs: send the signal a second time that long after the first (0 = no)
	Sig2AfterMs int
	// ExcuseSurvivor: command line of a process the play cannot reach (another session) and
	// that the harness kills afterwards
	ExcuseSurvivor string
	CleanActor  string // which actor's cleanup misbehaves ("" = all)
	Audience    []string
	Flags       []string
	// Signal to send: 0 none, else syscall number, after SigAtMs.
	Sig     int
	SigAtMs int
	// SigAfter: if set, SigAtMs counts from the moment the ledger shows this action started
	SigAfter string
	// TempoText / TempoNs: if TempoText is set it is the tempo as written in the script
	// (e.g. "20400us", "0s", "1ns") and TempoNs its value; otherwise TempoMs milliseconds
	TempoText string
	TempoNs   int64
	// ReadStdin: shakespeare is started with an OPEN pipe as standard input, and every
	// cleanup, action and x2's spotlight read their standard input to its end first
	ReadStdin bool
	// JustBefore: the "just before the slot" play (see genJustBefore): re-run when every
	// predecessor overran its slot
	JustBefore bool
	// RawCfg: if set, the whole configuration (a play the generator's cast/role scheme cannot
	// express, e.g. without actors); the compiled play is then not exported
	RawCfg string
	// DupKeys: the same actor runs the same action twice at the same time (a scene named
	// twice in a group): csv rows and ledger rows of that action cannot be paired one to one
	DupKeys bool
	// Rdv: the actions of the (single) scene group rendezvous: all of them must run at the same time
	Rdv bool
	// fault descriptor (C07)
	Fault    string
	FaultPos string
}

func durArg(ms int) string { return fmt.Sprintf("%d.%03d", ms/1000, ms%1000) }

func (p *playDef) render(ledger string) string {
	if p.RawCfg != "" {
		return p.RawCfg
	}
	var b strings.Builder
	actOf := map[string]actionDef{}
	for _, a := range p.Actions {
		actOf[a.Name] = a
	}
	for _, r := range p.Roles {
		fmt.Fprintf(&b, "role %s\n", r)
		for _, a := range p.Actions {
			cond := "false"
			if a.FailAt < 0 {
				cond = "true"
			} else if a.FailAt > 0 {
				cond = fmt.Sprintf("[ $n = %d ]", a.FailAt)
			}
			sl := durArg(a.DurMs)
			if a.Hang {
				sl = "300"
			}
			frc, fin := 3, "exit $rc"
			switch a.FailRc {
			case 137:
				frc, fin = 137, "if [ $rc != 0 ]; then kill -KILL $$; sleep 5; fi; exit $rc"
			case 143:
				frc, fin = 143, "if [ $rc != 0 ]; then kill -TERM $$; sleep 5; fi; exit $rc"
			case 101:
				// the command ENDS with an `&&` list whose first member fails: status 1,
				// `set -e` does not fire, no `exit`
				frc, fin = 1, "test $rc = 0 && true"
			case 102:
				// ... with a negated command: status 1, `set -e` does not fire
				frc, fin = 1, "! test $rc != 0"
			}
			if a.Fin != "" {
				fin = a.Fin
			}
			if a.Atomic {
				fmt.Fprintf(&b, "  :%s exec 9>>%s.lock; flock 9; n=$(cat %s.n 2>/dev/null || echo 0); n=$((n+1)); echo $n >%s.n; flock -u 9; echo \"$ME A %s $n S $(date +%%s%%N)\" >>$LEDGER; %ssleep %s; rc=0; if %s; then rc=%d; fi; echo \"$ME A %s $n E $(date +%%s%%N) $rc\" >>$LEDGER; %s\n",
					a.Name, a.Name, a.Name, a.Name, a.Name, a.Extra, sl, cond, frc, a.Name, fin)
				continue
			}
			fmt.Fprintf(&b, "  :%s n=$(cat %s.n 2>/dev/null || echo 0); n=$((n+1)); echo $n >%s.n; echo \"$ME A %s $n S $(date +%%s%%N)\" >>$LEDGER; %ssleep %s; rc=0; if %s; then rc=%d; fi; echo \"$ME A %s $n E $(date +%%s%%N) $rc\" >>$LEDGER; %s\n",
				a.Name, a.Name, a.Name, a.Name, a.Extra, sl, cond, frc, a.Name, fin)
		}
		// cleanup
		body := ""
		if p.CleanFailAt > 0 {
			body += fmt.Sprintf(" if [ $n = %d ] && [ \"$CLBAD\" = 1 ]; then rc=4; fi;", p.CleanFailAt)
		}
		if p.CleanSlowAt > 0 {
			body += fmt.Sprintf(" if [ $n = %d ]; then sleep 2; fi;", p.CleanSlowAt)
		}
		if p.CleanHangAt > 0 {
			body += fmt.Sprintf(" if [ $n = %d ] && [ \"$CLBAD\" = 1 ]; then sleep 300; fi;", p.CleanHangAt)
		}
		if p.ReadStdin {
			body = " cat >/dev/null;" + body
		}
		fmt.Fprintf(&b, "  cleanup n=$(cat cl.n 2>/dev/null || echo 0); n=$((n+1)); echo $n >cl.n; echo \"$ME C $n S $(date +%%s%%N)\" >>$LEDGER; rc=0;%s echo \"$ME C $n E $(date +%%s%%N) $rc\" >>$LEDGER; exit $rc\n", body)
		if p.SpotKind != 0 {
			fmt.Fprintf(&b, "  spotlight echo \"$ME P S $(date +%%s%%N)\" >>$LEDGER; eval \"$SPOT\"\n")
			fmt.Fprintf(&b, "  signal v scalar at (?P<ts_now>)v (?P<scalar>\\d+)\n")
		}
		b.WriteString("end\n")
	}
	b.WriteString("cast\n")
	for _, a := range p.Actors {
		bad := "0"
		if p.CleanActor == "" || p.CleanActor == a {
			bad = "1"
		}
		spot := p.Spot[a]
		if spot == "" {
			spot = "echo; echo; sleep 300" // blank lines, then it keeps running
		}
		fmt.Fprintf(&b, "  %s plays %s with ME=%s LEDGER=%s CLBAD=%s SPOT='%s'\n", a, p.RoleOf[a], a, ledger, bad, spot)
	}
	b.WriteString("end\nscript\n")
	if p.TempoText != "" {
		fmt.Fprintf(&b, "  tempo %s\n", p.TempoText)
	} else {
		fmt.Fprintf(&b, "  tempo %dms\n", p.TempoMs)
	}
	for _, s := range p.Scenes {
		for _, e := range s.Entails {
			var parts []string
			for _, st := range e.Steps {
				q := ""
				if st.FailOk {
					q = "?"
				}
				parts = append(parts, st.Action+q)
			}
			fmt.Fprintf(&b, "  scene %s entails for %s: %s\n", s.Char, e.Target, strings.Join(parts, "; "))
		}
	}
	for _, st := range p.Story {
		fmt.Fprintf(&b, "  storyline %s\n", st)
	}
	if p.Repeat != "" {
		fmt.Fprintf(&b, "  repeat from %s\n", p.Repeat)
	}
	if p.RepeatN > 0 {
		fmt.Fprintf(&b, "  repeat %d times\n", p.RepeatN)
	}
	if p.RepeatMs > 0 {
		fmt.Fprintf(&b, "  repeat time %dms\n", p.RepeatMs)
	}
	b.WriteString("end\n")
	if len(p.Audience) > 0 {
		b.WriteString("audience\n")
		for _, l := range p.Audience {
			b.WriteString("  " + l + "\n")
		}
		b.WriteString("end\n")
	}
	return b.String()
}

// ---------------------------------------------------------------------------
// observations

type ledgerRow struct {
	Actor, Action string
	N             int
	Start, End    int64 // End = -1: no end line
	Rc            int
}

type cleanRow struct {
	Actor      string
	N          int
	Start, End int64
	Rc         int
}

type csvRow struct {
	Actor, Action string
	StartNs       int64 // relative to the play's epoch, from "%.4f" seconds
	DurNs         int64
	Status        int
}

type survivor struct {
	Pid int
	Cmd string
}

type observation struct {
	LaunchNs, ExitNs int64
	Exit             int // exit status; -sig if killed by a signal; -999 if the harness had to kill it (no exit within the bound)
	Exited           bool
	WallMs           int64
	SigSentNs        int64
	Ledger           []ledgerRow
	Cleanups         []cleanRow
	SpotStarts       map[string]int64
	SpotEnds         map[string]int64
	SpotGrace        map[string]int64
	Csv              []csvRow
	Survivors        []survivor
	Excused          []survivor // processes in another session, out of the play's reach
	Output           string
	BadLedgerLines   []string
}

func scanMarked(mark string) []survivor {
	var out []survivor
	ents, _ := ioutil.ReadDir("/proc")
	want := []byte("SHKMARK=" + mark)
	for _, e := range ents {
		pid, err := strconv.Atoi(e.Name())
		if err != nil {
			continue
		}
		env, err := ioutil.ReadFile("/proc/" + e.Name() + "/environ")
		if err != nil || len(env) == 0 {
			continue
		}
		found := false
		for _, kv := range bytes.Split(env, []byte{0}) {
			if bytes.Equal(kv, want) {
				found = true
				break
			}
		}
		if !found {
			continue
		}
		cl, _ := ioutil.ReadFile("/proc/" + e.Name() + "/cmdline")
		st, _ := ioutil.ReadFile("/proc/" + e.Name() + "/stat")
		if i := bytes.LastIndexByte(st, ')'); i >= 0 && i+2 < len(st) && st[i+2] == 'Z' {
			continue // zombie: already dead
		}
		out = append(out, survivor{pid, strings.TrimSpace(strings.Replace(string(cl), "\x00", " ", -1))})
	}
	return out
}

func killMarked(mark string) {
	for round := 0; round < 5; round++ {
		s := scanMarked(mark)
		if len(s) == 0 {
			return
		}
		for _, x := range s {
			syscall.Kill(x.Pid, syscall.SIGKILL)
		}
		time.Sleep(50 * time.Millisecond)
	}
}

const boundSec = 75

func runPlay(shk string, p *playDef, idx int) (obs observation, cfgText string) {
	dir, err := ioutil.TempDir("", "shk-e2e-")
	if err != nil {
		panic(err)
	}
	defer os.RemoveAll(dir)
	ledger := filepath.Join(dir, "ledger")
	cfgText = p.render(ledger)
	if err := ioutil.WriteFile(filepath.Join(dir, "p.cfg"), []byte(cfgText), 0644); err != nil {
		panic(err)
	}
	mark := fmt.Sprintf("m%d_%d_%d", os.Getpid(), idx, time.Now().UnixNano())
	args := []string{"-o", filepath.Join(dir, "out"), "-q", "--disable-plots"}
	args = append(args, p.Flags...)
	args = append(args, "p.cfg")
	c := exec.Command(shk, args...)
	c.Dir = dir
	c.Env = append(os.Environ(), "SHKMARK="+mark)
	var outb bytes.Buffer
	c.Stdout = &outb
	c.Stderr = &outb
	if p.ReadStdin {
		// a standard input that stays open without ever reaching EOF (like a terminal)
		pr, pw, err := os.Pipe()
		if err != nil {
			panic(err)
		}
		c.Stdin = pr
		defer pw.Close()
		defer pr.Close()
	}
	c.SysProcAttr = &syscall.SysProcAttr{Setpgid: true}
	obs.LaunchNs = time.Now().UnixNano()
	if err := c.Start(); err != nil {
		panic(err)
	}
	done := make(chan error, 1)
	go func() { done <- c.Wait() }()
	var sigCh <-chan time.Time
	if p.Sig != 0 && p.SigAfter == "" && p.SigAfterRaw == "" {
		sigCh = time.After(time.Duration(p.SigAtMs) * time.Millisecond)
	} else if p.Sig != 0 {
		ch := make(chan time.Time, 1)
		sigCh = ch
		go func() {
			want := " A " + p.SigAfter + " 1 S "
			if p.SigAfterRaw != "" {
				want = p.SigAfterRaw
			}
			for i := 0; i < 7000; i++ {
				if data, err := ioutil.ReadFile(ledger); err == nil && strings.Contains(string(data), want) {
					break
				}
				time.Sleep(10 * time.Millisecond)
			}
			time.Sleep(time.Duration(p.SigAtMs) * time.Millisecond)
			ch <- time.Now()
		}()
	}
	bound := time.After(boundSec * time.Second)
	secondSent := false
	var werr error
loop:
	for {
		select {
		case werr = <-done:
			obs.Exited = true
			break loop
		case <-sigCh:
			if obs.SigSentNs == 0 {
				obs.SigSentNs = time.Now().UnixNano()
			}
			c.Process.Signal(syscall.Signal(p.Sig))
			sigCh = nil
			if p.Sig2AfterMs > 0 && !secondSent {
				secondSent = true
				sigCh = time.After(time.Duration(p.Sig2AfterMs) * time.Millisecond)
			}
		case <-bound:
			// did not terminate within the bound: kill it and everything it started
			c.Process.Kill()
			werr = <-done
			obs.Exited = false
			break loop
		}
	}
	obs.ExitNs = time.Now().UnixNano()
	obs.WallMs = (obs.ExitNs - obs.LaunchNs) / 1e6
	if !obs.Exited {
		obs.Exit = -999
	} else if werr == nil {
		obs.Exit = 0
	} else if ee, ok := werr.(*exec.ExitError); ok {
		ws := ee.Sys().(syscall.WaitStatus)
		if ws.Signaled() {
			obs.Exit = -int(ws.Signal())
		} else {
			obs.Exit = ws.ExitStatus()
		}
	} else {
		obs.Exit = -998
	}
	// what is left running?  Two scans 400 ms apart: only what is in both counts.
	time.Sleep(150 * time.Millisecond)
	s1 := scanMarked(mark)
	if len(s1) > 0 {
		time.Sleep(400 * time.Millisecond)
		s2 := scanMarked(mark)
		in2 := map[int]bool{}
		for _, x := range s2 {
			in2[x.Pid] = true
		}
		for _, x := range s1 {
			if in2[x.Pid] {
				if p.ExcuseSurvivor != "" && x.Cmd == p.ExcuseSurvivor {
					obs.Excused = append(obs.Excused, x)
				} else {
					obs.Survivors = append(obs.Survivors, x)
				}
			}
		}
	}
	killMarked(mark)
	o := outb.String()
	if len(o) > 1500 {
		o = o[len(o)-1500:]
	}
	obs.Output = o
	// ledger
	obs.SpotStarts = map[string]int64{}
	obs.SpotEnds = map[string]int64{}
	obs.SpotGrace = map[string]int64{}
	pending := map[string]int{}
	if f, err := os.Open(ledger); err == nil {
		sc := bufio.NewScanner(f)
		for sc.Scan() {
			w := strings.Fields(sc.Text())
			bad := func() { obs.BadLedgerLines = append(obs.BadLedgerLines, sc.Text()) }
			if len(w) < 3 {
				bad()
				continue
			}
			switch w[1] {
			case "A":
				if len(w) < 6 {
					bad()
					continue
				}
				n, _ := strconv.Atoi(w[3])
				ts, _ := strconv.ParseInt(w[5], 10, 64)
				key := w[0] + " " + w[2] + " " + w[3]
				if w[4] == "S" {
					pending[key] = len(obs.Ledger)
					obs.Ledger = append(obs.Ledger, ledgerRow{w[0], w[2], n, ts, -1, -1})
				} else if i, ok := pending[key]; ok && len(w) >= 7 {
					rc, _ := strconv.Atoi(w[6])
					obs.Ledger[i].End = ts
					obs.Ledger[i].Rc = rc
				} else {
					bad()
				}
			case "C":
				if len(w) < 5 {
					bad()
					continue
				}
				n, _ := strconv.Atoi(w[2])
				ts, _ := strconv.ParseInt(w[4], 10, 64)
				key := w[0] + " C " + w[2]
				if w[3] == "S" {
					pending[key] = len(obs.Cleanups)
					obs.Cleanups = append(obs.Cleanups, cleanRow{w[0], n, ts, -1, -1})
				} else if i, ok := pending[key]; ok && len(w) >= 6 {
					rc, _ := strconv.Atoi(w[5])
					obs.Cleanups[i].End = ts
					obs.Cleanups[i].Rc = rc
				} else {
					bad()
				}
			case "P":
				if len(w) < 4 {
					bad()
					continue
				}
				ts, _ := strconv.ParseInt(w[3], 10, 64)
				if w[2] == "E" {
					obs.SpotEnds[w[0]] = ts
				} else if w[2] == "G" {
					obs.SpotGrace[w[0]] = ts
				} else {
					obs.SpotStarts[w[0]] = ts
				}
			default:
				bad()
			}
		}
		f.Close()
	}
	// csv
	files, _ := filepath.Glob(filepath.Join(dir, "out", "*", "csv", "*.csv"))
	sort.Strings(files)
	for _, fn := range files {
		if fi, err := os.Lstat(filepath.Dir(filepath.Dir(fn))); err == nil && fi.Mode()&os.ModeSymlink != 0 {
			continue // the `latest` symlink
		}
		actor := strings.TrimSuffix(filepath.Base(fn), ".csv")
		data, _ := ioutil.ReadFile(fn)
		for _, ln := range strings.Split(string(data), "\n") {
			w := strings.Fields(ln)
			if len(w) < 4 {
				continue
			}
			st, e1 := strconv.ParseFloat(w[0], 64)
			du, e2 := strconv.ParseFloat(w[1], 64)
			code, e3 := strconv.Atoi(w[3])
			if e1 != nil || e2 != nil || e3 != nil {
				continue
			}
			// "%.4f" seconds -> units of 100 us, exactly
			obs.Csv = append(obs.Csv, csvRow{actor, w[2], int64(st*10000+0.5) * 100000, int64(du*10000+0.5) * 100000, code})
		}
	}
	return obs, cfgText
}

// ---------------------------------------------------------------------------
// generators

func pick(rng *rand.Rand, xs []int) int { return xs[rng.Intn(len(xs))] }

// genScript fills the script part: actors, roles, scenes, storyline, durations.
func genScript(rng *rand.Rand, p *playDef, maxActs, maxCols int) {
	nAct := 1 + rng.Intn(3)
	p.RoleOf = map[string]string{}
	p.Roles = []string{"r1"}
	if nAct >= 2 && rng.Intn(2) == 0 {
		p.Roles = append(p.Roles, "r2")
	}
	for i := 1; i <= nAct; i++ {
		a := fmt.Sprintf("x%d", i)
		p.Actors = append(p.Actors, a)
		p.RoleOf[a] = p.Roles[(i-1)%len(p.Roles)]
	}
	p.TempoMs = pick(rng, []int{20, 30, 40, 50, 60, 80, 100, 150, 200})
	nScenes := 2 + rng.Intn(4)
	chars := "abcdefgh"
	durChoices := []int{0, 0, p.TempoMs / 3, p.TempoMs / 3, p.TempoMs * 8 / 10, p.TempoMs * 8 / 10, p.TempoMs * 3 / 2, p.TempoMs * 3}
	for s := 0; s < nScenes; s++ {
		sd := sceneDef{Char: chars[s : s+1]}
		nEnt := 1 + rng.Intn(2)
		emptyAt := -1
		if rng.Intn(4) == 0 {
			// a legal clause with an empty action list, before (or between) the others
			nEnt++
			emptyAt = rng.Intn(nEnt - 1)
		}
		for e := 0; e < nEnt; e++ {
			if e == emptyAt {
				sd.Entails = append(sd.Entails, entailDef{Target: p.Actors[rng.Intn(len(p.Actors))]})
				continue
			}
			var ed entailDef
			if rng.Intn(4) == 0 {
				ed.Target = "every " + p.Roles[rng.Intn(len(p.Roles))]
			} else {
				ed.Target = p.Actors[rng.Intn(len(p.Actors))]
			}
			nSteps := 1 + rng.Intn(3)
			for k := 0; k < nSteps; k++ {
				name := fmt.Sprintf("%s%ds%d", sd.Char, e, k)
				if k >= 1 && rng.Intn(3) == 0 {
					// an action whose name differs from the previous step's only by letter case
					name = strings.ToUpper(fmt.Sprintf("%s%ds%d", sd.Char, e, k-1))
					if k >= 2 && ed.Steps[k-1].Action == name {
						name = fmt.Sprintf("%s%ds%d", sd.Char, e, k)
					}
				}
				d := durChoices[rng.Intn(len(durChoices))]
				if d > 450 {
					d = 450
				}
				ad := actionDef{Name: name, DurMs: d}
				if rng.Intn(12) == 0 {
					// the command deliberately leaves a process behind (the harness kills it after
					// the play): the action ends when the command itself does
					ad.Extra = pick3(rng, "sleep 100 & ", "(sleep 100 &); ", "setsid sleep 100 & ")
				}
				p.Actions = append(p.Actions, ad)
				ed.Steps = append(ed.Steps, stepDef{Action: name, FailOk: rng.Intn(4) == 0})
			}
			sd.Entails = append(sd.Entails, ed)
		}
		p.Scenes = append(p.Scenes, sd)
	}
	nActs := 1 + rng.Intn(maxActs)
	var acts []string
	for a := 0; a < nActs; a++ {
		nCols := 1 + rng.Intn(maxCols)
		var sb strings.Builder
		for c := 0; c < nCols; c++ {
			switch {
			case rng.Intn(6) == 0:
				sb.WriteString(".")
			case rng.Intn(3) == 0 && nScenes >= 2:
				i := rng.Intn(nScenes)
				j := rng.Intn(nScenes - 1)
				if j >= i {
					j++
				}
				x, y := chars[i:i+1], chars[j:j+1]
				// `.` may be a member of a `+` group (it adds nothing to it)
				switch rng.Intn(8) {
				case 0:
					sb.WriteString(x + "+.")
				case 1:
					sb.WriteString(".+" + x)
				case 2:
					sb.WriteString(x + "+.+" + y)
				case 3:
					sb.WriteString(x + "+" + y + "+.")
				default:
					sb.WriteString(x + "+" + y)
				}
			default:
				i := rng.Intn(nScenes)
				sb.WriteString(chars[i : i+1])
			}
		}
		acts = append(acts, sb.String())
	}
	p.Story = []string{strings.Join(acts, " ")}
}

// usedChars returns the scene characters occurring in the storyline.
func usedChars(p *playDef) []string {
	seen := map[string]bool{}
	var out []string
	for _, st := range p.Story {
		for _, c := range st {
			if c >= 'a' && c <= 'z' && !seen[string(c)] {
				seen[string(c)] = true
				out = append(out, string(c))
			}
		}
	}
	sort.Strings(out)
	return out
}

func genRepeat(rng *rand.Rand, p *playDef, allowTime bool) {
	uc := usedChars(p)
	if len(uc) == 0 {
		return
	}
	switch rng.Intn(7) {
	case 6:
		// a count and a generous time bound: the count decides
		p.Repeat = uc[rng.Intn(len(uc))]
		p.RepeatN = 2 + rng.Intn(2)
		if allowTime {
			p.RepeatMs = 3600000
		}
	case 0, 1, 2:
		// no repeat
	case 3, 4:
		p.Repeat = uc[rng.Intn(len(uc))]
		p.RepeatN = 1 + rng.Intn(3)
	case 5:
		p.Repeat = uc[rng.Intn(len(uc))]
		if allowTime {
			p.RepeatMs = p.TempoMs * (1 + rng.Intn(6))
			if rng.Intn(2) == 0 {
				p.RepeatN = 2 + rng.Intn(3)
			}
		} else {
			p.RepeatN = 2 + rng.Intn(2)
		}
	}
}

// estimate an upper bound of the play's duration in ms (all acts, all repeats).
func estimateMs(p *playDef, cfg *cmd.VerifCfg) int {
	dur := map[string]int{}
	for _, a := range p.Actions {
		dur[a.Name] = a.DurMs + 15
	}
	total := 0
	perAct := make([]int, len(cfg.Play))
	for j, act := range cfg.Play {
		t := 0
		for _, sc := range act {
			w := int(sc.WaitUntilNs / 1e6)
			if t < w {
				t = w
			}
			mx := 0
			for _, l := range sc.Lines {
				s := 0
				for _, st := range l.Steps {
					s += dur[st.Action]
				}
				if s > mx {
					mx = s
				}
			}
			t += mx
		}
		perAct[j] = t
		total += t
	}
	if cfg.RepeatActNum > 0 {
		rep := 0
		for j := cfg.RepeatActNum - 1; j < len(perAct); j++ {
			if j >= 0 {
				rep += perAct[j]
			}
		}
		n := cfg.RepeatCount
		if n <= 0 {
			n = 1
			if p.RepeatMs > 0 && rep > 0 {
				n = 2 + p.RepeatMs/rep
			}
		}
		total += rep * (n - 1)
	}
	return total
}

func compile(p *playDef) (*cmd.VerifCfg, string) {
	text := p.render("/tmp/ledger")
	res, cfg := cmd.VerifParse(map[string]string{"p.cfg": text}, nil, "p.cfg", nil, []string{""})
	if res.Panic != "" || res.Err != "" || cfg == nil {
		return nil, res.Panic + res.Err
	}
	return cfg, ""
}

func genLedgerPlay(rng *rand.Rand, prop string, i int) (*playDef, *cmd.VerifCfg) {
	for try := 0; ; try++ {
		p := &playDef{Name: fmt.Sprintf("%s-%d", prop, i), Spot: map[string]string{}}
		genScript(rng, p, 3, 4)
		genRepeat(rng, p, true)
		if uc := usedChars(p); i%8 == 1 && len(uc) > 0 {
			// always present: a count AND a generous time bound (the count decides)
			p.Repeat, p.RepeatN, p.RepeatMs = uc[rng.Intn(len(uc))], 2+rng.Intn(2), 3600000
		}
		if prop == "c04" {
			// tolerated failures only
			for k := range p.Actions {
				a := &p.Actions[k]
				tol := false
				for _, s := range p.Scenes {
					for _, e := range s.Entails {
						for _, st := range e.Steps {
							if st.Action == a.Name && st.FailOk {
								tol = true
							}
						}
					}
				}
				if tol && rng.Intn(2) == 0 {
					a.FailAt = pick(rng, []int{-1, 1, 2})
					a.FailRc = pick(rng, []int{3, 3, 137, 143, 101, 102})
				}
			}
			if rng.Intn(3) == 0 {
				p.SpotKind = 1
			}
		} else { // c05
			switch i % 16 {
			case 2:
				p.TempoText, p.TempoNs = "0s", 0 // legal boundary tempo, with a non-tolerated failure (mode 2)
			case 10:
				p.TempoText, p.TempoNs = "1ns", 1
			}
			// one failing action (tolerated or not), or none
			mode := i % 4
			if mode != 0 {
				// choose among actions actually used in the storyline
				uc := usedChars(p)
				var cands []*actionDef
				for k := range p.Actions {
					for _, c := range uc {
						if strings.HasPrefix(p.Actions[k].Name, c) {
							cands = append(cands, &p.Actions[k])
						}
					}
				}
				if (i/4)%4 != 0 {
					// prefer an action of a line with several steps
					var multi []*actionDef
					for _, c := range cands {
						for _, sc := range p.Scenes {
							for _, e := range sc.Entails {
								for _, st := range e.Steps {
									if st.Action == c.Name && len(e.Steps) >= 2 {
										multi = append(multi, c)
									}
								}
							}
						}
					}
					if len(multi) > 0 {
						cands = multi
					}
				}
				if len(cands) > 0 {
					a := cands[rng.Intn(len(cands))]
					a.FailAt = pick(rng, []int{-1, 1, 1, 2})
					a.FailRc = pick(rng, []int{3, 3, 137, 143, 101, 102})
					want := mode == 1 // tolerated?
					if mode == 3 {
						want = rng.Intn(2) == 0
					}
					for si := range p.Scenes {
						for ei := range p.Scenes[si].Entails {
							steps := p.Scenes[si].Entails[ei].Steps
							for ki := range steps {
								st := &steps[ki]
								if st.Action == a.Name {
									st.FailOk = want
									// mix `?` and non-`?` actions around the failing one, in both orders
									// (i/4 cycles through: as generated / opposite mark before / after / both)
									switch (i / 4) % 4 {
									case 1:
										if ki > 0 {
											steps[ki-1].FailOk = !want
										}
									case 2:
										if ki+1 < len(steps) {
											steps[ki+1].FailOk = !want
										}
									case 3:
										for kj := range steps {
											if kj != ki {
												steps[kj].FailOk = !want
											}
										}
									}
								}
							}
						}
					}
				}
			}
			p.SpotKind = []int{0, 1, 2, 2, 1, 0, 3}[rng.Intn(7)]
			if i == 4 || i == 5 {
				// regression cases of commit d415a46 (`spotlight true`, spotlights exiting 0 after a delay): always run
				p.SpotKind = 2
			}
			switch p.SpotKind {
			case 2:
				for _, a := range p.Actors {
					p.Spot[a] = pick2(rng, "true", fmt.Sprintf("sleep %s", durArg(p.TempoMs*(1+rng.Intn(3))/2)))
					if i == 4 {
						p.Spot[a] = "true"
					} else if i == 5 {
						p.Spot[a] = fmt.Sprintf("sleep %s", durArg(p.TempoMs*(1+rng.Intn(3))/2))
					}
				}
			case 3:
				for _, a := range p.Actors {
					p.Spot[a] = "sleep 300"
				}
				p.Spot[p.Actors[rng.Intn(len(p.Actors))]] = fmt.Sprintf("sleep %s; exit 5", durArg(p.TempoMs*rng.Intn(4)/2))
			}
		}
		cfg, errs := compile(p)
		if cfg == nil {
			if try > 50 {
				panic("generator produces rejected configurations: " + errs + "\n" + p.render("/tmp/ledger"))
			}
			continue
		}
		if p.Repeat != "" && cfg.RepeatActNum == 0 {
			continue
		}
		if estimateMs(p, cfg) > 3500 {
			continue
		}
		return p, cfg
	}
}

func pick3(rng *rand.Rand, a, b, c string) string {
	return []string{a, b, c}[rng.Intn(3)]
}

func pick2(rng *rand.Rand, a, b string) string {
	if rng.Intn(2) == 0 {
		return a
	}
	return b
}

// genRendezvous: NumCPU+2 actors in ONE scene group whose actions wait for each other
// (each drops a file and waits until all N exist, giving up after 20 s): they can only
// all complete within the bound if the lines of the group really run concurrently.
func genRendezvous(name string) *playDef {
	n := runtime.NumCPU() + 2
	p := &playDef{Name: name, Spot: map[string]string{}, RoleOf: map[string]string{}, Rdv: true}
	p.Roles = []string{"r1"}
	for i := 1; i <= n; i++ {
		a := fmt.Sprintf("x%d", i)
		p.Actors = append(p.Actors, a)
		p.RoleOf[a] = "r1"
	}
	p.TempoMs = 100
	p.Actions = []actionDef{{Name: "a0s0", DurMs: 0, Extra: fmt.Sprintf(
		"mkdir -p $LEDGER.rdv; touch $LEDGER.rdv/$ME; t=0; while [ $(ls $LEDGER.rdv | wc -l) -lt %d ] && [ $t -lt 2000 ]; do sleep 0.01; t=$((t+1)); done; ", n)}}
	p.Scenes = []sceneDef{{"a", []entailDef{{"every r1", []stepDef{{"a0s0", false}}}}}}
	p.Story = []string{"a"}
	return p
}

// genJustBefore: deterministic "just before the slot" play.  tempo 1.5 s (1% = 15 ms),
// storyline `a pqrstu`.  Act 1 (`a`, 1.05 tempo > its slot) ends late, so act 2 starts
// right when a ends.  The action of column k of act 2 reads a's end from the ledger
// and sleeps until (a's end + (k+1) x tempo - X_k), X_k = 3, 5, 8, 11, 14 ms: it ends a
// few ms before the slot of column k+1, whose action must nevertheless not start before
// act start + (k+1) x tempo >= (recorded end of a) + (k+1) x tempo.
var justBeforeX = []int{11, 14, 17, 20, 23}

const justBeforeTempoMs = 1500

func genJustBefore(name string) *playDef {
	p := &playDef{Name: name, Spot: map[string]string{}, RoleOf: map[string]string{}, JustBefore: true}
	p.Roles = []string{"r1"}
	p.Actors = []string{"x1"}
	p.RoleOf["x1"] = "r1"
	p.TempoMs = justBeforeTempoMs
	p.Actions = []actionDef{{Name: "a0s0", DurMs: justBeforeTempoMs * 105 / 100}}
	p.Scenes = []sceneDef{{"a", []entailDef{{"x1", []stepDef{{"a0s0", false}}}}}}
	story := "a "
	chars := "pqrstu"
	for k := 0; k < len(chars); k++ {
		ch := chars[k : k+1]
		name := ch + "0s0"
		ad := actionDef{Name: name, DurMs: 0}
		if k < len(justBeforeX) {
			// coarse wait until 40 ms before the target, then the "E" ledger line (an instant the
			// command did experience), then the fine wait and an immediate exit: what remains
			// between the target and the prompter noticing the end is one process exit.
			until := func(ms int) string {
				return fmt.Sprintf(`d=$((ae + %d*%d000000 - %d000000 - $(date +%%s%%N))); if [ $d -gt 0 ]; then sleep $(printf "%%d.%%09d" $((d/1000000000)) $((d%%1000000000))); fi; `,
					k+1, justBeforeTempoMs, ms)
			}
			ad.Extra = `ae=$(grep " A a0s0 1 E " $LEDGER | tail -1 | cut -d" " -f6); ` + until(justBeforeX[k]+40)
			ad.Fin = until(justBeforeX[k]) + "exit 0"
		}
		p.Actions = append(p.Actions, ad)
		p.Scenes = append(p.Scenes, sceneDef{ch, []entailDef{{"x1", []stepDef{{name, false}}}}})
		story += ch
	}
	p.Story = []string{story}
	return p
}

// justBeforeHits: how many predecessors ended inside the last 1% of the tempo before
// the next slot (counted from a's end, the lower bound of the act's start).  None
// (machine load): the play says nothing about the window and is worth another try.
func justBeforeHits(o *observation) int {
	// on the prompter's own recorded instants (csv: start, duration since the epoch)
	var aEnd int64
	for _, r := range o.Csv {
		if r.Action == "a0s0" {
			aEnd = r.StartNs + r.DurNs
		}
	}
	hits := 0
	for _, r := range o.Csv {
		k := strings.Index("pqrstu", r.Action[:1])
		if k < 0 || k >= len(justBeforeX) || aEnd <= 0 {
			continue
		}
		slot := aEnd + int64(k+1)*justBeforeTempoMs*1000000
		end := r.StartNs + r.DurNs
		if end < slot && end > slot-justBeforeTempoMs*10000 {
			hits++
		}
	}
	return hits
}

func justBeforeMissed(o *observation) bool { return justBeforeHits(o) == 0 }

// genFineTempo: many columns at a tempo that is not a whole number of milliseconds
// (20400 us x 80 columns; 1250 us x 200 columns): column k may not start before
// k x tempo EXACTLY.
func genFineTempo(name string, variant int) *playDef {
	p := &playDef{Name: name, Spot: map[string]string{}, RoleOf: map[string]string{}}
	p.Roles = []string{"r1"}
	p.Actors = []string{"x1"}
	p.RoleOf["x1"] = "r1"
	cols := 80
	p.TempoMs, p.TempoText, p.TempoNs = 20, "20400us", 20400000
	if variant%2 == 1 {
		cols = 200
		p.TempoMs, p.TempoText, p.TempoNs = 1, "1250us", 1250000
	}
	p.Actions = []actionDef{{Name: "a0s0", DurMs: 0}, {Name: "b0s0", DurMs: 0}, {Name: "c0s0", DurMs: 0}}
	p.Scenes = []sceneDef{
		{"a", []entailDef{{"x1", []stepDef{{"a0s0", false}}}}},
		{"b", []entailDef{{"x1", []stepDef{{"b0s0", false}}}}},
		{"c", []entailDef{{"x1", []stepDef{{"c0s0", false}}}}},
	}
	st := []byte(strings.Repeat(".", cols))
	st[0], st[cols/2], st[cols*3/4], st[cols-1] = 'a', 'b', 'c', 'b'
	p.Story = []string{string(st)}
	return p
}

// genOverrun: a scene group that lasts longer than the tempo, followed by at least two more
// columns whose actions are short: each of them must still wait for its own slot
// (column x tempo from the ACT start), however late the overrunning group made its successor.
func genOverrun(rng *rand.Rand, name string, variant int) *playDef {
	p := &playDef{Name: name, Spot: map[string]string{}, RoleOf: map[string]string{}}
	p.Roles = []string{"r1"}
	p.Actors = []string{"x1", "x2"}
	p.RoleOf["x1"], p.RoleOf["x2"] = "r1", "r1"
	p.TempoMs = pick(rng, []int{400, 500})
	// 1.3 .. 1.5 tempos: the column after next would start >= 0.5 tempo (200 ms) early
	long := p.TempoMs * (13 + rng.Intn(3)) / 10
	p.Actions = []actionDef{{Name: "a0s0", DurMs: long}, {Name: "b0s0", DurMs: 5}, {Name: "c0s0", DurMs: 5}, {Name: "d0s0", DurMs: 5}}
	p.Scenes = []sceneDef{
		{"a", []entailDef{{"x1", []stepDef{{"a0s0", false}}}}},
		{"b", []entailDef{{"x2", []stepDef{{"b0s0", false}}}}},
		{"c", []entailDef{{"x1", []stepDef{{"c0s0", false}}}}},
		{"d", []entailDef{{"x2", []stepDef{{"d0s0", false}}}}},
	}
	p.Story = []string{[]string{"abc", "abcd", "ba.cd", "b abc", "abc abd"}[variant%5]}
	return p
}

// genDupInGroup: `+` groups naming the same scene twice (`a+ab a+a`, as two combined
// storyline clauses produce): its lines run once per mention.  Single-step lines and an
// atomic run counter, since the same actor runs the same action twice at the same time.
func genDupInGroup(rng *rand.Rand, name string, variant int) *playDef {
	p := &playDef{Name: name, Spot: map[string]string{}, RoleOf: map[string]string{}, DupKeys: true}
	p.Roles = []string{"r1"}
	p.Actors = []string{"x1", "x2"}
	p.RoleOf["x1"], p.RoleOf["x2"] = "r1", "r1"
	p.TempoMs = pick(rng, []int{40, 80})
	p.Actions = []actionDef{{Name: "a0s0", DurMs: 10, Atomic: true}, {Name: "b0s0", DurMs: 10, Atomic: true}}
	p.Scenes = []sceneDef{
		{"a", []entailDef{{"x1", []stepDef{{"a0s0", false}}}}},
		{"b", []entailDef{{"every r1", []stepDef{{"b0s0", false}}}}},
	}
	p.Story = []string{[]string{"a+ab a+a", "a+a", "b+a+b a", "a+a+a.b+b"}[variant%4]}
	return p
}

// genFailShapes: one line of actions failing in every way a shell command can end
// non-zero: `exit 3`, an `&&` list whose first member fails, a negated command (neither
// trips `set -e`), SIGKILL / SIGTERM to the own shell.  C04: all tolerated (the recorded
// status must be non-zero for each); C05: the hardAt-th is NOT tolerated and must stop the play.
func genFailShapes(name string, hardAt int) *playDef {
	p := &playDef{Name: name, Spot: map[string]string{}, RoleOf: map[string]string{}}
	p.Roles = []string{"r1"}
	p.Actors = []string{"x1"}
	p.RoleOf["x1"] = "r1"
	p.TempoMs = 50
	shapes := []int{101, 102, 3, 137, 143}
	var steps []stepDef
	for k, rc := range shapes {
		name := fmt.Sprintf("a0s%d", k)
		p.Actions = append(p.Actions, actionDef{Name: name, DurMs: 5, FailAt: -1, FailRc: rc})
		steps = append(steps, stepDef{name, k != hardAt})
	}
	p.Actions = append(p.Actions, actionDef{Name: "z0s0", DurMs: 5})
	p.Scenes = []sceneDef{{"a", []entailDef{{"x1", steps}}}, {"z", []entailDef{{"x1", []stepDef{{"z0s0", false}}}}}}
	p.Story = []string{"az"}
	return p
}

// genSilentAct: an act made only of pauses that is neither the first act nor after the
// repetition point (`a .. b`, repeat from b, repeat N times): b is played N times.
func genSilentAct(rng *rand.Rand, name string, variant int) *playDef {
	p := &playDef{Name: name, Spot: map[string]string{}, RoleOf: map[string]string{}}
	p.Roles = []string{"r1"}
	p.Actors = []string{"x1", "x2"}
	p.RoleOf["x1"], p.RoleOf["x2"] = "r1", "r1"
	p.TempoMs = pick(rng, []int{20, 40})
	p.Actions = []actionDef{{Name: "a0s0", DurMs: 5}, {Name: "b0s0", DurMs: 5}, {Name: "b1s0", DurMs: 0}}
	p.Scenes = []sceneDef{
		{"a", []entailDef{{"x1", []stepDef{{"a0s0", false}}}}},
		{"b", []entailDef{{"x2", []stepDef{{"b0s0", false}}}, {"x1", []stepDef{{"b1s0", false}}}}},
	}
	p.Story = []string{[]string{"a .. b", "a . ... ba", "a.a .. . b"}[variant%3]}
	p.Repeat = "b"
	p.RepeatN = 2 + variant%2
	return p
}

// genManyActors: 70 acting actors (more than 64 csv files open) in a play longer than
// 1 s (the collector's flush tick): every actor must have one csv row per action.
func genManyActors(name string) *playDef {
	p := &playDef{Name: name, Spot: map[string]string{}, RoleOf: map[string]string{}}
	p.Roles = []string{"r1"}
	for i := 1; i <= 70; i++ {
		a := fmt.Sprintf("x%d", i)
		p.Actors = append(p.Actors, a)
		p.RoleOf[a] = "r1"
	}
	p.TempoMs = 500
	p.Actions = []actionDef{{Name: "a0s0", DurMs: 0}, {Name: "b0s0", DurMs: 0}}
	p.Scenes = []sceneDef{
		{"a", []entailDef{{"every r1", []stepDef{{"a0s0", false}}}}},
		{"b", []entailDef{{"every r1", []stepDef{{"b0s0", false}}}}},
	}
	p.Story = []string{"a...b...a"} // 4.5 s: several flush ticks between the bursts of rows
	return p
}

// genHeadShare: a scene of several lines (3, 5, 6 or 7) at the HEAD of two `+` groups
// with different partners (`a+b ... a+c`): each partner is performed with it once.
func genHeadShare(rng *rand.Rand, name string, variant int) *playDef {
	p := &playDef{Name: name, Spot: map[string]string{}, RoleOf: map[string]string{}}
	p.Roles = []string{"r1"}
	for i := 1; i <= 3; i++ {
		a := fmt.Sprintf("x%d", i)
		p.Actors = append(p.Actors, a)
		p.RoleOf[a] = "r1"
	}
	p.TempoMs = pick(rng, []int{40, 80})
	p.Actions = []actionDef{{Name: "a0s0", DurMs: 10}, {Name: "a1s0", DurMs: 5}, {Name: "b0s0", DurMs: 10}, {Name: "c0s0", DurMs: 10}}
	a := sceneDef{"a", []entailDef{{"every r1", []stepDef{{"a0s0", false}}}}}
	switch variant % 4 {
	case 1: // 5 lines
		a.Entails = append(a.Entails, entailDef{"x1", []stepDef{{"a1s0", false}}}, entailDef{"x2", []stepDef{{"a1s0", false}}})
	case 2: // 6 lines
		a.Entails = append(a.Entails, entailDef{"every r1", []stepDef{{"a1s0", false}}})
	case 3: // 7 lines
		p.Actions = append(p.Actions, actionDef{Name: "a2s0", DurMs: 0})
		a.Entails = append(a.Entails, entailDef{"every r1", []stepDef{{"a1s0", false}}}, entailDef{"x3", []stepDef{{"a2s0", false}}})
	}
	p.Scenes = []sceneDef{a,
		{"b", []entailDef{{"x1", []stepDef{{"b0s0", false}}}}},
		{"c", []entailDef{{"x2", []stepDef{{"c0s0", false}}}}}}
	p.Story = []string{[]string{"a+b a+c", "a+b.a+c", "a+b a+c a+b", "a+c.a+b a"}[(variant/4+variant)%4]}
	return p
}

// genFanoutFail: a group of 3-4 concurrent lines (`a+b+c d`), the non-tolerated failing
// one being the SLOWEST (it reports its failure after the others reported success),
// followed by a group that must not be played.
func genFanoutFail(rng *rand.Rand, name string, variant int) *playDef {
	p := &playDef{Name: name, Spot: map[string]string{}, RoleOf: map[string]string{}}
	p.Roles = []string{"r1"}
	n := 3 + variant%2
	for i := 1; i <= n; i++ {
		a := fmt.Sprintf("x%d", i)
		p.Actors = append(p.Actors, a)
		p.RoleOf[a] = "r1"
	}
	p.TempoMs = pick(rng, []int{50, 100})
	chars := "abcd"[:n]
	failing := variant % n // position of the failing scene inside the group
	var group []string
	for i := 0; i < n; i++ {
		ch := chars[i : i+1]
		name := ch + "0s0"
		ad := actionDef{Name: name, DurMs: rng.Intn(40)}
		if i == failing {
			ad.DurMs = 400
			ad.FailAt = -1
			ad.FailRc = []int{137, 3, 143, 101}[variant%4]
		}
		p.Actions = append(p.Actions, ad)
		p.Scenes = append(p.Scenes, sceneDef{ch, []entailDef{{p.Actors[i], []stepDef{{name, false}}}}})
		group = append(group, ch)
	}
	p.Actions = append(p.Actions, actionDef{Name: "z0s0", DurMs: 10})
	p.Scenes = append(p.Scenes, sceneDef{"z", []entailDef{{"x1", []stepDef{{"z0s0", false}}}}})
	if variant%3 == 0 {
		p.Story = []string{strings.Join(group, "+") + " z"}
	} else {
		p.Story = []string{strings.Join(group, "+") + "z"}
	}
	return p
}

// ---- C07 fault injection on a fixed 3-scene script

func baseC07(name string) *playDef {
	p := &playDef{Name: name, Spot: map[string]string{}, RoleOf: map[string]string{}}
	p.Actors = []string{"x1", "x2"}
	p.Roles = []string{"r1"}
	p.RoleOf["x1"], p.RoleOf["x2"] = "r1", "r1"
	p.TempoMs = 100
	for _, n := range []string{"a0s0", "b0s0", "b1s0", "c0s0"} {
		p.Actions = append(p.Actions, actionDef{Name: n, DurMs: 40})
	}
	p.Actions = append(p.Actions, actionDef{Name: "w0s0", DurMs: 0, Extra: "echo \"v 7\" >>sp.log; "})
	p.Scenes = []sceneDef{
		{"a", []entailDef{{"x1", []stepDef{{"a0s0", false}}}}},
		{"b", []entailDef{{"x1", []stepDef{{"b0s0", false}}}, {"x2", []stepDef{{"b1s0", false}}}}},
		{"c", []entailDef{{"x2", []stepDef{{"c0s0", false}}}}},
	}
	p.Story = []string{"abc .........."}
	p.SpotKind = 1
	p.Spot["x1"] = "touch sp.log; tail -s 0.05 -F sp.log"
	p.Spot["x2"] = "echo; echo hello; echo; sleep 300" // prints blank lines, then keeps running
	p.Audience = []string{"bob watches x1 v", "bob expects always: [x1 v] >= 0"}
	return p
}

func (p *playDef) action(name string) *actionDef {
	for k := range p.Actions {
		if p.Actions[k].Name == name {
			return &p.Actions[k]
		}
	}
	panic("no action " + name)
}

func genC07(rng *rand.Rand, tier string) []*playDef {
	var out []*playDef
	add := func(p *playDef, fault, pos string) {
		p.Fault, p.FaultPos = fault, pos
		p.Name = fmt.Sprintf("c07-%d-%s-%s", len(out), fault, pos)
		out = append(out, p)
	}
	positions := []string{"a0s0", "b0s0", "c0s0"}
	quick := tier != "thorough"
	pickPos := func() []string {
		if quick {
			return []string{positions[rng.Intn(3)]}
		}
		return positions
	}
	// 0. no fault
	add(baseC07(""), "none", "-")
	// 1. action fails
	for _, pos := range pickPos() {
		p := baseC07("")
		p.action(pos).FailAt = -1
		add(p, "action-fails", pos)
	}
	// 2. spotlight fails at some time
	for _, at := range []int{0, 130, 260} {
		if quick && at != []int{0, 130, 260}[rng.Intn(3)] {
			continue
		}
		p := baseC07("")
		p.Spot["x2"] = fmt.Sprintf("sleep %s; echo \"$ME P E $(date +%%s%%N)\" >>$LEDGER; exit 5", durArg(at))
		p.SpotKind = 3
		add(p, "spotlight-fails", fmt.Sprintf("%dms", at))
	}
	// 3. spotlight ignores SIGHUP: leader, child in the group, background child
	{
		p := baseC07("")
		p.Spot["x2"] = "trap \"\" HUP; exec sleep 300"
		p.SpotKind = 4
		add(p, "spotlight-ignores-hup-leader", "-")
		p = baseC07("")
		p.Spot["x2"] = "trap \"\" HUP; sleep 300"
		p.SpotKind = 5
		add(p, "spotlight-ignores-hup-child", "-")
		// regression case of commit c7b3a08: always run
		p = baseC07("")
		p.Spot["x2"] = "(trap \"\" HUP; sleep 300) & sleep 300"
		p.SpotKind = 6
		add(p, "spotlight-ignores-hup-bgchild", "-")
	}
	// 3b. a spotlight that handles SIGHUP (writes a marker, exits 0): it must get the chance
	{
		p := baseC07("")
		p.Spot["x2"] = "trap \"echo \\$ME P G \\$(date +%s%N) >>\\$LEDGER; exit 0\" HUP; sleep 300 & wait"
		add(p, "spotlight-graceful-hup", "-")
	}
	// 4. cleanup fails first / second time
	for _, n := range []int{1, 2} {
		p := baseC07("")
		p.CleanFailAt = n
		p.CleanActor = pick2(rng, "x1", "x2")
		add(p, fmt.Sprintf("cleanup-fails-%d", n), p.CleanActor)
	}
	// 5. audit foul with -S, at a position; expression error with/without -S
	for _, pos := range pickPos() {
		p := baseC07("")
		// the action at pos makes the spotlight print a value that disappoints bob
		sc := pos[0:1]
		for si := range p.Scenes {
			if p.Scenes[si].Char == sc {
				p.Scenes[si].Entails = append(p.Scenes[si].Entails, entailDef{"x1", []stepDef{{"w0s0", false}}})
			}
		}
		p.Audience = []string{"bob watches x1 v", "bob expects always: [x1 v] < 5"}
		p.Flags = []string{"-S"}
		add(p, "audit-foul-S", pos)
	}
	// 5b. audit foul with -S while a long (3 s) action is in progress and a chatty spotlight keeps
	// emitting watched values: the cascade collector -> auditors -> spotlights must still unwind
	{
		p := baseC07("")
		p.action("a0s0").DurMs = 3000
		p.Spot["x1"] = "i=0; while true; do i=$((i+1)); echo \"v $i\"; sleep 0.01; done"
		p.Audience = []string{"bob watches x1 v", "bob expects always: [x1 v] < 8"}
		p.Flags = []string{"-S"}
		add(p, "audit-foul-S-chatty-long-action", "a0s0")
	}
	exprS := rng.Intn(2) == 0
	for _, withS := range []bool{false, true} {
		if quick && withS != exprS {
			continue
		}
		p := baseC07("")
		p.Scenes[1].Entails = append(p.Scenes[1].Entails, entailDef{"x1", []stepDef{{"w0s0", false}}})
		p.Audience = []string{"bob watches x1 v", "bob expects always: [x1 v] < 'abc'"}
		f := "expr-error"
		if withS {
			p.Flags = []string{"-S"}
			f = "expr-error-S"
		}
		add(p, f, "b")
	}
	// 6. signals at several instants (actions end by themselves)
	instants := []int{0, 40, 90, 150, 230, 300, 380}
	for _, sig := range []int{int(syscall.SIGINT), int(syscall.SIGTERM)} {
		for _, at := range instants {
			if quick && rng.Intn(7) >= 3 {
				continue
			}
			p := baseC07("")
			p.Sig, p.SigAtMs = sig, at+rng.Intn(30)
			name := "sigint"
			if sig == int(syscall.SIGTERM) {
				name = "sigterm"
			}
			add(p, name, fmt.Sprintf("%dms", p.SigAtMs))
		}
	}
	// 6b. a signal while an action (3 s: it ends by itself, far below the 60 s hard limit) is
	// running: the later stages report nil before the prompter does; with and without spotlights.
	// 6c. a spotlight whose leader ignores SIGHUP, the play being ended by a signal: it must
	// be killed after the grace period.
	for _, sig := range []int{int(syscall.SIGINT), int(syscall.SIGTERM)} {
		sname := map[int]string{int(syscall.SIGINT): "sigint", int(syscall.SIGTERM): "sigterm"}[sig]
		for _, spots := range []bool{true, false} {
			p := baseC07("")
			p.action("a0s0").DurMs = 3000
			if sig == int(syscall.SIGTERM) {
				// more than 5 s left to run when the signal arrives, far below the one-minute limit
				p.action("a0s0").DurMs = 7500
			}
			p.Sig, p.SigAtMs, p.SigAfter = sig, 400+rng.Intn(400), "a0s0"
			f := "signal-during-action"
			if !spots {
				p.SpotKind = 0
				p.Audience = nil
				f = "signal-during-action-no-spotlights"
			}
			add(p, f, sname)
		}
		p := baseC07("")
		p.Spot["x2"] = "trap \"\" HUP; exec sleep 300"
		p.SpotKind = 4
		p.Sig, p.SigAtMs = sig, 150+rng.Intn(300)
		add(p, "spotlight-ignores-hup-leader-signal", sname)
	}
	// 6d. a signal while the INITIAL cleanups (2 s each) are still running: both cleanup
	// passes must still happen.
	for _, sig := range []int{int(syscall.SIGINT), int(syscall.SIGTERM)} {
		p := baseC07("")
		p.CleanSlowAt = 1
		p.Sig, p.SigAtMs, p.SigAfterRaw = sig, 300+rng.Intn(800), " C 1 S "
		add(p, "signal-during-initial-cleanup", map[int]string{int(syscall.SIGINT): "sigint", int(syscall.SIGTERM): "sigterm"}[sig])
	}
	// 6e. a spotlight with a descendant in ANOTHER session (setsid) that inherited its
	// output and outlives it: the play cannot kill it (the harness does, afterwards), but
	// it must not keep the play from ending.
	{
		p := baseC07("")
		p.Spot["x2"] = "setsid sleep 100 & sleep 300"
		p.ExcuseSurvivor = "sleep 100"
		add(p, "spotlight-setsid-child-holds-pipe", "-")
	}
	// 6f. shakespeare's own standard input stays open (no EOF) and the commands read
	// theirs: they must see EOF at once (commands get no standard input)
	{
		p := baseC07("")
		p.ReadStdin = true
		for k := range p.Actions {
			p.Actions[k].Extra = "cat >/dev/null; " + p.Actions[k].Extra
		}
		p.Spot["x2"] = "cat >/dev/null; sleep 300"
		add(p, "commands-read-open-stdin", "-")
	}
	// 6g. a play without actors: mood-only scenes 1 ms apart and 400 auditors disappointed by
	// the first one, with -S: the prompter is cancelled while it hands the next mood change to
	// the still busy audition
	{
		var sb strings.Builder
		sb.WriteString("script\n  tempo 1ms\n  scene a mood starts red\n  scene b mood starts blue\n  scene c mood starts green\n  storyline abc\nend\naudience\n")
		for i := 0; i < 400; i++ {
			fmt.Fprintf(&sb, "  aud%d expects always: mood == 'clear'\n", i)
		}
		sb.WriteString("end\n")
		p := &playDef{Spot: map[string]string{}, RoleOf: map[string]string{}, RawCfg: sb.String(), Flags: []string{"-S"}}
		add(p, "mood-only-scenes-foul-S", "-")
	}
	// 6h. `repeat from` + a finite `repeat time` (+ the default `repeat always`): the play
	// ends by itself once the time is over, although each iteration is shorter than it
	{
		p := baseC07("")
		p.Story = []string{"abc"}
		p.Repeat, p.RepeatMs = "a", 1500
		add(p, "repeat-time-ends-the-play", "-")
	}
	// 6i. (thorough only: it lasts > 60 s) a signal after the play has run for more than a
	// minute: the one-minute limit counts from the signal, the shutdown is as graceful as ever
	if !quick {
		p := baseC07("")
		p.Story = []string{"abc " + strings.Repeat(".", 615)}
		p.Sig, p.SigAtMs = int(syscall.SIGINT), 61500
		add(p, "signal-after-a-long-play", "sigint")
	}
	// 7. commands that outlive their scene (sleep 300) while the play is stopped:
	// the known finding "running-action-or-cleanup-not-interruptible" makes these slow
	// (60 s hard limit, or the harness' own bound), so few of them in the quick tier.
	type slow struct {
		fault, pos string
		mk         func(p *playDef)
	}
	slows := []slow{
		{"action-hangs-sigint", "b1s0", func(p *playDef) { p.action("b1s0").Hang = true; p.Sig, p.SigAtMs, p.SigAfter = int(syscall.SIGINT), 100, "b1s0" }},
		{"cleanup-hangs-1", "x2", func(p *playDef) { p.CleanHangAt = 1; p.CleanActor = "x2" }},
		{"action-hangs-peer-fails", "b1s0", func(p *playDef) { p.action("b1s0").Hang = true; p.action("b0s0").FailAt = -1 }},
		{"action-hangs-sigterm", "a0s0", func(p *playDef) { p.action("a0s0").Hang = true; p.Sig, p.SigAtMs, p.SigAfter = int(syscall.SIGTERM), 100, "a0s0" }},
		{"cleanup-hangs-2", "x1", func(p *playDef) { p.CleanHangAt = 2; p.CleanActor = "x1" }},
		{"action-hangs-spotlight-fails", "c0s0", func(p *playDef) {
			p.action("c0s0").Hang = true
			p.Spot["x2"] = "sleep 0.5; echo \"$ME P E $(date +%s%N)\" >>$LEDGER; exit 5"
			p.SpotKind = 3
		}},
		{"action-hangs-audit-foul-S", "c0s0", func(p *playDef) {
			p.action("c0s0").Hang = true
			p.Scenes[1].Entails = append(p.Scenes[1].Entails, entailDef{"x1", []stepDef{{"w0s0", false}}})
			p.Audience = []string{"bob watches x1 v", "bob expects always: [x1 v] < 5"}
			p.Flags = []string{"-S"}
		}},
	}
	{
		// a second SIGINT during the (stuck) shutdown must end the process at once
		p := baseC07("")
		p.action("b1s0").Hang = true
		p.Sig, p.SigAtMs, p.SigAfter, p.Sig2AfterMs = int(syscall.SIGINT), 100, "b1s0", 2000
		add(p, "action-hangs-two-sigints", "b1s0")
	}
	nslow := len(slows)
	if quick {
		nslow = 2
	}
	for _, s := range slows[:nslow] {
		p := baseC07("")
		s.mk(p)
		add(p, s.fault, s.pos)
	}
	return out
}

// ---- C07: the real runScene / prompt under a quiescing stopper (hook verif_c07.go)

type stopCase struct {
	Kind, K, NScenes, NLines int
	Story                    string
	Res                      cmd.VerifC07Result
}

func runStopCases() []stopCase {
	dir, err := ioutil.TempDir("", "shk-e2e-stop-")
	if err != nil {
		panic(err)
	}
	defer os.RemoveAll(dir)
	closeLog := cmd.VerifLogScope()
	defer closeLog()
	var out []stopCase
	for _, story := range []string{"abc", "a+b+c a", "b a"} {
		p := baseC07("stop")
		p.Story = []string{story}
		p.SpotKind = 0
		p.Audience = nil
		text := p.render(filepath.Join(dir, "ledger"))
		cfg, errs := compile(p)
		if cfg == nil {
			panic("stop-case configuration rejected: " + errs)
		}
		nsc, first := 0, 0
		for _, act := range cfg.Play {
			for _, sc := range act {
				if len(sc.Lines) > 0 {
					if nsc == 0 {
						first = len(sc.Lines)
					}
					nsc++
				}
			}
		}
		out = append(out, stopCase{Kind: 0, NScenes: nsc, NLines: first, Story: story, Res: cmd.VerifRunSceneQuiescing(text, 20000)})
		for k := 1; k <= nsc; k++ {
			// number of lines of the k-th non-empty scene
			n, cnt := 0, 0
			for _, act := range cfg.Play {
				for _, sc := range act {
					if len(sc.Lines) > 0 {
						cnt++
						if cnt == k {
							n = len(sc.Lines)
						}
					}
				}
			}
			out = append(out, stopCase{Kind: 1, K: k, NScenes: nsc, NLines: n, Story: story, Res: cmd.VerifPromptQuiesceAt(text, k, 20000)})
		}
	}
	// mood-only lines first, the audition not receiving, the prompter cancelled
	for _, n := range []int{1, 3} {
		out = append(out, stopCase{Kind: 2, NLines: n, Story: "(mood-only lines)", Res: cmd.VerifRunSceneMoodCancelled(n, 100, 20000)})
	}
	moodCfg := "script\n  tempo 1ms\n  scene a mood starts red\n  scene b mood starts blue\n  scene c mood starts green\n  storyline abc\nend\n"
	for _, consume := range []int{1, 2, 3} {
		// the act change and (consume-1) mood changes are received, the next mood change blocks
		out = append(out, stopCase{Kind: 3, K: consume, NScenes: 3, NLines: 1, Story: "abc (mood-only scenes)", Res: cmd.VerifPromptMoodCancelled(moodCfg, consume, 150, 20000)})
	}
	return out
}

// ---------------------------------------------------------------------------
// Coq / JSON output

type caseOut struct {
	Name      string
	Prop      string
	Cfg       string
	Play      *cmd.VerifCfg
	Def       *playDef
	Obs       observation
	ActorIdx  map[string]int
	ActionIdx map[string]int
}

// expectedPlay is what the script TEXT denotes, computed from the generator's own
// description (independently of the real compiler): per act one scene per column that
// has lines (a column = scene characters joined by `+`, `.` adding nothing), at
// waitUntil = column index x tempo, its lines in the order characters / entails /
// selected actors (cast order), and a final empty scene at (number of columns) x tempo.
func expectedPlay(p *playDef) [][]cmd.VerifScene {
	sceneOf := map[string]*sceneDef{}
	for i := range p.Scenes {
		sceneOf[p.Scenes[i].Char] = &p.Scenes[i]
	}
	tempo := int64(p.TempoMs) * 1e6
	if p.TempoText != "" {
		tempo = p.TempoNs
	}
	var out [][]cmd.VerifScene
	for _, actText := range strings.Fields(strings.Join(p.Story, " ")) {
		var act []cmd.VerifScene
		col := int64(0)
		var cur cmd.VerifScene
		for i := 0; i < len(actText); i++ {
			ch := actText[i : i+1]
			if sd := sceneOf[ch]; sd != nil {
				for _, e := range sd.Entails {
					var actors []string
					if strings.HasPrefix(e.Target, "every ") {
						for _, a := range p.Actors {
							if p.RoleOf[a] == strings.TrimPrefix(e.Target, "every ") {
								actors = append(actors, a)
							}
						}
					} else {
						actors = []string{e.Target}
					}
					if len(e.Steps) == 0 {
						continue // a clause without actions yields no line
					}
					for _, a := range actors {
						l := cmd.VerifLine{Actor: a}
						for _, st := range e.Steps {
							l.Steps = append(l.Steps, cmd.VerifStep{Typ: 0, Action: st.Action, FailOk: st.FailOk})
						}
						cur.Lines = append(cur.Lines, l)
					}
				}
			}
			if i+1 < len(actText) && actText[i+1] == '+' {
				i++
				continue
			}
			cur.WaitUntilNs = col * tempo
			col++
			if len(cur.Lines) > 0 {
				act = append(act, cur)
			}
			cur = cmd.VerifScene{}
		}
		act = append(act, cmd.VerifScene{WaitUntilNs: col * tempo})
		out = append(out, act)
	}
	return out
}

func coqPlay(c *caseOut, play [][]cmd.VerifScene) string {
	var acts []string
	for _, act := range play {
		var scs []string
		for _, sc := range act {
			var lines []string
			for _, l := range sc.Lines {
				var steps []string
				for _, st := range l.Steps {
					if st.Typ == 0 {
						steps = append(steps, fmt.Sprintf("SDo %d %s", c.ActionIdx[st.Action], vh.Bool(st.FailOk)))
					} else {
						steps = append(steps, "SAmb 0")
					}
				}
				lines = append(lines, fmt.Sprintf("mkLine %d %s", c.ActorIdx[l.Actor], vh.List(steps)))
			}
			scs = append(scs, fmt.Sprintf("mkScene %s %s", vh.Z(sc.WaitUntilNs), vh.List(lines)))
		}
		acts = append(acts, vh.List(scs))
	}
	return vh.List(acts)
}

func (c *caseOut) index() {
	c.ActorIdx = map[string]int{}
	for i, a := range c.Play.Actors {
		c.ActorIdx[a.Name] = i + 1
	}
	c.ActionIdx = map[string]int{}
	for i, a := range c.Def.Actions {
		c.ActionIdx[a.Name] = i + 1
	}
}

func rdvCode(p *playDef) string {
	switch {
	case p.Rdv:
		return "1"
	case p.DupKeys:
		return "2"
	}
	return "0"
}

func coqLedgerCase(c *caseOut) string {
	o := &c.Obs
	var led, csv, cl []string
	for _, r := range o.Ledger {
		led = append(led, fmt.Sprintf("mkLrow %d %d %d %s %s %s", c.ActorIdx[r.Actor], c.ActionIdx[r.Action], r.N,
			vh.Z(r.Start), vh.Z(r.End), vh.Z(int64(r.Rc))))
	}
	for _, r := range o.Csv {
		csv = append(csv, fmt.Sprintf("mkCrow %d %d %s %s %d", c.ActorIdx[r.Actor], c.ActionIdx[r.Action], vh.Z(r.StartNs), vh.Z(r.DurNs), r.Status))
	}
	for _, r := range o.Cleanups {
		cl = append(cl, fmt.Sprintf("mkClrow %d %d %s %s %s", c.ActorIdx[r.Actor], r.N, vh.Z(r.Start), vh.Z(r.End), vh.Z(int64(r.Rc))))
	}
	var marks []string
	for _, sc := range c.Def.Scenes {
		for _, e := range sc.Entails {
			for _, st := range e.Steps {
				marks = append(marks, fmt.Sprintf("(%d%%N, %s)", c.ActionIdx[st.Action], vh.Bool(st.FailOk)))
			}
		}
	}
	return fmt.Sprintf("mkLcase %s %s %s %d %s %s %s %d %s %s %s %s %s %s %s",
		coqPlay(c, c.Play.Play), coqPlay(c, expectedPlay(c.Def)), vh.List(marks), c.Play.RepeatActNum, vh.Z(int64(c.Play.RepeatCount)), vh.Z(c.Play.RepeatTimeout), vh.Z(c.Play.TempoNs),
		c.Def.SpotKind, rdvCode(c.Def), vh.Z(o.LaunchNs), vh.Z(o.ExitNs), vh.Z(int64(o.Exit)),
		vh.List(cl), vh.List(led), vh.List(csv))
}

var faultKinds = []string{"none", "action-fails", "spotlight-fails", "spotlight-ignores-hup-leader", "spotlight-ignores-hup-child",
	"spotlight-ignores-hup-bgchild", "cleanup-fails-1", "cleanup-fails-2", "audit-foul-S", "expr-error", "expr-error-S",
	"sigint", "sigterm", "action-hangs-sigint", "cleanup-hangs-1", "action-hangs-peer-fails", "action-hangs-sigterm",
	"cleanup-hangs-2", "action-hangs-spotlight-fails", "action-hangs-audit-foul-S", "spotlight-graceful-hup", "audit-foul-S-chatty-long-action",
	"signal-during-action", "signal-during-action-no-spotlights", "spotlight-ignores-hup-leader-signal",
	"signal-during-initial-cleanup", "spotlight-setsid-child-holds-pipe", "action-hangs-two-sigints",
	"commands-read-open-stdin", "mood-only-scenes-foul-S", "repeat-time-ends-the-play", "signal-after-a-long-play"}

func faultIdx(f string) int {
	for i, k := range faultKinds {
		if k == f {
			return i
		}
	}
	panic("unknown fault " + f)
}

func coqFaultCase(c *caseOut) string {
	o := &c.Obs
	// per actor: number of cleanup starts, ends; first action start; last action end ...
	var per []string
	for _, a := range c.Play.Actors {
		var rows []string
		for _, r := range o.Cleanups {
			if r.Actor == a.Name {
				rows = append(rows, fmt.Sprintf("(%d, %s, %s, %s)", r.N, vh.Z(r.Start), vh.Z(r.End), vh.Z(int64(r.Rc))))
			}
		}
		per = append(per, vh.List(rows))
	}
	var acts []string
	for _, r := range o.Ledger {
		acts = append(acts, fmt.Sprintf("(%s, %s)", vh.Z(r.Start), vh.Z(r.End)))
	}
	var spots []string
	for _, a := range c.Play.Actors {
		if t, ok := o.SpotStarts[a.Name]; ok {
			spots = append(spots, vh.Z(t))
		}
	}
	sig := 0
	if c.Def.Sig == int(syscall.SIGINT) {
		sig = 1
	} else if c.Def.Sig == int(syscall.SIGTERM) {
		sig = 2
	}
	mark := int64(-1)
	for _, t := range o.SpotEnds {
		mark = t
	}
	for _, r := range o.Ledger {
		if r.Action == "w0s0" && r.End > 0 {
			mark = r.End
		}
	}
	var totalWait int64
	for _, act := range c.Play.Play {
		var mx int64
		for _, sc := range act {
			if sc.WaitUntilNs > mx {
				mx = sc.WaitUntilNs
			}
		}
		totalWait += mx
	}
	grace := int64(-1)
	for _, t := range o.SpotGrace {
		grace = t
	}
	afterSig := int64(-1)
	if o.SigSentNs > 0 {
		afterSig = (o.ExitNs - o.SigSentNs) / 1e6
	}
	return fmt.Sprintf("mkFcase %d %d %s %s %s %s %s %s %s %s %s %s %s %d",
		faultIdx(c.Def.Fault), sig, vh.Bool(o.Exited), vh.Z(o.WallMs), vh.Z(int64(o.Exit)),
		vh.List(per), vh.List(acts), vh.List(spots), vh.Z(o.SigSentNs), vh.Z(mark), vh.Z(totalWait), vh.Z(grace), vh.Z(afterSig), len(o.Survivors))
}

func main() {
	seed := flag.Int64("seed", 1, "")
	tier := flag.String("tier", "quick", "")
	out := flag.String("out", ".", "")
	prop := flag.String("prop", "c04", "c04 | c05 | c07")
	shk := flag.String("shakespeare", "", "path of the real binary")
	par := flag.Int("par", 12, "plays run in parallel")
	nflag := flag.Int("n", 0, "number of plays (0 = tier default)")
	only := flag.Int("only", -1, "run only the play with this index (replay)")
	flag.Parse()
	if *shk == "" {
		fmt.Fprintln(os.Stderr, "need -shakespeare")
		os.Exit(2)
	}
	salt := map[string]int64{"c04": 4, "c05": 5, "c07": 7}[*prop]
	rng := vh.Rng(*seed*1000 + salt)

	var cases []*caseOut
	switch *prop {
	case "c04", "c05":
		n := 25
		if *tier == "thorough" {
			n = 300
		}
		if *nflag > 0 {
			n = *nflag
		}
		for i := 0; i < n; i++ {
			var p *playDef
			var cfg *cmd.VerifCfg
			switch {
			// the plays every run has, at the end of the list
			case *prop == "c04" && (i == n-1 || i%100 == 99):
				p = genRendezvous(fmt.Sprintf("c04-%d-rendezvous", i))
			case *prop == "c04" && (i == n-2 || i%100 == 98):
				p = genJustBefore(fmt.Sprintf("c04-%d-just-before-the-slot", i))
			case *prop == "c04" && (i == n-3 || i%100 == 97):
				p = genManyActors(fmt.Sprintf("c04-%d-many-actors", i))
			case *prop == "c04" && (i == n-4 || i == n-5 || i%100 == 96 || i%100 == 95):
				p = genFineTempo(fmt.Sprintf("c04-%d-fine-tempo", i), i)
			// ... and spread over it
			case *prop == "c05" && i%8 == 7:
				p = genFanoutFail(rng, fmt.Sprintf("c05-%d-fanout", i), i/8)
			case i%16 == 6:
				p = genOverrun(rng, fmt.Sprintf("%s-%d-overrun", *prop, i), i/16)
			case i%16 == 9:
				p = genDupInGroup(rng, fmt.Sprintf("%s-%d-dup-in-group", *prop, i), i/16)
			case i%16 == 12:
				hard := -1
				if *prop == "c05" {
					hard = (i / 16) % 5
				}
				p = genFailShapes(fmt.Sprintf("%s-%d-fail-shapes", *prop, i), hard)
			case i%16 == 14:
				p = genSilentAct(rng, fmt.Sprintf("%s-%d-silent-act", *prop, i), i/16)
			case i%8 == 3:
				p = genHeadShare(rng, fmt.Sprintf("%s-%d-headshare", *prop, i), i/8)
			}
			if p != nil {
				var errs string
				if cfg, errs = compile(p); cfg == nil {
					panic("configuration rejected: " + errs + "\n" + p.render("/tmp/ledger"))
				}
			} else {
				p, cfg = genLedgerPlay(rng, *prop, i)
			}
			cases = append(cases, &caseOut{Name: p.Name, Prop: *prop, Def: p, Play: cfg})
		}
	case "c07":
		plays := genC07(rng, *tier)
		if *tier == "thorough" {
			// three more rounds of the fast faults with fresh random instants
			for rep := 0; rep < 3; rep++ {
				for _, p := range genC07(rng, *tier) {
					if !strings.Contains(p.Fault, "hangs") && p.Fault != "signal-after-a-long-play" {
						p.Name = fmt.Sprintf("c07-%d-%s-%s", len(plays), p.Fault, p.FaultPos)
						plays = append(plays, p)
					}
				}
			}
		}
		for _, p := range plays {
			if p.RawCfg != "" {
				cases = append(cases, &caseOut{Name: p.Name, Prop: *prop, Def: p, Play: &cmd.VerifCfg{}})
				continue
			}
			cfg, errs := compile(p)
			if cfg == nil {
				panic("c07 configuration rejected: " + errs + "\n" + p.render("/tmp/ledger"))
			}
			cases = append(cases, &caseOut{Name: p.Name, Prop: *prop, Def: p, Play: cfg})
		}
	default:
		panic("unknown -prop")
	}

	if *only >= 0 {
		if *only >= len(cases) {
			panic("no such case")
		}
		cases = cases[*only : *only+1]
	}

	// run, *par at a time; the slow plays (sleep 300 + bound) first so they overlap with the rest
	order := make([]int, len(cases))
	for i := range order {
		order[i] = i
	}
	sort.SliceStable(order, func(a, b int) bool {
		sa := strings.Contains(cases[order[a]].Def.Fault, "hangs") || cases[order[a]].Def.JustBefore
		sb := strings.Contains(cases[order[b]].Def.Fault, "hangs") || cases[order[b]].Def.JustBefore
		return sa && !sb
	})
	var wg sync.WaitGroup
	sem := make(chan struct{}, *par)
	for _, i := range order {
		wg.Add(1)
		sem <- struct{}{}
		go func(i int) {
			defer wg.Done()
			defer func() { <-sem }()
			c := cases[i]
			c.Obs, c.Cfg = runPlay(*shk, c.Def, i)
			for try := 0; c.Def.JustBefore && try < 2 && justBeforeMissed(&c.Obs); try++ {
				c.Obs, c.Cfg = runPlay(*shk, c.Def, i)
			}
			c.index()
		}(i)
	}
	wg.Wait()

	// write
	var items []string
	var sb strings.Builder
	nontriv := map[string]bool{}
	dist := map[string]int{}
	for _, c := range cases {
		if *prop == "c07" {
			items = append(items, coqFaultCase(c))
			dist[c.Def.Fault]++
			nontriv[c.Def.Fault+"/"+c.Def.FaultPos] = true
		} else {
			items = append(items, coqLedgerCase(c))
			nsc := 0
			for _, act := range c.Play.Play {
				for _, sc := range act {
					if len(sc.Lines) > 0 {
						nsc++
					}
				}
			}
			dist[fmt.Sprintf("acts=%d", len(c.Play.Play))]++
			dist[fmt.Sprintf("spot=%d", c.Def.SpotKind)]++
			if c.Play.RepeatActNum > 0 {
				dist["repeat"]++
			}
			if c.Def.RepeatMs > 0 {
				dist["repeat-time"]++
			}
			if c.Obs.Exit != 0 {
				dist["exit-nonzero"]++
			}
			if strings.Contains(strings.Join(c.Def.Story, " "), "+.") || strings.Contains(strings.Join(c.Def.Story, " "), ".+") {
				dist["plays-with-dot-inside-a-group"]++
			}
			if c.Def.JustBefore {
				dist["just-before-the-slot-plays"]++
				dist["just-before-the-slot-predecessors-ended-inside-the-last-1-percent"] += justBeforeHits(&c.Obs)
			}
			if c.Def.Rdv {
				dist[fmt.Sprintf("rendezvous-of-%d-lines", len(c.Def.Actors))]++
			}
			if strings.HasSuffix(c.Name, "fine-tempo") {
				dist["many-columns-at-a-tempo-with-a-sub-millisecond-fraction"]++
			}
			if c.Def.TempoText == "0s" || c.Def.TempoText == "1ns" {
				dist["tempo-"+c.Def.TempoText]++
			}
			for _, a := range c.Def.Actions {
				if strings.Contains(a.Extra, "sleep 100 &") {
					dist["actions-leaving-a-background-process"]++
				}
			}
			if strings.HasSuffix(c.Name, "overrun") {
				dist["overrunning-group-followed-by-two-or-more-columns"]++
			}
			if strings.HasSuffix(c.Name, "dup-in-group") {
				dist["groups-naming-a-scene-twice"]++
			}
			if strings.HasSuffix(c.Name, "silent-act") {
				dist["pause-only-act-before-the-repetition-point"]++
			}
			if strings.HasSuffix(c.Name, "headshare") {
				dist["multi-line-scene-heading-two-groups"]++
			}
			if strings.HasSuffix(c.Name, "many-actors") {
				dist["plays-with-70-acting-actors"]++
			}
			for _, sc := range c.Def.Scenes {
				for _, e := range sc.Entails {
					if len(e.Steps) == 0 {
						dist["clauses-with-an-empty-action-list"]++
					}
				}
			}
			if c.Def.RepeatN > 0 && c.Def.RepeatMs >= 3600000 {
				dist["repeat-count-and-generous-time"]++
			}
			for _, r := range c.Obs.Ledger {
				if r.Rc == 1 {
					dist["rows-of-actions-ending-in-a-failed-and-list-or-negation"]++
				}
			}
			if strings.HasSuffix(c.Name, "fanout") {
				dist["fanout-slowest-line-fails"]++
			}
			for _, r := range c.Obs.Ledger {
				if r.Rc == 137 || r.Rc == 143 {
					dist["rows-of-actions-killed-by-a-signal"]++
				}
			}
			for _, sc := range c.Def.Scenes {
				for _, e := range sc.Entails {
					for k := 1; k < len(e.Steps); k++ {
						if e.Steps[k-1].FailOk && !e.Steps[k].FailOk {
							dist["lines-with-tolerated-then-non-tolerated"]++
						}
					}
				}
			}
			if nsc >= 2 && len(c.Obs.Ledger) >= 2 {
				nontriv[c.Cfg[strings.Index(c.Cfg, "script"):]] = true
			}
		}
	}
	var stops []stopCase
	if *prop == "c07" && *only < 0 {
		stops = runStopCases()
	}
	if *prop == "c07" {
		var sitems []string
		for _, sc := range stops {
			if sc.Res.SetupErr != "" {
				panic("stop case setup: " + sc.Res.SetupErr)
			}
			sitems = append(sitems, fmt.Sprintf("mkScase %d %d %d %d %s %s %s %s", sc.Kind, sc.K, sc.NScenes, sc.NLines,
				vh.Bool(sc.Res.Returned), vh.Bool(sc.Res.Err != ""), vh.Bool(sc.Res.Fired), vh.Z(sc.Res.ElapsedMs)))
		}
		sb.WriteString("Definition stop_cases : list scase := " + vh.ListNL(sitems) + ".\n")
		sb.WriteString("Definition fault_cases : list fcase := " + vh.ListNL(items) + "%Z.\n")
	} else {
		sb.WriteString("Definition ledger_cases : list lcase := " + vh.ListNL(items) + "%Z.\n")
	}
	vh.WriteFile(*out, "cases.v", sb.String())
	type jcase struct {
		Name, Cfg, Fault, FaultPos string
		Flags                      []string
		Sig, SigAtMs, SpotKind     int
		Steps                      [][]cmd.VerifScene
		RepeatActNum, RepeatCount  int
		RepeatTimeoutNs, TempoNs   int64
		Obs                        observation
	}
	var js []jcase
	for _, c := range cases {
		js = append(js, jcase{c.Name, c.Cfg, c.Def.Fault, c.Def.FaultPos, c.Def.Flags, c.Def.Sig, c.Def.SigAtMs, c.Def.SpotKind,
			c.Play.Play, c.Play.RepeatActNum, c.Play.RepeatCount, c.Play.RepeatTimeout, c.Play.TempoNs, c.Obs})
	}
	vh.WriteJSON(*out, "cases.json", js)
	var samples []interface{}
	for i, c := range cases {
		if i < 3 {
			samples = append(samples, map[string]interface{}{"name": c.Name, "script": c.Cfg[strings.Index(c.Cfg, "script"):],
				"exit": c.Obs.Exit, "wall_ms": c.Obs.WallMs, "ledger_rows": len(c.Obs.Ledger)})
		}
	}
	vh.WriteJSON(*out, "summary.json", map[string]interface{}{
		"plays": len(cases), "distribution": dist, "distinct_nontrivial": len(nontriv), "samples": samples, "stop_cases": stops,
	})
}
