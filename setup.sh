#!/bin/sh
# Run once after a fresh restore, offline: builds the Coq library (full .vo
# build) and checks that the property file of every claimed check is built.
set -e
cd "$(dirname "$0")"
python3 - <<'PY'
import json, sys, vlib
ok, out = vlib.coq_make()
man = json.load(open("MANIFEST.json"))
bad = []
for c in man["checks"]:
    pid = c["property_id"]
    if not vlib.vo_up_to_date("theories/Properties/%s.v" % pid):
        bad.append(pid)
if bad:
    print(out[-6000:])
    print("property files not built:", bad)
    sys.exit(1)
print("coq library built" + ("" if ok else " (some files outside the claimed properties did not build)"))
PY
