#!/bin/sh
# Run once after a fresh restore, offline: builds the Coq library (full .vo
# build) and the harness binaries for /repo's current tree.
set -e
cd "$(dirname "$0")"
python3 - <<'PY'
import sys, vlib
ok, out = vlib.coq_make()
if not ok:
    print(out[-6000:]); sys.exit(1)
print("coq library built")
PY
