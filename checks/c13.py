"""C13 — an actor's commands run in that actor's own directory and
environment (DESIGN.md section 6, C13)."""
import concurrent.futures
import json
import os
import re
import shutil
import tempfile

import vlib

PID = "C13"
THEOREMS = [
    "c13_state_at_command", "c13_every_actor_every_script", "c13_multi_actor_complete",
    "c13_extended_role", "c13_home_inside_run_dir", "c13_prefix_ignores_caller", "c13_work_dir_ok",
]
HEADER = ("From Shk Require Import Base.Prelude Model.Dirs Model.Script Corr.C13.\n"
          "From Coq Require Import Strings.String.\n")


def queries(k):
    cs = "cast_cases_%d" % k
    extra = []
    if k == 0:
        # the real plays ride in the first shard
        extra = [
            ("MplayIdx", "map (fun c => exec_model_bad_idx c) play_casts"),
            ("OplayIdx", "map (fun c => exec_oracle_bad_idx c) play_casts"),
        ]
    return extra + [
        ("Mtext", "bad_indices cast_model_bad %s" % cs),
        ("Mexec", "bad_indices exec_model_bad %s" % cs),
        ("Oexec", "bad_indices exec_oracle_bad %s" % cs),
        # which executions of those casts
        ("OexecIdx", "map (fun c => exec_oracle_bad_idx c) (filter exec_oracle_bad %s)" % cs),
        ("MexecIdx", "map (fun c => exec_model_bad_idx c) (filter exec_model_bad %s)" % cs),
    ]


def parse_nested(txt):
    """'X = [[1; 2]; [0]]%N : list (list N)' -> [[1,2],[0]]"""
    if txt is None:
        return None
    s = " ".join(txt.split())
    m = re.search(r"=\s*(.*?)\s*:\s*list", s)
    if not m:
        return None
    body = re.sub(r"%\w+", "", m.group(1))
    if body in ("nil", "[]"):
        return []
    return [[int(x) for x in re.findall(r"\d+", grp)] for grp in re.findall(r"\[([^\[\]]*)\]", body)]


def classify(case, e):
    """A narrow signature of what the command saw wrong (plain meaning)."""
    wd = case["RunDir"] + "/artifacts/" + e["Actor"]
    env = dict((k, v) for k, v in (e["Env"] or []))
    log = wd + "/" + e["Script"] + ".log"
    if e["Ran"] and e["Spotlight"] and not e.get("StreamsOK", True):
        return "spotlight-stream-not-seen-by-signal-filters", "the spotlight's stdout and stderr must both be the play's pipe and a line of each must reach the signal filters: %s" % e.get("Note")
    if not e["Ran"]:
        return "script-or-command-failed", "the script did not run its command to the end (%s)" % e["ExitErr"]
    if e["Cwd"] != wd:
        return "wrong-current-directory", "current directory %r, expected %r" % (e["Cwd"], wd)
    if e["Index"] >= 0 and not any(w["Name"] == "i" for w in e["With"] or []) and env.get("i") != str(e["Index"]):
        return "wrong-actor-index", "i=%r for the actor number %d (from 0) of its definition" % (env.get("i"), e["Index"])
    for w in e["With"] or []:
        if [x for x in e["With"] if x["Name"] == w["Name"]][-1] is not w:
            continue
        if (w["Literal"] and env.get(w["Name"]) != w["Val"]) or w["Name"] not in env:
            return "with-variable-not-exported", "%s=%r in the command's environment, `with` says %s=%s" % (w["Name"], env.get(w["Name"]), w["Name"], w["Val"])
    for v in ("TMPDIR", "HOME"):
        if not any(w["Name"] == v for w in e["With"] or []):
            p = os.path.normpath(env.get(v, "/"))
            if not p.startswith(case["RunDir"] + "/"):
                return "%s-outside-run-directory" % v.lower(), "%s=%r is not inside %r" % (v, env.get(v), case["RunDir"])
    if e["Spotlight"]:
        if (not e["ViaActor"] and (e["Fd1"] != e["CallerOut"] or e["Fd2"] != e["CallerOut"])) or log in (e["Fd1"], e["Fd2"]):
            return "spotlight-output-redirected", "stdout -> %r, stderr -> %r (given: %r)" % (e["Fd1"], e["Fd2"], e["CallerOut"])
    elif e["Fd1"] != log or e["Fd2"] != log:
        return "output-not-in-action-log", "stdout -> %r, stderr -> %r, expected %r" % (e["Fd1"], e["Fd2"], log)
    elif not (e["Fd1Append"] and e["Fd2Append"] and e["LogKept"]):
        return "log-not-appended", "append mode: stdout %s stderr %s; earlier content kept: %s" % (e["Fd1Append"], e["Fd2Append"], e["LogKept"])
    return "other", "the Coq oracle exec_oracle_bad1 rejects this execution (see Corr/C13.v)"


def replay_text(case, e):
    via = (" through %s/actions/%s.sh" % (e["ViaActor"], e["ViaScript"])) if e["ViaActor"] else ""
    return ("write the configuration to f.cfg, run prepareDirs on it (cmd.VerifScriptsFull(cfg, %r, %r) from directory <base>), "
            "then execute artifacts/%s/actions/%s.sh%s with bash from another directory with the listed caller environment; "
            "the command reports pwd / env / readlink /proc/$$/fd/{1,2}" % (case["DataDir"], case["SubDir"], e["Actor"], e["Script"], via))


def run(tier, seed):
    res = vlib.Result(PID, tier, seed, level="proof")
    res.assumptions = [
        "the theorems are about Model/Script.v: a byte-for-byte transcription of prepareScript / the cast parser's role and multi-actor expansion (compared with the real functions on every run) and a mini-shell (cd, assignment with $NAME, set -a, exec >>file 2>&1, two state-preserving commands); bash itself is not modelled, its agreement with the mini-shell on the prepared scripts is observed by executing them",
        "script text is compared as the shell reads it: the file must end with the user's command byte for byte (the model's), and the prologue before it must equal the model's line for line after dropping full-line comments (first non-blank character #, the shebang line excepted) and blank lines on both sides; the REAL file, comments included, is what bash executes in the execution cases",
        "work directories with a single quote, and for actions/cleanups with any shell-special character (the `echo output redirected to` line is unquoted), are outside the claim; so are action names that are not plain shell words",
        "`with` strings: NAME=word lists separated by ' ' or '; ' are covered by the theorems; values with $NAME references only by the executed cases; quoting inside values is outside",
        "a `with` clause that assigns TMPDIR, HOME or i itself overrides the prefix (statements are conditional)",
        "most executions are by the harness the way exec.Command(script) does; the play's own runner (makeShCmd, runActorCommandWithConsumer) is exercised by a few real plays per run only (6 quick, 40 thorough), observed not modelled",
        "quoted with-values ('...' and \"...\" with $NAME inside) are interpreted by the mini-shell and compared with bash on executed cases; the theorems cover unquoted words only",
        "Linux /proc is used to observe where descriptors 1 and 2 point and their O_APPEND flag",
    ]
    ok, detail = vlib.proof_stage(res, "C13", THEOREMS)
    if not ok:
        res.violation(None, "proof obligations of C13 broken: %s" % detail.get("broken"),
                      {"kind": "proof-obligation", "detail": detail}, no_input=True)
        return res.finish()
    try:
        bins = vlib.build_bins(["c13", "shakespeare"])
    except vlib.BuildError as e:
        res.violation(None, "harness does not build against the current tree",
                      {"kind": "correspondence-build", "what": e.what, "output": e.output[-4000:]}, no_input=True)
        return res.finish()
    out = tempfile.mkdtemp(prefix="shk-c13-")
    try:
        rc, o = vlib.run([bins["c13"], "-seed", str(seed), "-tier", tier, "-out", out, "-bin", bins["shakespeare"]], timeout=3000)
        if rc != 0:
            res.violation(None, "harness crashed", {"kind": "harness-crash", "output": o[-4000:]}, no_input=True)
            return res.finish()
        cases_v = open(os.path.join(out, "cases.v")).read()
        cases = json.load(open(os.path.join(out, "cases.json")))
        plays = json.load(open(os.path.join(out, "plays.json"))) or []
        summary = json.load(open(os.path.join(out, "summary.json")))
    finally:
        shutil.rmtree(out, ignore_errors=True)
    shards = [s for s in re.split(r"\(\*SHARD \d+\*\)\n", cases_v) if s.strip()]
    sizes = summary["shard_sizes"]
    starts = [sum(sizes[:k]) for k in range(len(sizes))]

    def ev(k):
        return vlib.eval_cases(PID, "%s_%d" % (tier, k), HEADER, shards[k], queries(k), timeout=3000)

    with concurrent.futures.ThreadPoolExecutor(max_workers=min(len(shards), max(2, vlib.NCPU - 4))) as ex:
        results = list(ex.map(ev, range(len(shards))))
    bad = {"Mtext": [], "Mexec": [], "Oexec": []}
    bad_execs = {"Oexec": {}, "Mexec": {}}
    failed_eval = None
    play_bad = {"O": [], "M": []}
    for k, (rc, cout, q, path) in enumerate(results):
        if k == 0:
            po, pm = parse_nested(q.get("OplayIdx")), parse_nested(q.get("MplayIdx"))
            if po is None or pm is None or len(po) != len(plays) or len(pm) != len(plays):
                failed_eval = cout[-3000:]
                break
            play_bad["O"] = [(pi, ei) for pi, idxs in enumerate(po) for ei in idxs]
            play_bad["M"] = [(pi, ei) for pi, idxs in enumerate(pm) for ei in idxs]
        vals = {n: vlib.parse_nat_list(q.get(n)) for n in ("Mtext", "Mexec", "Oexec")}
        oi, mi = parse_nested(q.get("OexecIdx")), parse_nested(q.get("MexecIdx"))
        if rc != 0 or any(v is None for v in vals.values()) or oi is None or mi is None:
            failed_eval = cout[-3000:]
            break
        for n in bad:
            bad[n] += [starts[k] + i for i in vals[n]]
        for ci, idxs in zip(vals["Oexec"], oi):
            bad_execs["Oexec"][starts[k] + ci] = idxs
        for ci, idxs in zip(vals["Mexec"], mi):
            bad_execs["Mexec"][starts[k] + ci] = idxs
    res.coverage.update({
        "evaluations": summary["casts"] + summary["executions"] + summary["real_play_commands"],
        "distinct_nontrivial": summary["distinct_nontrivial"],
        "rule": "a case is a generated cast (1-3 roles, `extends`, action names incl. ones ending in s / h / sh such as flush, stats, push, pus, hash, ssh, 1-4 cast lines (actor names incl. ones with symbol characters such as c©t, x±y and, in a fifth of the casts, a pair that differs in a symbol only: till€ / till£), single and `name* play N` with N in 1..5 and sometimes 9..12, the count sometimes written with leading zeros (010 = ten, 0012, 09) directly or through a `parameter`, plural role names, `with` clauses of 1-3 assignments incl. ones overriding i/HOME/TMPDIR and ones with $references; 1 in 15 deliberately invalid) written by the real prepareDirs under an absolute / relative / nested / '.' output directory (names with blanks and + , = @ % : and non-ASCII letters), plus up to 7 executions of its scripts by bash from a foreign directory and environment (stale values of i, HOME, TMPDIR and of with-variables planted), up to 3 of them through another actor's script. A quarter of the with-values are quoted (double or single quotes) with runs of blanks and tabs and ` #`, `#` inside (the command must see them byte for byte), some with a $reference between double quotes; one clause in eight ends in $(date +%s), $((26257+i)) or an array (1 2 3), one in forty is the parenthesised form ( a=1 b=2 ) (a subshell: pinned as text): no prediction by the mini-shell for those, but the command must run and see the variables. On top, 6 (thorough 40) configurations are PLAYED by the real CLI (single + multi-actor line, with clauses, every action / spotlight / cleanup command is the probe): the state each command sees under the real runner is compared with the same model and oracle, and a spotlight must have the play's pipe on both descriptors with one stdout line and one stderr line reaching the signal filters (csv rows). distinct_nontrivial counts distinct executions (configuration, run directory, script, path of invocation, caller environment) that are nested, or of an actor with a with-clause, or of a member of a multi-actor line.",
        "samples": summary["samples"],
        "distribution": {k: summary[k] for k in summary if k not in ("samples", "shard_sizes", "distinct_nontrivial")},
        "traces_validated_against_impl": summary["executions"],
        "cases_file": [r[3] for r in results],
    })
    res.notes.append("outside the claim, observed on this run: work directory named it's -> %s ; named a;b -> %s" % (
        summary["outside_the_claim"].get("it's"), summary["outside_the_claim"].get("a;b")))
    if failed_eval is not None:
        res.violation(None, "correspondence cases did not evaluate",
                      {"kind": "cases-eval", "output": failed_eval}, no_input=True)
        return res.finish()
    seen = set()
    for case in cases:
        if case.get("HookErr") and not case["Rejected"]:
            res.violation("prepare-dirs-fails", "prepareDirs fails on a configuration the parser accepts: %s" % case["HookErr"],
                          {"kind": "failing-input", "config": case["Cfg"], "data_dir": case["DataDir"], "sub_dir": case["SubDir"],
                           "error": case["HookErr"], "replay": "cmd.VerifScriptsFull(config, data_dir, sub_dir)"})
            break
    for ci in bad["Oexec"]:
        case = cases[ci]
        for ei in bad_execs["Oexec"].get(ci, [])[:3]:
            e = case["Execs"][ei]
            sig, what = classify(case, e)
            if sig in seen:
                continue
            seen.add(sig)
            res.violation(sig, "%s of actor %s, script %s%s: %s" % (
                "spotlight" if e["Spotlight"] else "command", e["Actor"], e["Script"],
                (" (invoked through %s/%s)" % (e["ViaActor"], e["ViaScript"])) if e["ViaActor"] else "", what),
                {"kind": "failing-input", "config": case["Cfg"], "data_dir": case["DataDir"], "sub_dir": case["SubDir"],
                 "run_dir": case["RunDir"], "execution": e,
                 "script_text": next((a["Scripts"].get(e["Script"]) for a in case["Actors"] if a["Name"] == e["Actor"]), None),
                 "replay": replay_text(case, e)})
    for pi, ei in play_bad["O"]:
        case = plays[pi]
        e = case["Execs"][ei]
        sig, what = classify(case, e)
        if sig in seen:
            continue
        seen.add(sig)
        res.violation(sig, "in a real play, %s of actor %s (%s): %s" % (
            "spotlight" if e["Spotlight"] else "command", e["Actor"], e["Script"], what),
            {"kind": "failing-input", "config": case["Cfg"], "run_dir": case["RunDir"], "execution": e,
             "replay": "write the configuration to play.cfg (its commands are `<harness> -probe <tag>`: any program that dumps pwd, env and readlink /proc/self/fd/{1,2} will do); "
                       "env -i PATH=/usr/bin:/bin SHELL=/bin/bash <the listed caller environment> shakespeare -q -k --disable-plots -o <dir> play.cfg; "
                       "for a spotlight also look at csv/aud.<actor>.so.csv (stdout line) and csv/aud.<actor>.se.csv (stderr line)"})
    if not res.violations and not res.known and play_bad["M"]:
        pi, ei = play_bad["M"][0]
        res.violation(None, "in a real play the mini-shell's prediction differs from what the command saw (property oracle passes): correspondence MplayIdx broken",
                      {"kind": "correspondence", "query": "MplayIdx", "config": plays[pi]["Cfg"], "run_dir": plays[pi]["RunDir"],
                       "execution": plays[pi]["Execs"][ei]}, no_input=True)
    if not res.violations and not res.known:
        if bad["Mexec"]:
            ci = bad["Mexec"][0]
            case = cases[ci]
            ei = (bad_execs["Mexec"].get(ci) or [0])[0]
            res.violation(None, "the mini-shell's prediction differs from what bash did (property oracle passes): correspondence Mexec broken",
                          {"kind": "correspondence", "query": "Mexec", "n_disagreements": len(bad["Mexec"]),
                           "config": case["Cfg"], "run_dir": case["RunDir"], "execution": case["Execs"][ei] if case["Execs"] else None},
                          no_input=True)
        elif bad["Mtext"]:
            case = cases[bad["Mtext"][0]]
            res.violation(None, "the prepared scripts differ from the model's text (or parser and model disagree on accepting the cast); no execution violates the property: correspondence Mtext broken",
                          {"kind": "correspondence", "query": "Mtext", "n_disagreements": len(bad["Mtext"]),
                           "config": case["Cfg"], "run_dir": case["RunDir"], "rejected_by_parser": case["Rejected"],
                           "parse_error": case["ParseErr"], "deliberate_mistake": case["Invalid"], "actors": case["Actors"]},
                          no_input=True)
    res.coverage["disagreements"] = {k: len(v) for k, v in bad.items()}
    return res.finish()
