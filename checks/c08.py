"""C08 — each matching spotlight line yields exactly one correctly valued data point."""
import concurrent.futures
import json
import os
import shutil
import subprocess
import tempfile
import time

import vlib
from checks import audcommon

PID = "C08"
THEOREMS = ["c08_one_point_per_match", "c08_only_watchers_get_rows", "c08_every_watcher_gets_every_point", "c08_value_correct",
            "c08_time_correct", "c08_time_by_group", "c08_unparsable_drops_point_only",
            "c08_other_signals_unaffected", "c08_no_match_no_point", "c08_observers_never_stop_the_play"]

SIG_STARTS = "actor-spotlight-not-run-exactly-once"
# The code under test runs in a NON-UTC local time zone (a ts_log stamp has no
# zone designator and must be read as UTC whatever the machine's zone is): a
# whole-hour offset, a half-hour offset, zones with daylight saving time.
ZONES = ["Asia/Tokyo", "America/St_Johns", "Europe/Berlin", "America/New_York"]


def local_zone(seed):
    z = ZONES[seed % len(ZONES)]
    return z if os.path.exists(os.path.join("/usr/share/zoneinfo", z)) else None


def zone_env(seed):
    z = local_zone(seed)
    return dict(os.environ, TZ=z) if z else dict(os.environ)


def run_harness_tz(res, binpath, tier, seed):
    """audcommon.run_harness with TZ set for the harness process."""
    out = tempfile.mkdtemp(prefix="shk-c08-")
    try:
        rc, o = vlib.run([binpath, "-seed", str(seed), "-tier", tier, "-out", out], timeout=3000, env=zone_env(seed))
        if rc != 0:
            res.violation(None, "harness crashed", {"kind": "harness-crash", "output": o[-4000:]}, no_input=True)
            return None
        return (open(os.path.join(out, "cases.v")).read(), json.load(open(os.path.join(out, "cases.json"))),
                json.load(open(os.path.join(out, "summary.json"))))
    finally:
        shutil.rmtree(out, ignore_errors=True)
# A line printed immediately before the spotlight process exits during the
# shutdown can be lost (cmd.Wait closes the pipe while the drain goroutine is
# still reading): seen on the unchanged tree under load only, i.e. not
# deterministically.  The scenario that shows it (handlers that exit right
# after their last line, 16 plays at a time under a bounded CPU load, run as
# the very last stage) is switched on once KNOWN_FINDINGS.json names this
# signature (it does: fixed by b1ce9d7); in the other plays the handlers
# linger 0.3 s.
SIG_LASTLINE = "line-printed-just-before-spotlight-exit-lost"
BITS = [(1, "changed-sample-recorded-twice"), (2, "row-count-differs-from-matching-lines"),
        (4, "wrong-value-recorded"), (8, "wrong-time-recorded"), (16, "a-line-stopped-the-play")]

ASSUMPTIONS = [
    "Go's regexp is outside the model: per (line, parser) the harness supplies whether rp.re matches and what rp.re.ReplaceAllString captures for the time-stamp and value groups (same calls as detectSignals); patterns describe whole lines",
    "time.Parse (ts_rfc3339, ts_log layouts) is outside the model: the harness supplies the parsed date minus the epoch, or the failure; for the fixed-width shape the ts_log expansion captures, parse_ts_log models it (2-digit year pivot 69, field ranges, leap years) and is compared with time.Parse on every generated stamp",
    "strconv.ParseFloat is modelled by parse_decimal (decimal and hexadecimal floating-point syntax, out-of-range error) and compared with strconv on every captured numeral of every run; underscores between digits are outside the model and not generated; the spellings of infinity / NaN (accepted by ParseFloat without error) are outside the model (its numbers are rationals) and only occur in the real plays, for scalar signals, where the CSV must show +Inf / -Inf / NaN",
    "float64 is modelled by exact rationals / exact nanosecond counts: ordinary generated numbers are eighths, time stamps sixteenths of a second (halves beyond 3e8 s), on which the code's float arithmetic is exact, and these are compared for equality as rationals; rounding is not modelled; int64 overflow of time.Duration is outside the model",
    "edge numerals (1e19, -1e19, 2^63, -(2^63+1), 2^64, 1e300, 1e308, 4.9e-324, 1e-400, a 30-digit integer, -0, hexadecimal floats) are generated for scalar and delta signals: numbers (model vs implementation, CSV value vs the value read from the line) whose magnitude is 2^53 or more are compared within 2^-48 relative, and a difference of at most 2^-1073 (two denormal steps; no two distinct float64 are that close) counts as none - 4.9e-324 is stored as 2^-1074, 1e-400 as 0, 1e300 as the nearest float64",
    "ts_now rows carry the wall clock: the model takes the reception instant from the observed sigEvent; the oracle only requires it inside the [before, after] bracket of the detectSignals call and non-decreasing within a file",
    "the audition is Model/Audit.v (C02's round machine); theorems hold for plays whose audition was not stopped by an auditor's evaluation error (always so for observers only: c08_observers_never_stop_the_play); channel sends never block (large buffers in the hook)",
    "the harness process and the real plays run with TZ set to a non-UTC zone (Asia/Tokyo, America/St_Johns, Europe/Berlin, America/New_York by seed / play): ts_log stamps carry no zone and must come out as (stamp read as UTC) - play start; in the real plays the play start is estimated from the ts_rfc3339 rows when there are any",
    "the first delta of a signal is relative to 0 (sink.lastVal's zero value), as the code does; the property's text leaves it undefined",
    "distinct ns time stamps beyond ~4e6 s can collapse to the same float64 seconds in the code's evs map; the model keys groups by exact ns (no generated case has two such stamps on one line)",
]


def classify(code):
    return [name for bit, name in BITS if code & bit]


def eval_shard(args):
    tag, cases_v, oracle_only = args
    queries = [("OC", "map case_oracle_code cases")]
    if not oracle_only:
        queries = [("MD", "bad_indices detect_model_bad cases"), ("MP", "bad_indices parse_model_bad cases"),
                   ("MR", "bad_indices rows_model_bad cases")] + queries
    # the pid keeps concurrent runs of this check (seed / harmless-change
    # tests run several) from overwriting each other's case files
    tag = "%s_p%d" % (tag, os.getpid())
    rc, cout, q, path = vlib.eval_cases(PID, tag, audcommon.HEADER % "Model.Spotlight Corr.C08", cases_v, queries, timeout=3000)
    base = path[:-2]
    for ext in (".v", ".vo", ".vok", ".vos", ".glob"):
        try:
            os.remove(base + ext)
        except OSError:
            pass
    try:
        os.remove(os.path.join(os.path.dirname(path), "." + os.path.basename(base) + ".aux"))
    except OSError:
        pass
    return rc, cout, {k: vlib.parse_nat_list(v) for k, v in q.items()}, path


def split_cases(cases_v, nshards):
    """cases.v holds `Definition cases : list c08_case := [ a; b; ... ].` with
    one element starting per line with '{| k_cfg'."""
    head, _, body = cases_v.partition(":= [\n")
    if not body:
        return [(0, cases_v)]
    body = body.rsplit("\n]", 1)[0]
    items = body.split(";\n  {| k_cfg")
    items = [items[0].strip()] + ["{| k_cfg" + x for x in items[1:]]
    shards = []
    per = max(1, (len(items) + nshards - 1) // nshards)
    for i in range(0, len(items), per):
        chunk = items[i:i + per]
        shards.append((i, "Definition cases : list c08_case := [\n  " + ";\n  ".join(chunk) + "\n].\n"))
    return shards


def evaluate(res, cases_v, tag, nshards, oracle_only=False):
    shards = split_cases(cases_v, nshards)
    with concurrent.futures.ThreadPoolExecutor(max_workers=max(1, min(len(shards), vlib.NCPU))) as ex:
        results = list(ex.map(eval_shard, [("%s%d" % (tag, i), sv, oracle_only) for i, (off, sv) in enumerate(shards)]))
    out = {"MD": [], "MP": [], "MR": [], "OC": []}
    for (off, _), (rc, cout, vals, path) in zip(shards, results):
        if rc != 0 or any(v is None for v in vals.values()):
            res.violation(None, "correspondence cases did not evaluate (%s, shard at %d)" % (tag, off),
                          {"kind": "cases-eval", "output": cout[-6000:]}, no_input=True)
            return None
        for k in ("MD", "MP", "MR"):
            out[k] += [off + i for i in vals.get(k, [])]
        out["OC"] += vals["OC"]
    return out


def report_oracle(res, OC, cases, describe):
    """One violation per signature, on the smallest failing case."""
    by_sig = {}
    for i, code in enumerate(OC):
        for sig in classify(code):
            size = describe(cases[i])["size"]
            if sig not in by_sig or size < by_sig[sig][0]:
                by_sig[sig] = (size, i, code)
    for sig, (_, i, code) in sorted(by_sig.items()):
        d = describe(cases[i])
        d.pop("size", None)
        d.update({"kind": "failing-input", "oracle_bits": classify(code), "case_index": i,
                  "n_failing_cases": sum(1 for c in OC if sig in classify(c))})
        res.violation(sig, "CSV rows violate the property (%s)" % sig, d)
    return by_sig


def describe_inproc(c):
    r = c["Result"]
    return {"size": len(c["Items"]), "config": c["Cfg"], "items": c["Items"], "csv": r.get("CSV"),
            "expected_points": c["Expected"], "audit_err": r.get("AuditErr"), "panic": r.get("Panic"),
            "replay": "cmd.VerifSpotlightPlay(config, 1577836800e9, items) (hook pkg/cmd/verif_c08.go), compare csv with expected_points"}


def describe_e2e(c):
    return {"size": sum(len(v) for v in c["lines"].values()), "config": c["config"], "lines_per_actor": c["lines"],
            "csv": c["csv"], "expected_points": c["expected"], "exit": c["exit"], "output_tail": c["output_tail"],
            "replay": "write <actor>.txt/<actor>.sh as harness/c08/e2e.go does, run `shakespeare -o out --disable-plots -q play.cfg`, read out/*/csv"}


def lastline_scenario_enabled():
    return any(e.get("property") == PID and e.get("signature") == SIG_LASTLINE
               for e in vlib.load_known().get("findings", []))


class CpuLoad:
    """A bounded CPU load: n busy-loop child processes, gone after max_s
    seconds at the latest and in any case when the block is left."""

    def __init__(self, n, max_s):
        self.n, self.max_s, self.procs, self.timer = n, max_s, [], None

    def stop(self):
        for p in self.procs:
            try:
                p.kill()
            except OSError:
                pass
        for p in self.procs:
            try:
                p.wait(timeout=5)
            except Exception:
                pass
        self.procs = []

    def __enter__(self):
        import threading
        for _ in range(self.n):
            self.procs.append(subprocess.Popen(["sh", "-c", "while :; do :; done"], stdin=subprocess.DEVNULL,
                                               stdout=subprocess.DEVNULL, stderr=subprocess.DEVNULL))
        self.timer = threading.Timer(self.max_s, self.stop)
        self.timer.daemon = True
        self.timer.start()
        return self

    def __exit__(self, *a):
        if self.timer:
            self.timer.cancel()
        self.stop()
        return False


def run_e2e(res, bins, seed, nplays, immediate=False, workers=6, load_s=0, burst=0):
    """Generate nplays plays, run them through the real binary (workers at a
    time; with load_s > 0 under a CPU load of 2 x nproc busy loops lasting at
    most load_s seconds per batch of `workers` plays), evaluate."""
    d = tempfile.mkdtemp(prefix="shk-c08-e2e-")
    try:
        extra = ["-e2e-immediate", "-e2e-small"] if immediate else []
        if burst:
            extra += ["-e2e-burst", str(burst)]
        rc, o = vlib.run([bins["c08"], "-seed", str(seed), "-e2e", d, "-e2e-n", str(nplays)] + extra, timeout=600)
        if rc != 0:
            res.violation(None, "harness crashed (e2e generation)", {"kind": "harness-crash", "output": o[-4000:]}, no_input=True)
            return None
        names = sorted(n for n in os.listdir(d) if n.startswith("play") and os.path.isdir(os.path.join(d, n)))

        def one(name):
            pd = os.path.join(d, name)
            t0 = time.time()
            try:
                p = subprocess.run([bins["shakespeare"], "-o", "out", "--disable-plots", "-q", "play.cfg"], cwd=pd,
                                   stdout=subprocess.PIPE, stderr=subprocess.STDOUT, timeout=180, text=True,
                                   errors="replace", env=dict(zone_env(seed + int(name[4:])), SHELL="/bin/bash"))
                rc, out = p.returncode, p.stdout
            except subprocess.TimeoutExpired as e:
                rc, out = 124, "[timeout]"
            with open(os.path.join(pd, "run.json"), "w") as f:
                json.dump({"WallS": time.time() - t0 + 0.5, "Exit": rc, "Tail": out[-1500:]}, f)
            return rc

        if load_s:
            for i in range(0, len(names), workers):
                with CpuLoad(2 * vlib.NCPU, load_s):
                    with concurrent.futures.ThreadPoolExecutor(max_workers=workers) as ex:
                        list(ex.map(one, names[i:i + workers]))
        else:
            with concurrent.futures.ThreadPoolExecutor(max_workers=workers) as ex:
                list(ex.map(one, names))
        outd = os.path.join(d, "eval")
        rc, o = vlib.run([bins["c08"], "-e2echeck", d, "-out", outd], timeout=600)
        if rc != 0:
            res.violation(None, "harness crashed (e2e evaluation)", {"kind": "harness-crash", "output": o[-4000:]}, no_input=True)
            return None
        return (open(os.path.join(outd, "cases.v")).read(), json.load(open(os.path.join(outd, "cases.json"))),
                json.load(open(os.path.join(outd, "summary.json"))))
    finally:
        shutil.rmtree(d, ignore_errors=True)


BURST = 3000


def burst_scenario(res, bins, tier, seed):
    """A spotlight that prints a burst of BURST short matching lines from its
    SIGHUP handler and exits at once: the lines are still in the pipe when the
    process is gone, and every one must yield its row (the code gives the
    reader one second after Wait to reach the end of the pipe).  No CPU load
    here; the full oracle applies."""
    e = run_e2e(res, bins, seed + 2000, 1 if tier == "quick" else 3, immediate=True, workers=3, burst=BURST)
    if e is None:
        return
    ecases_v, ecases, esummary = e
    ecases = ecases or []
    eev = evaluate(res, ecases_v, tier + "burst", 3, oracle_only=True)
    if eev is None:
        return
    for i, c in enumerate(ecases):       # a burst cut short is a row-count matter
        if c.get("lost_last_lines") and not eev["OC"][i]:
            eev["OC"][i] = 2
        if eev["OC"][i] & 4:             # (the burst file is compared as count + digest)
            eev["OC"][i] = (eev["OC"][i] & ~4) | 2
    report_oracle(res, eev["OC"], ecases, describe_e2e)
    res.coverage["burst_before_exit_plays"] = {
        "plays": esummary["cases"], "stats": esummary["stats"], "oracle_failures": sum(1 for c in eev["OC"] if c),
        "rule": "plays in which one spotlight's SIGHUP handler prints %d short matching lines at once and exits: all of them must be rows of the CSV" % BURST}


def lastline_scenario(res, bins, tier, seed):
    """LAST stage (the CPU load must not disturb anything else): plays whose
    SIGHUP handlers exit right after printing their last line, 16 at a time
    under a bounded CPU load, so that a reader that loses the race against the
    process exit shows.  Only the lost-last-line signature is reported from
    here; the unloaded plays judge everything else."""
    nplays, load_s = (16, 8) if tier == "quick" else (64, 12)
    e = run_e2e(res, bins, seed + 1000, nplays, immediate=True, workers=16, load_s=load_s)
    if e is None:
        return
    _, ecases, esummary = e
    ecases = ecases or []
    lost = [c for c in ecases if c.get("lost_last_lines")]
    res.coverage["last_line_before_exit_plays"] = {
        "plays": esummary["cases"], "stats": esummary["stats"], "plays_with_a_lost_last_line": len(lost),
        "rule": "plays (2-4 actors) whose spotlight SIGHUP handlers print a last line yielding a point and exit at once, 16 plays at a time under 2 x nproc busy-loop processes (bounded, killed afterwards); the point must be in the CSV"}
    if lost:
        c = min(lost, key=lambda c: describe_e2e(c)["size"])
        d = describe_e2e(c)
        d.pop("size", None)
        d.update({"kind": "failing-input", "lost_last_lines_of": c["lost_last_lines"], "n_failing_plays": len(lost),
                  "n_plays": len(ecases), "cpu_load": "2 x nproc busy loops while the plays run"})
        res.violation(SIG_LASTLINE, "the line a spotlight printed immediately before exiting at the end of the play yielded no data point (actors %s, %d of %d plays under CPU load); everything else is as expected" % (c["lost_last_lines"], len(lost), len(ecases)), d)


def run(tier, seed):
    res = vlib.Result(PID, tier, seed, level="proof")
    res.assumptions = ASSUMPTIONS
    ok, detail = vlib.proof_stage(res, "C08", THEOREMS)
    if not ok:
        res.violation(None, "proof obligations of C08 broken: %s" % detail.get("broken"),
                      {"kind": "proof-obligation", "detail": detail}, no_input=True)
        return res.finish()
    names = ["c08", "shakespeare"]
    bins, ok = audcommon.prepare(res, names)
    if not ok:
        return res.finish()
    r = run_harness_tz(res, bins["c08"], tier, seed)
    res.coverage["local_time_zone"] = {"harness": local_zone(seed), "plays": "rotating over %s" % ZONES}
    if local_zone(seed) is None:
        res.notes.append("no zoneinfo for the chosen zone: the code under test ran in UTC")
    if r is None:
        return res.finish()
    cases_v, cases, summary = r
    res.coverage.update({
        "evaluations": summary["cases"], "distinct_nontrivial": summary["distinct_nontrivial"],
        "rule": "generated roles (1-2 roles x 1-4 signals: event/scalar/delta x ts_now/ts_deltasecs/ts_rfc3339/ts_log, expandable empty group or spelled-out \\S+ group, whole-line patterns, value classes \\S+ \\d+ [-+.0-9eE]+ \\w+ rest-of-line, and the everything-is-the-text shape that also matches the empty string; a group name repeated in two alternatives in 1 of 4 value patterns; in 1 of 4 cases a base role with two `extends` siblings adding a same-named signal), 1-3 actors per role (separate `plays` lines or siblings of one `p* play N role` line), 0-3 observers per signal through `watches <actor>` / `watches every <role>` clauses (+ in 1 of 2 an auditor mentioning a signal of any kind in its expressions, auditing throughout or only while a condition on that signal / the mood / t holds, in half of these as the ONLY watcher of the signal), x 4-25 items (lines of all actors interleaved, blank lines, matching 0/1/several signals, repeated and changing values in many numeral syntaxes incl. hexadecimal floats, magnitudes beyond 2^63 up to 1e308, denormals and underflow, malformed numerals and dates, time going forth/back/equal/far future/before the play start, mood changes, end of play), all through the real detectSignals -> checkEvent -> collectObservation via the hook; non-trivial = distinct (config, items) with >= 3 lines and >= 3 expected rows",
        "samples": summary["samples"][:2],
        "distribution": summary["stats"],
        "traces_validated_against_impl": summary["cases"],
    })
    if summary.get("decl_mismatch"):
        res.violation("signal-definition-misparsed", "the configuration parser built a signal parser that differs from the clause (kind / time-stamp group / sink), or rejected a valid configuration",
                      {"kind": "failing-input", "mismatches": summary["decl_mismatch"][:5],
                       "replay": "cmd.VerifSpotlightPlay(config, ...).Parsers"})
    nshards = 8 if tier == "quick" else 16
    ev = evaluate(res, cases_v, tier, nshards)
    if ev is None:
        return res.finish()
    bad_oracle = [c for c in ev["OC"] if c]
    report_oracle(res, ev["OC"], cases, describe_inproc)
    n_model = {"detect": len(ev["MD"]), "parse_decimal_and_ts_log": len(ev["MP"]), "rows": len(ev["MR"])}
    res.coverage["disagreements"] = {"model_vs_impl": n_model, "oracle_failures": len(bad_oracle),
                                     "generator_expectation_vs_go_regexp": len(summary.get("intent_mismatch") or [])}
    if not res.violations and not res.known:
        if summary.get("intent_mismatch"):
            res.violation(None, "the generator's expectation of what a line matches / captures disagrees with Go's regexp or time.Parse on %d (line, signal) pairs while every CSV row is as expected" % len(summary["intent_mismatch"]),
                          {"kind": "correspondence", "examples": summary["intent_mismatch"][:5]}, no_input=True)
        elif any(n_model.values()):
            which = [k for k, v in n_model.items() if v]
            i = (ev["MD"] + ev["MP"] + ev["MR"])[0]
            res.violation(None, "model (Model/Spotlight.v + Model/Audit.v) and implementation disagree (%s) on %s cases of %d while the oracle passes: correspondence broken" % (", ".join(which), n_model, len(cases)),
                          dict(describe_inproc(cases[i]), kind="correspondence", n_disagreements=n_model,
                               sig_events=[o.get("Events") for o in cases[i]["Result"]["Outs"]]), no_input=True)
    if not res.violations:
        # plays through the real binary (the spotlight supervisor, the shell,
        # the pipes): several actors, each printing its own lines
        e = run_e2e(res, bins, seed, 4 if tier == "quick" else 12)
        if e is not None:
            ecases_v, ecases, esummary = e
            ecases = ecases or []
            if not ecases:
                res.violation(None, "none of the real plays could be judged (every play ended before its spotlights had printed their lines)",
                              {"kind": "plays-inconclusive", "stats": esummary.get("stats")}, no_input=True)
            bad_starts = [c for c in ecases if any(n != 1 for n in c.get("spotlight_starts", {}).values())]
            if bad_starts:
                c = min(bad_starts, key=lambda c: describe_e2e(c)["size"])
                d = describe_e2e(c)
                d.pop("size", None)
                d.update({"kind": "failing-input", "spotlight_starts": c["spotlight_starts"], "n_failing_plays": len(bad_starts)})
                res.violation(SIG_STARTS, "an actor's spotlight command was not run exactly once (starts per actor: %s): its lines yield no point / several points" % c["spotlight_starts"], d)
            eev = evaluate(res, ecases_v, tier + "e2e", 4, oracle_only=True)
            if eev is not None:
                # rows doubled because a script ran twice are a row-count
                # matter, not the changed-sample defect
                for i, c in enumerate(ecases):
                    if c in bad_starts and eev["OC"][i] & 1:
                        eev["OC"][i] = (eev["OC"][i] & ~1) | 2
                report_oracle(res, eev["OC"], ecases, describe_e2e)
                res.coverage["end_to_end_plays"] = {"plays": esummary["cases"], "stats": esummary["stats"],
                                                   "oracle_failures": sum(1 for c in eev["OC"] if c),
                                                   "rule": "plays through the real binary with 2-4 actors (of one role and of different roles), each actor's spotlight script printing its own generated lines (stdout/stderr alternating, blanks around lines, blank lines, uneven pace, 10-17 lines beginning with punctuation or shell-trace-like prefixes (`+ `, `++`, `# `, `> `, `$ `, leading tabs) matched by a scalar and an event signal, three lines of 4 KiB / 8 KiB / 64 KiB+ with the values at the end and 5000-character event texts, compared byte for byte via length + SHA-256) and one last line from its SIGHUP handler while the spotlight is being shut down at the end of the play (every second spotlight's output ends without a newline); per (observer, actor, signal) file the rows must be that actor's good lines exactly once, and every script must have been started exactly once"}
                if esummary["stats"].get("inconclusive-play-cut-short"):
                    res.notes.append("%d end-to-end plays ended before a spotlight had printed all its lines (sentinel row missing): not judged" % esummary["stats"]["inconclusive-play-cut-short"])
    if not res.violations:
        burst_scenario(res, bins, tier, seed)
    if not res.violations and lastline_scenario_enabled():
        lastline_scenario(res, bins, tier, seed)
    return res.finish()


def replay(path):
    """./check C08 --replay <file>: run the replay's configuration and items
    through the real code of the current tree again (row counts per file)."""
    bins = vlib.build_bins(["c08"])
    rc, out = vlib.run([bins["c08"], "-replay", path], timeout=300)
    print(out)
    return rc
