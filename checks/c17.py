"""C17 — retry loops respect attempt and back-off bounds and stop when told
(DESIGN.md section 6, C17)."""
import json
import os
import shutil
import tempfile

import vlib

PID = "C17"
THEOREMS = [
    "c17_backoff_is_capped_exponential", "c17_band", "c17_band_rational",
    "c17_lower_edge_nonnegative", "c17_defaults_well_formed",
    "c17_first_immediate", "c17_attempts_counted", "c17_at_most_max_plus_one",
    "c17_attempt_not_early", "c17_attempt_not_before_lower_edge", "c17_armed_delay_in_band",
    "c17_options_fixed", "c17_reset_restores", "c17_reset_then_as_fresh", "c17_reset_when_stopped",
    "c17_no_attempt_after_close_partial", "c17_stops_when_told",
    "c17_close_while_waiting_stops", "c17_closed_select_does_not_park", "c17_false_is_justified",
    "c17_nextch_one_position_ahead", "c17_next_arms_current_position",
    "c17_next_yields_only_through_select", "c17_stopped_prompt_poll_refuses", "c17_stopped_prompt_poll_enabled",
    "c17_deep_position_shortcut_is_nextch", "c17_fast_sample_is_model",
    "c17_with_max_attempts", "c17_with_max_attempts_calls_le_n",
    "c17_with_max_attempts_bad_n", "c17_with_max_attempts_stopped_before",
]
REFUTED = [
    "c17_no_attempt_after_close_refuted", "c17_no_attempt_after_close_refuted_stmt",
    "c17_no_attempt_after_close_refuted_race",
]
HEADER = "From Shk Require Import Base.Prelude Model.Retry Corr.C17.\nOpen Scope Z_scope.\n"
QUERIES = [
    ("Mri", "bad_indices ri_model_bad ri_cases"),
    ("Ori", "map ri_oracle_code ri_cases"),
    ("Mloop", "bad_indices loop_model_bad loop_cases"),
    ("Oloop", "map loop_oracle_code loop_cases"),
    ("Kloop", "bad_indices loop_oracle_known loop_cases"),
    ("Mwma", "bad_indices wma_model_bad wma_cases"),
    ("Owma", "map wma_oracle_code wma_cases"),
]

KNOWN_SIG = "attempt-after-close-following-reset"
RI_SIG = {1: "retry-in-below-band", 2: "retry-in-above-band"}
LOOP_SIG = {
    1: "first-attempt-refused", 2: "more-than-max-retries-plus-one-attempts",
    3: "attempt-before-lower-edge", 4: "refusal-nobody-asked-for",
    5: "call-did-not-return", 6: "nextch-wrong-channel", 7: "malformed-loop-case",
    8: "attempts-after-stop-beyond-select-race",
}
LOOP_TEXT = {
    1: "the first Next()/NextCh() after Start/Reset (closer open, context live) did not yield an attempt",
    2: "more than MaxRetries+1 attempts were yielded between two Resets",
    3: "an attempt was yielded earlier than the lower edge of its back-off band (or: after the closer was closed / the context cancelled, without the wait having elapsed)",
    4: "Next() returned false / NextCh() returned nil although the bound was not reached and nobody closed the closer or cancelled the context",
    5: "a call that had to return at once (closer closed / context cancelled, or first attempt) did not return within the 10 s watchdog",
    6: "NextCh() returned the wrong kind of channel",
    7: "malformed case",
    8: "after the closer was closed / the context cancelled (completely, before the calls) Next() handed out more than 2 further attempts in one loop, not counting the first call after a Reset: more than the select race with an already due timer can explain",
}
WMA_SIG = {
    1: "with-max-attempts-bad-n-not-refused", 2: "with-max-attempts-more-than-n-calls",
    3: "with-max-attempts-nil-iff-success-broken", 4: "with-max-attempts-no-call",
    5: "with-max-attempts-did-not-return",
    6: "with-max-attempts-call-after-stop", 7: "with-max-attempts-call-before-lower-edge",
}


def _codes(txt, n):
    v = vlib.parse_nat_list(txt)
    if v is None or len(v) != n:
        return None
    return v


def run(tier, seed):
    res = vlib.Result(PID, tier, seed, level="proof")
    res.assumptions = [
        "time.Duration is Z (int64 overflow outside the model); Multiplier, RandomizationFactor and the jitter draw are exact rationals: float ROUNDING in retryIn is not modelled, the correspondence tolerates 1 ns (option magnitudes are kept below 2^40 ns so that every float operation errs by far less than 1 ns)",
        "the band theorem is for option sets with InitialBackoff, MaxBackoff >= 0, Multiplier >= 0, 0 <= RandomizationFactor <= 1 (after Start's defaulting)",
        "Go's select (any ready case may be picked; a parked select is completed by the first case that becomes ready), time.After, channel close and context cancellation are modelled as labels, exercised by the correspondence cases, not verified; Retry is used from one goroutine (its contract)",
        "math/rand's global source seeded by the harness before each retryIn is how the jitter draw is known (self-checked at harness start; otherwise draws are 'unknown' and the model is compared through its band)",
        "timing: only lower bounds on elapsed time are judged; the single upper bound is a 10 s watchdog on calls that must return at once",
        "a loop told to stop may still hand out an attempt when the runtime fires an already due timer between time.After and the select (partial theorem): up to 2 such attempts per loop are attributed to that race, a third is reported; the zero/negative back-off loops run under GOMAXPROCS(1), where the race needs a preemption inside a ~100 ns window",
        "WithMaxAttempts: fn is modelled by its success pattern only; errors.Wrap/New return non-nil for non-nil input",
    ]
    ok, detail = vlib.proof_stage(res, "C17", THEOREMS, refuted=REFUTED)
    if not ok:
        res.violation(None, "proof obligations of C17 broken: %s" % detail.get("broken"),
                      {"kind": "proof-obligation", "detail": detail}, no_input=True)
        return res.finish()
    try:
        bins = vlib.build_bins(["c17"])
    except vlib.BuildError as e:
        res.violation(None, "harness does not build against the current tree",
                      {"kind": "correspondence-build", "what": e.what, "output": e.output[-4000:]}, no_input=True)
        return res.finish()
    out = tempfile.mkdtemp(prefix="shk-c17-")
    try:
        rc, o = vlib.run([bins["c17"], "-seed", str(seed), "-tier", tier, "-out", out], timeout=1800)
        if rc != 0:
            res.violation(None, "harness crashed", {"kind": "harness-crash", "output": o[-4000:]}, no_input=True)
            return res.finish()
        cases_v = open(os.path.join(out, "cases.v")).read()
        cases = json.load(open(os.path.join(out, "cases.json")))
        summary = json.load(open(os.path.join(out, "summary.json")))
    finally:
        shutil.rmtree(out, ignore_errors=True)
    rc, cout, q, path = vlib.eval_cases(PID, tier, HEADER, cases_v, QUERIES, timeout=3000)
    n_ri, n_loop, n_wma = summary["ri"], summary["loop"], summary["wma"]
    vals = {
        "Mri": vlib.parse_nat_list(q.get("Mri")), "Ori": _codes(q.get("Ori"), n_ri),
        "Mloop": vlib.parse_nat_list(q.get("Mloop")), "Oloop": _codes(q.get("Oloop"), n_loop),
        "Kloop": vlib.parse_nat_list(q.get("Kloop")),
        "Mwma": vlib.parse_nat_list(q.get("Mwma")), "Owma": _codes(q.get("Owma"), n_wma),
    }
    res.coverage.update({
        "evaluations": summary["ri_samples"] + n_loop + n_wma,
        "distinct_nontrivial": summary["distinct_nontrivial"],
        "rule": "retryIn: %d generated option sets (zero = default fields, caps that bind at once, dyadic and random float multipliers / randomisation factors, magnitudes < 2^40 ns) x 4 schedule positions (reached through NextCh, one after Reset) x ~50 samples, plus gentle multipliers (17/16, 9/8, 33/32, 5/4, 3/2, 1.05, 1.1, 1.01) at positions 62..400 below a far MaxBackoff, two positions in the thousands, and loops started with a context deadline far shorter than their back-offs, each sample with its known jitter draw; non-trivial = position >= 1 or after Reset. loops: fixed corpus (Reset-then-close, close during / before an hour's wait, MaxRetries = 2 with Reset) + random sequences of Next / NextCh / Reset / close / cancel / Next-with-concurrent-stop-at-a-generated-instant on three option classes (ms back-offs; 1 h back-offs; ms then 1 h) + loops whose back-off is zero or negative (Multiplier < 1 decayed below 1 ns; RandomizationFactor 1..5) told to stop and asked 40 more times, run with one P, + loops whose context expires long before the back-off does + unbounded loops of 78..125 Next() calls with multiplier 17/16 or 9/8, each wait timed against its own lower edge; non-trivial = at least one waited attempt or one stop. WithMaxAttempts: n in -1..6, random success patterns (a third of the cases with failing calls that return context.Canceled / DeadlineExceeded, plain or wrapped, NOT from the outer context), closer closed / context cancelled before, inside the k-th call of fn, concurrently, DURING a 420+ ms wait (time.AfterFunc armed by fn), or a context whose deadline falls into such a wait; gaps between calls and calls after the stop timed; non-trivial = n >= 1. Distinct by content." % summary["option_sets"],
        "samples": summary["samples"],
        "distribution": {k: summary[k] for k in ("ri", "ri_samples", "option_sets", "loop", "wma", "loop_classes", "loop_waited_attempts", "loop_stops", "loop_async_stops", "loop_attempts_after_stop", "loop_hangs", "loop_known_shape", "wma_kinds", "draws_known")},
        "traces_validated_against_impl": n_loop + n_wma,
        "cases_file": path,
    })
    if not summary.get("draws_known", False):
        res.notes.append("jitter draws not known on this Go runtime: retryIn compared through the model's band only")
    if rc != 0 or any(v is None for v in vals.values()):
        res.violation(None, "correspondence cases did not evaluate",
                      {"kind": "cases-eval", "output": cout[-4000:]}, no_input=True)
        return res.finish()

    # ---- oracle failures = failing inputs of the property itself
    seen = set()

    def once(sig):
        if sig in seen:
            return False
        seen.add(sig)
        return True

    for idx in vals["Kloop"]:
        if once(KNOWN_SIG):
            c = cases["loop"][idx]
            res.violation(KNOWN_SIG,
                          "Reset()/Start while the closer is open and the context live, then close/cancel, then Next() yields an attempt at once",
                          {"kind": "failing-input", "input": c, "case_index": idx,
                           "expected": "Next() == false once the closer is closed / the context cancelled",
                           "replay": "go: r:=retry.Start(opts{Closer:c}); r.Next(); r.Reset(); close(c); r.Next() // true"})
    for idx, code in enumerate(vals["Ori"]):
        if code and once(RI_SIG.get(code, "retry-in-other")):
            c = cases["ri"][idx]
            res.violation(RI_SIG.get(code, "retry-in-other"),
                          "retryIn() at schedule position %d (after %d NextCh calls%s) returned a delay outside the randomisation band around min(Initial*Multiplier^n, Max)" % (
                              0 if c["Reset"] else c["CurObs"], c["K"], " and Reset" if c["Reset"] else ""),
                          {"kind": "failing-input", "input": c, "case_index": idx, "oracle_code": code})
    for idx, code in enumerate(vals["Oloop"]):
        if code and once(LOOP_SIG.get(code, "loop-other")):
            c = cases["loop"][idx]
            res.violation(LOOP_SIG.get(code, "loop-other"), LOOP_TEXT.get(code, "loop oracle failed"),
                          {"kind": "failing-input", "input": c, "case_index": idx, "oracle_code": code})
    for idx, code in enumerate(vals["Owma"]):
        if code and once(WMA_SIG.get(code, "with-max-attempts-other")):
            c = cases["wma"][idx]
            res.violation(WMA_SIG.get(code, "with-max-attempts-other"),
                          "WithMaxAttempts(n=%d, pattern=%s%s) called fn %d times and returned %s" % (
                              c["N"], c["Pattern"],
                              ", closer closed before" if c["PreClosed"] else (", context cancelled before" if c["PreCancel"] else ""),
                              c["Calls"], "nil" if c["Nil"] else "error %r" % c["Err"]),
                          {"kind": "failing-input", "input": c, "case_index": idx, "oracle_code": code,
                           "expected": "n<=0: error, no call; else 1..n calls (0 only if stopped before, with an error) and nil iff a call succeeded; every further call no earlier than the lower edge of its back-off band (Gaps); no call that starts after the closer was closed / the context cancelled or expired when that stop was complete before the (>= 300 ms) back-off could elapse (Late)"})
    if not res.violations:
        # model/implementation disagreement without a property failure
        for name, key in (("Mri", "ri"), ("Mloop", "loop"), ("Mwma", "wma")):
            if vals[name]:
                c = cases[key][vals[name][0]]
                if key == "ri":
                    c = dict(c)
                    c["Samples"] = c["Samples"][:8]
                res.violation(None, "model and implementation disagree on a %s case (property oracle passes): correspondence %s broken" % (key, name),
                              {"kind": "correspondence", "query": name, "n_disagreements": len(vals[name]),
                               "first_index": vals[name][0], "first": c}, no_input=True)
    res.coverage["disagreements"] = {
        "Mri": len(vals["Mri"]), "Mloop": len(vals["Mloop"]), "Mwma": len(vals["Mwma"]),
        "Ori": sum(1 for x in vals["Ori"] if x), "Oloop": sum(1 for x in vals["Oloop"] if x),
        "Owma": sum(1 for x in vals["Owma"] if x), "Kloop_known_shape": len(vals["Kloop"]),
    }
    return res.finish()
