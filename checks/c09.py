"""C09 — configuration reader robustness and truthful diagnostics
(DESIGN.md section 6, C09)."""
from checks import _c09lib as L
import vlib

PID = "C09"
THEOREMS = [
    "c09_reader_total", "c09_reader_total_monotone", "c09_reader_no_panic", "c09_edit_no_panic",
    "c09_preproc_no_panic", "c09_preproc_terminates_bounded", "c09_defines_no_panic", "c09_shorthand_no_panic", "c09_position_truthful", "c09_clause_at_own_line",
    "c09_invariant_reachable", "c09_include_depth_bounded",
]
QUERIES = [
    ("Mparse", "bad_indices parse_model_bad parse_cases"),
    ("Ocodes", "map parse_oracle_code parse_cases"),
    ("Mread", "bad_indices read_model_bad read_cases"),
    ("Oread", "bad_indices read_oracle_bad read_cases"),
    ("Medit", "bad_indices edit_model_bad edit_cases"),
    ("Oedit", "bad_indices edit_oracle_bad edit_cases"),
    ("Mshort", "bad_indices shorthand_model_bad shorthand_cases"),
    ("Oshort", "bad_indices shorthand_oracle_bad shorthand_cases"),
    ("Knote", "bad_indices parse_kind_note parse_cases"),
    ("Ostdin", "map parse_oracle_code stdin_cases"),
]

CODE_SIG = {
    2: ("parse-timeout", "reading the configuration did not terminate within the watchdog"),
    3: ("diagnostic-position-not-in-input", "the diagnostic names a file/line that does not exist in the input"),
    4: ("include-chain-line-past-include", "an entry of the include chain of the diagnostic is not the line of an include clause of an input file"),
    5: ("diagnostic-quotes-another-line", "the line quoted by the diagnostic is not that line of that file"),
    6: ("fault-reported-at-wrong-position", "a planted fault was not reported at exactly its own file and line with its include chain (position and chain are compared, not the wording)"),
    7: ("fault-not-reported", "an invalid clause / missing include / unterminated continuation was accepted"),
    9: ("valid-configuration-refused", "a configuration known to be valid (include graphs made of titles, comments and resolvable includes nested at most ten deep; valid corpus texts) must be read through, but it is refused"),
    8: ("include-chain-unreadable", "the include chain of the diagnostic is not a list of <file>:<line> entries"),
}


def cli_stage(recs, limit=24):
    """Feed configurations to the real binary on its standard input; it must not
    crash, accept what the hook run accepted, and name the same <stdin> line."""
    import re
    import shutil
    import tempfile
    out = {"ran": 0, "accepted": 0, "rejected_at_same_line": 0, "bad": []}
    if not recs:
        return out
    try:
        exe = vlib.build_bins(["shakespeare"])["shakespeare"]
    except vlib.BuildError:
        return out
    acc = [r for r in recs if r["Obs"]["Kind"] == "accepted"][:limit // 3]
    rej = [r for r in recs if r["Obs"]["Kind"] == "rejected" and r["Obs"].get("HasPos")][:limit - len(acc)]
    d = tempfile.mkdtemp(prefix="shk-c09-cli-")
    env = dict(vlib.GOENV, PATH="/nonexistent")
    try:
        for rec in acc + rej:
            args = [exe, "-n", "-p"] + ["-D" + x for x in (rec["In"].get("Defines") or [])] + ["-"]
            rc, o = vlib.run(args, timeout=30, cwd=d, env=env, input=rec["In"]["Stdin"])
            out["ran"] += 1
            if rc == 124:
                out["bad"].append(("parse-timeout", "`shakespeare -n -p -` does not terminate on this standard input", rec, o))
            elif re.search(r"^(panic:|fatal error:)", o, re.M) or "goroutine 1 [running]" in o:
                out["bad"].append(("stdin-position-panic", "`shakespeare -n -p -` crashes on this standard input: %s" % (re.search(r"^(panic:|fatal error:).*", o, re.M) or [""])[0], rec, o))
            elif rec["Obs"]["Kind"] == "accepted":
                if rc != 0:
                    out["bad"].append(("cli-stdin-differs", "`shakespeare -n -p -` refuses (exit %d) a configuration the same parser accepts through the hook" % rc, rec, o))
                else:
                    out["accepted"] += 1
            else:
                want = "<stdin>:%d:" % rec["Obs"]["Pos"]["Line"] if rec["Obs"]["Pos"]["File"] == "<stdin>" else None
                if rc == 0 or (want and want not in o):
                    out["bad"].append(("cli-stdin-differs", "`shakespeare -n -p -` (exit %d) does not report %s as the hook run does" % (rc, want), rec, o))
                else:
                    out["rejected_at_same_line"] += 1
    finally:
        shutil.rmtree(d, ignore_errors=True)
    return out


def run(tier, seed):
    res = vlib.Result(PID, tier, seed, level="proof")
    res.assumptions = [
        "NOT transcribed, hence carried by the differential fuzzing of this check only: the regexp-dispatched clause parsers (role/cast/script/audience/interpretation lines), checkIdent, validateStoryLine, compileV2 and the third-party expression compiler govaluate; in the Coq model their verdict on a logical line is an arbitrary function (every theorem holds for all of them)",
        "file system model: regular files and directories of a private temporary root (renamed /r/t), its empty parent, no symlinks; os.Open errors other than not-exist are NUL in the name, a file used as a directory, names over 255 / paths over 4095 bytes; generated include names never climb two levels above the root; standard input is empty in the Coq model (`include -`); configurations that arrive on standard input are checked by the oracle and through the real CLI only; `git diff` (maybeRunDiff) is made to fail by an empty PATH",
        "strings.TrimSpace, filepath.Join/Dir/Clean, regexp `\\s`/`\\S`/`\\w`, paramRe and editRe are hand-modelled at byte level and exercised by the correspondence cases, not verified against the Go library",
        "the failed first read of a directory is reported at line 1 of that directory: the one position the theorem and the oracle allow that is not a line of a regular input file",
        "byte strings of the case files are packed into Coq primitive 63-bit integers and unpacked by Corr/C09.v (used for decoding cases only; no theorem depends on it)",
    ]
    ok, detail = vlib.proof_stage(res, "C09", THEOREMS)
    if not ok:
        res.violation(None, "proof obligations of C09 broken: %s" % detail.get("broken"),
                      {"kind": "proof-obligation", "detail": detail}, no_input=True)
        return res.finish()
    shards = 8 if tier == "quick" else 64
    try:
        hok, cases, summary, texts, hout = L.run_harness("c09", tier, seed, shards)
    except vlib.BuildError as e:
        res.violation(None, "harness does not build against the current tree",
                      {"kind": "correspondence-build", "what": e.what, "output": e.output[-4000:]}, no_input=True)
        return res.finish()
    if not hok:
        res.violation(None, "harness crashed", {"kind": "harness-crash", "output": hout[-4000:]}, no_input=True)
        return res.finish()
    eok, vals, bad_out = L.eval_shards(PID, tier, texts, QUERIES)
    res.coverage.update({
        "evaluations": summary["evaluations"],
        "distinct_nontrivial": summary["distinct_nontrivial"],
        "exhaustive": False,
        "rule": "streams: (1) grammar-derived valid configurations covering every clause kind of the manual (see clause_kinds; cast multiplicities 1-12, zero and negative, written out or through a parameter), laid out over files with includes (sibling, sub-directory, -I only, by path), continuations, comments, odd indentation, missing final newline; (2) the same with ONE fault at a position the generator knows (bogus clause, missing include, one undefined parameter, three or more undefined parameters in one clause, unterminated continuation, include of a directory) — oracle = rejected at exactly that file, line and include chain (the message wording is not judged); (3) 1-3 random mutations of (1) (delete/swap/duplicate bytes and lines, truncate, backslash at line end, spliced keywords and odd bytes); (4) arbitrary bytes (all bytes / printable / token soup / newline-backslash-tilde heavy); (5d) parameter values holding ~name~ tokens — themselves, cycles of 2-3, undefined names, chains — from -D and from defaults, used in a later title / attention / with / expression / include / repeat time / author; (5e) storylines, edit results and repeat-from patterns holding multi-byte runes whose low byte or whose UTF-8 bytes equal defined scene letters (also single-byte Latin-1 scene shorthands); one in three include graphs and one in four planted faults with a percent sign in file and directory names (percent-s, percent-d, 100-percent, percent-20) of main, included and -I paths; (5f) the real standard-input path: the configuration is `-` or a file says `include -`, with the text on the child's stdin — valid configurations and one planted fault each, judged by the position / quoted-line / no-crash oracle (the Coq model takes stdin as empty, so these cases are not compared with it); (5b) cast multiplicities from a list of boundary values (most negative int64 .. 40, signs, non-numbers; bounded above), direct / default / -D; (5) include graphs, refused ones judged by position and chain, readable ones (titles, comments, resolvable includes nested at most ten deep — 10/12/25 sequential includes, combs, names starting with `/`) required to be read through (chains to depth 12, diamonds, self/mutual/3-cycles, directories, missing files, -I only, shadowing, `..`) with the reference reading order computed by an independent recursive expander; (6) the reader alone, every logical line with position and include chain compared exactly; (5c) the space characters on which the regexp classes and strings.TrimSpace disagree (U+000B, 0085, 00A0, 1680, 2000-200A, 2028, 2029, 202F, 205F, 3000) written instead of / before / after / twice / as separator of ONE token of a valid configuration, every scene shorthand x every character exhaustively; (7) the `edit` splitter on structured and random commands; (8) `scene TOKEN mood starts red` for all 256 single bytes and those runes, compared with the model of validateShorthand (exhaustive); corpus of past failures first. Every experiment runs in a CHILD process (the harness re-executed with -child, gob over pipes) under a %ds watchdog, a 1 GiB heap limit (and an address-space cap) and recover(): a case that kills the process (stack overflow, os.Exit) or hangs is attributed to itself, the child is replaced; rendering the diagnostic (RenderError and Error()) is part of every case. distinct_nontrivial = distinct (file set, -D list) with at least 8 bytes of input, counted by content." % 10,
        "samples": summary["samples"],
        "distribution": {k: summary[k] for k in ("counts", "outcomes", "by_stream", "error_classes", "faults", "graph_shapes",
                                                  "clause_kinds", "grammar_texts_accepted", "grammar_texts_total",
                                                  "max_include_depth_reached", "skipped_escaping_root")},
        "traces_validated_against_impl": summary["evaluations"],
        "not_transcribed": "clause parsers behind the regexp dispatch and govaluate: robustness rests on streams 1-5 (differential fuzzing) only",
    })
    res.coverage["trusted_base"] = res.coverage.get("trusted_base", []) + [
        "Coq primitive 63-bit integers (Uint63) for decoding case files",
        "panic classification by the function names on the recovered stack (runtime/debug.Stack in the hook)"]
    if not eok:
        res.violation(None, "correspondence cases did not evaluate",
                      {"kind": "cases-eval", "output": bad_out}, no_input=True)
        return res.finish()
    off = summary["offsets"]
    codes = L.global_codes(vals["Ocodes"])
    scodes = L.global_codes(vals["Ostdin"])
    seen = set()
    for rec, code in list(zip(cases["parse"], codes)) + list(zip(cases.get("stdin") or [], scodes)):
        if code == 0:
            continue
        inp, obs = rec["In"], rec["Obs"]
        if code == 1:
            sig = L.panic_signature(obs, inp)
            if obs.get("Kind") == "fatal":
                what = "reading this configuration kills the whole process (not recoverable): %s" % obs.get("Panic")
            else:
                what = "reading this configuration crashes: panic %r at %s" % (obs.get("Panic"), obs.get("PanicAt"))
        else:
            sig, what = CODE_SIG.get(code, ("oracle-%d" % code, "the observation violates the property"))
            what = "%s: observed %s" % (what, L.describe_obs(obs))
            if inp.get("HasExpect"):
                what += "; the generator planted a %s fault at %s:%d chain %s" % (
                    L.CLS.get(inp.get("ExpectCls")), inp["ExpectPos"]["File"], inp["ExpectPos"]["Line"], inp.get("ExpectChain"))
        if inp.get("UseStdin"):
            what += " [standard input holds part of the configuration: %s]" % ("the configuration is `-`" if inp["Main"] == "-" else "a file says `include -`")
            if sig in ("include-directory-panic", "wraperr-panic"):
                sig = "stdin-position-panic"
        if sig in seen:
            continue
        seen.add(sig)
        res.violation(sig, what, {"kind": "failing-input", "input": L.short_input(inp), "observed": obs,
                                  "expected": {k: inp.get(k) for k in ("HasExpect", "ExpectPos", "ExpectChain", "ExpectCls")},
                                  "replay": "write Files under a fresh directory D and run: shakespeare -n -p %s D/%s   (or cmd.VerifC09Parse(Files, Dirs, Main, Defines, IP) with -tags verif)" %
                                            (" ".join("-D'%s'" % d for d in (inp.get("Defines") or [])), inp["Main"])})
    for idx in L.global_indices(vals["Oread"], off["read"]):
        rec = cases["read"][idx]
        sig = "reader-" + ("runaway" if rec["End"] == "runaway" else L.panic_signature(rec["Err"], rec["In"]))
        if rec["Err"].get("Kind") == "fatal":
            sig = "parser-fatal-error"
        if sig in seen:
            continue
        seen.add(sig)
        res.violation(sig, "the reader alone %s on this file set: %s" % (rec["End"], rec["Err"].get("Panic")),
                      {"kind": "failing-input", "input": L.short_input(rec["In"]), "observed": rec["Err"],
                       "replay": "cmd.VerifC09ReadAll(Files, Dirs, Main, Defines, IP, 200000)"})
    for idx in L.global_indices(vals["Oedit"], off["edit"]):
        rec = cases["edit"][idx]
        esig = "parser-fatal-error" if (rec.get("Pan") or "").startswith("fatal") else ("parse-timeout" if rec.get("Pan") == "did not terminate" else "edit-malformed-panic")
        if esig in seen:
            continue
        seen.add(esig)
        res.violation(esig, "the script clause %r crashes the parser: %s" % (rec["Line"], rec["Pan"]),
                      {"kind": "failing-input", "input": rec, "replay": "script / %s / end" % rec["Line"]})
    for idx in L.global_indices(vals["Oshort"], off["shorthand"]):
        rec = cases["shorthand"][idx]
        ssig = "parser-fatal-error" if (rec.get("Pan") or "").startswith("fatal") else ("parse-timeout" if rec.get("Pan") == "did not terminate" else "scene-shorthand-panic")
        if ssig in seen:
            continue
        seen.add(ssig)
        res.violation(ssig, "the script clause %r (shorthand bytes %s) crashes the parser: %s" % (rec["Line"], rec["Cmd"].encode("utf-8", "surrogateescape").hex(), rec["Pan"]),
                      {"kind": "failing-input", "input": rec, "replay": "script / %s / end" % rec["Line"]})
    # the same standard-input cases through the real command line (`shakespeare -n -p -`)
    cli = cli_stage([r for r in (cases.get("stdin") or []) if r["In"]["Main"] == "-" and not r["In"]["Files"]])
    res.coverage["cli_stdin"] = {k: cli[k] for k in ("ran", "accepted", "rejected_at_same_line")}
    for sig, what, rec, out in cli["bad"]:
        if sig in seen:
            continue
        seen.add(sig)
        res.violation(sig, what, {"kind": "failing-input", "input": L.short_input(rec["In"]), "observed_by_hook": rec["Obs"], "cli_output": out[:3000],
                                  "replay": "shakespeare -n -p - < (the Stdin text)"})
    dis = {"Mparse": L.global_indices(vals["Mparse"], off["parse"]), "Mread": L.global_indices(vals["Mread"], off["read"]),
           "Medit": L.global_indices(vals["Medit"], off["edit"]), "Mshort": L.global_indices(vals["Mshort"], off["shorthand"])}
    notes = L.global_indices(vals["Knote"], off["parse"])
    res.coverage["message_class_notes"] = {
        "count": len(notes),
        "meaning": "rejections whose position and include chain equal the model's but whose message TEXT is not in the class the model's error kind usually has (a reworded diagnostic does this); recorded, never a violation",
        "examples": [L.describe_obs(cases["parse"][i]["Obs"]) + " :: " + cases["parse"][i]["Obs"].get("ErrShort", "")[:120] for i in notes[:3]]}
    if not res.violations and not res.known:
        for name, key in (("Mparse", "parse"), ("Mread", "read"), ("Medit", "edit"), ("Mshort", "shorthand")):
            if dis[name]:
                rec = cases[key][dis[name][0]]
                res.violation(None, "model and implementation disagree on a %s case (property oracle passes): correspondence %s broken" % (key, name),
                              {"kind": "correspondence", "query": name, "n_disagreements": len(dis[name]), "first": rec},
                              no_input=True)
    res.coverage["disagreements"] = {"model_vs_impl": {k: len(v) for k, v in dis.items()},
                                     "oracle_failures": sum(1 for c in codes + scodes if c != 0) + sum(len(x or []) for x in vals["Oread"]) + sum(len(x or []) for x in vals["Oedit"]) + sum(len(x or []) for x in vals["Oshort"])}
    res.coverage["disagreements_checked"] = len(codes) + len(scodes) + summary["counts"]["read"] + summary["counts"]["edit"] + summary["counts"].get("shorthand", 0)
    return res.finish()


def replay(path):
    return L.replay("c09", PID, path, QUERIES[:2])
