"""Shared by checks/c09.py and checks/c20.py: run the c09 harness (one binary,
-prop c09|c20), evaluate its sharded case files in parallel, map shard-local
indices back to positions in cases.json."""
import concurrent.futures
import json
import os
import re
import shutil
import tempfile

import vlib

HEADER = ("From Shk Require Import Base.Prelude Model.ParseSmall Model.Reader Corr.C09 Corr.C20.\n"
          "From Coq Require Import Uint63.\n")


def parse_codes(txt):
    """'Q = [0; 3; 0]%N : list N' -> [0, 3, 0]"""
    return vlib.parse_nat_list(txt)


def run_harness(prop, tier, seed, shards):
    """Returns (ok, cases, summary, [cases_k.v texts], harness output)."""
    bins = vlib.build_bins(["c09"])
    out = tempfile.mkdtemp(prefix="shk-%s-" % prop)
    try:
        cmd = [bins["c09"], "-prop", prop, "-seed", str(seed), "-tier", tier, "-out", out,
               "-shards", str(shards), "-corpus", os.path.join(vlib.CORPUS, prop.upper())]
        rc, o = vlib.run(cmd, timeout=3000)
        if rc != 0:
            return False, None, None, None, o
        cases = json.load(open(os.path.join(out, "cases.json")))
        summary = json.load(open(os.path.join(out, "summary.json")))
        texts = [open(os.path.join(out, "cases_%d.v" % k)).read() for k in range(shards)]
        return True, cases, summary, texts, o
    finally:
        shutil.rmtree(out, ignore_errors=True)


def eval_shards(pid, tier, texts, queries, timeout=3000):
    """Compile every shard (own coqc process each, in parallel).  Returns
    (ok, {query: [per-shard parsed list]}, first failing output)."""
    def one(k):
        rc, cout, q, path = vlib.eval_cases(pid, "%s_%d" % (tier, k), HEADER, texts[k], queries, timeout=timeout)
        return k, rc, cout, q
    res = {name: [None] * len(texts) for name, _ in queries}
    bad_out = None
    with concurrent.futures.ThreadPoolExecutor(max_workers=min(len(texts), max(2, vlib.NCPU))) as ex:
        for k, rc, cout, q in ex.map(one, range(len(texts))):
            for name, _ in queries:
                v = vlib.parse_nat_list(q.get(name))
                res[name][k] = v
                if (rc != 0 or v is None) and bad_out is None:
                    bad_out = "shard %d: rc=%d\n%s" % (k, rc, cout[-3000:])
    return bad_out is None, res, bad_out


def global_indices(per_shard, offsets):
    """shard-local index lists -> global indices"""
    out = []
    for k, lst in enumerate(per_shard):
        for i in lst or []:
            out.append(offsets[k] + i)
    return out


def global_codes(per_shard):
    """per-shard lists of one code per case -> one list over all cases"""
    out = []
    for lst in per_shard:
        out.extend(lst or [])
    return out


def short_input(inp, limit=700):
    """a replayable, readable rendering of one harness input"""
    return {"Files": inp["Files"], "Dirs": inp.get("Dirs"), "Main": inp["Main"], "Defines": inp.get("Defines"),
            "UseStdin": inp.get("UseStdin", False), "Stdin": inp.get("Stdin", ""),
            "IP": inp.get("IP"), "Stream": inp.get("Stream"), "Fault": inp.get("Fault")}


def panic_signature(obs, inp):
    """Narrow signature of a crash, from the functions on the stack."""
    if obs.get("Kind") == "fatal" or (obs.get("Panic") or "").startswith("fatal"):
        return "parser-fatal-error"     # the whole process died (stack overflow, os.Exit, ...): not recoverable
    at = obs.get("PanicAt") or ""
    text = "\n".join(inp["Files"].values())
    if "wrapErr" in at:
        return "include-directory-panic" if "readLine" in at else "wraperr-panic"
    if "parseScript" in at and "govaluate" not in at:
        return "edit-malformed-panic" if re.search(r"(^|\n)\s*edit\s", text) else "script-clause-panic"
    if "govaluate" in at:
        # a backslash ends some logical line (directly, or after trailing blanks), or a -D value
        if re.search(r"\\[ \t]*($|\n)", text) or any(d.rstrip().endswith("\\") for d in (inp.get("Defines") or [])):
            return "expr-trailing-backslash-panic"
        return "expr-compiler-panic"
    if "compileV2" in at:
        return "compile-panic"
    for fr in at.split(" < "):
        if "/pkg/cmd." in fr and "Verif" not in fr:
            return "panic-in-" + fr.rsplit(".", 1)[-1]
    return "panic-in-unknown"


CLS = {1: "read-error", 2: "eof-in-continuation", 3: "include-depth", 4: "undefined-parameter", 5: "include-not-found",
       6: "open-error", 7: "clause-rejected", 20: "main-not-found", 21: "main-open-error", 30: "compile-error",
       31: "rejected-without-position", 32: "defines-error"}


def describe_obs(o):
    if o["Kind"] != "rejected":
        return o["Kind"] + ((": " + o.get("Panic", "")) if o["Kind"] in ("panicked", "fatal") else "")
    s = "rejected (message reads as: %s)" % CLS.get(o["Cls"], o["Cls"])
    if o.get("HasPos"):
        s += " at %s:%d" % (o["Pos"]["File"], o["Pos"]["Line"])
        if o.get("Chain"):
            s += " included from " + ", ".join("%s:%d" % (c["File"], c["Line"]) for c in o["Chain"])
    return s


def replay(prop, pid, path, queries):
    """./check Cxx --replay <file>: run the input of a replay file (alone)
    through the real parser and the oracle again; exit 1 if it still fails."""
    r = json.load(open(path))
    inp = r.get("input")
    if not isinstance(inp, dict) or "Files" not in inp:
        print("replay file holds no parser input (kind=%s): nothing to run" % r.get("kind"))
        return 2
    exp = r.get("expected") or {}
    for k in ("HasExpect", "ExpectPos", "ExpectChain", "ExpectCls"):
        if exp.get(k) is not None:
            inp[k] = exp[k]
    d = tempfile.mkdtemp(prefix="shk-replay-")
    out = tempfile.mkdtemp(prefix="shk-replay-out-")
    try:
        with open(os.path.join(d, "00-replay.json"), "w") as f:
            json.dump(inp, f)
        bins = vlib.build_bins(["c09"])
        rc, o = vlib.run([bins["c09"], "-prop", prop, "-only-corpus", "-corpus", d, "-out", out, "-shards", "1"], timeout=600)
        if rc != 0:
            print("harness failed:\n" + o[-2000:])
            return 2
        cases = json.load(open(os.path.join(out, "cases.json")))
        text = open(os.path.join(out, "cases_0.v")).read()
    finally:
        shutil.rmtree(d, ignore_errors=True)
        shutil.rmtree(out, ignore_errors=True)
    rc, cout, q, _ = vlib.eval_cases(pid, "replay", HEADER, text, queries, timeout=600)
    obs = cases["parse"][0]["Obs"]
    codes = vlib.parse_nat_list(q.get("Ocodes")) or [None]
    model = vlib.parse_nat_list(q.get("Mparse"))
    print("observed: %s" % describe_obs(obs))
    if obs["Kind"] == "panicked":
        print("panic: %s at %s" % (obs.get("Panic"), obs.get("PanicAt")))
    print("oracle code: %s (0 = satisfies the property); model disagrees: %s" % (codes[0], bool(model)))
    return 1 if codes[0] else 0
