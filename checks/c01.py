"""C01 — audit modalities judge a period by their plain meaning."""
import json
import os
import shutil
import tempfile

import vlib

PID = "C01"
THEOREMS = ["c01_registry_correct", "c01_monitor_meaning", "c01_eventually_always_reading",
            "c01_observations_are_the_predicate_values"]
MODS = ["always", "never", "not always", "eventually", "always eventually",
        "eventually always", "once", "twice", "thrice", "at most once"]
MOD_CTORS = ["Always", "Never", "NotAlways", "Eventually", "AlwaysEventually",
             "EventuallyAlways", "Once", "Twice", "Thrice", "AtMostOnce"]

OBL = """(* Per-run obligation for C01 over the tables translated from pred_fsm.go. *)
From Shk Require Import Base.Prelude Model.Fsm Model.Meaning Proofs.Monitors Proofs.FsmProofs Properties.C01.
From ShkGen Require Import FsmTables.
From Coq Require Import String.

Theorem c01_tables_pass : check_registered registered 64 = true.
Proof. vm_compute. reflexivity. Qed.

Theorem c01_modalities_judge_by_meaning :
  (forall m, exists tbl, lookup registered (name_of m) = Some tbl /\\
     forall tr, exists vs,
       run_period tbl tr = Some vs /\\
       disappointed vs = negb (meaning m tr) /\\
       (disappointed vs = false -> ends_satisfied vs = true))
  /\\ (forall n tbl, lookup registered n = Some tbl -> exists m, n = name_of m).
Proof. exact (c01_registry_correct registered 64 c01_tables_pass). Qed.
Goal True. idtac "@@BEGIN A". Abort.
Print Assumptions c01_modalities_judge_by_meaning.
Goal True. idtac "@@END A". Abort.
"""

HEADER_GEN = ("From Shk Require Import Base.Prelude Model.Fsm Model.Meaning Proofs.FsmProofs Corr.C01.\n"
              "From ShkGen Require Import FsmTables.\nFrom Coq Require Import String.\nOpen Scope string_scope.\n")
HEADER_NOGEN = ("From Shk Require Import Base.Prelude Model.Fsm Model.Meaning Corr.C01.\n"
                "From Coq Require Import String.\nOpen Scope string_scope.\n")


NOTES = {}


def translate(bins):
    """Regenerate coq/gen/FsmTables.v from the current tree: the tables are
    dumped from the automata registry of a binary built from it (fsmdump, via
    the hook VerifAutomataTables).  The source-level translator gofsm2v (go/ast
    over pred_fsm.go) is run as a cross-check: when it can render the file its
    tables must be the ones the binary uses; when it cannot (the initialiser
    was restructured) that is recorded, not alarmed on, because the theorems
    are then still checked against the tables the code really uses.
    Returns (ok, message); NOTES holds the cross-check outcome."""
    NOTES.clear()
    rc, out = vlib.run([bins["fsmdump"]], timeout=60)
    if rc != 0:
        return False, "fsmdump failed: " + out
    rc_c, canon_rt = vlib.run([bins["fsmdump"], "-canon"], timeout=60)
    rc_a, canon_src = vlib.run([bins["gofsm2v"], "-canon", os.path.join(vlib.REPO, "pkg/cmd/pred_fsm.go")], timeout=60)
    if rc_a != 0:
        NOTES["source_translator"] = "gofsm2v could not render pred_fsm.go (%s); tables taken from the running code only" % " ".join(canon_src.split())[:300]
    elif rc_c == 0 and sorted(canon_rt.strip().split("\n")) != sorted(canon_src.strip().split("\n")):
        NOTES["source_translator"] = "the composite literals of pred_fsm.go differ from the registry at run time; the run-time tables are the ones checked"
    else:
        NOTES["source_translator"] = "gofsm2v (go/ast over pred_fsm.go) renders the same tables as the run-time registry"
    with vlib.flock("gen-c01"):
        vlib.write_if_changed(os.path.join(vlib.gen_dir(), "FsmTables.v"), out)
        rc, cout = vlib.coqc(os.path.join(vlib.gen_dir(), "FsmTables.v"), timeout=300)
        if rc != 0:
            return False, cout
    return True, out


def obligations():
    with vlib.flock("gen-c01"):
        vlib.write_if_changed(os.path.join(vlib.gen_dir(), "Obl_C01.v"), OBL)
        rc, out = vlib.coqc(os.path.join(vlib.gen_dir(), "Obl_C01.v"), timeout=600)
    closed = "Closed under the global context" in out
    return rc == 0 and closed, out


def counterexamples():
    """Shortest distinguishing trace per modality (Coq, vm_compute)."""
    qs = []
    for i, c in enumerate(MOD_CTORS):
        qs.append(("CE%d" % i,
                   "match lookup registered (name_of %s) with Some tbl => "
                   "match table_counterexample tbl %s 4000 with Some w => map (fun b : bool => if b then 1%%N else 0%%N) w | None => [2%%N] end "
                   "| None => [3%%N] end" % (c, c)))
    rc, out, q, _ = vlib.eval_cases(PID, "ce", HEADER_GEN, "", qs, timeout=600)
    extras, notes = [], {}
    for i, name in enumerate(MODS):
        v = vlib.parse_nat_list(q.get("CE%d" % i))
        if v is None:
            continue
        if v == [2]:
            continue
        if v == [3]:
            notes[name] = "not registered"
            extras.append({"Name": name, "Trace": []})
            continue
        notes[name] = "table differs from monitor on %s" % v
        extras.append({"Name": name, "Trace": [bool(x) for x in v]})
    return extras, notes


def run(tier, seed):
    res = vlib.Result(PID, tier, seed, level="proof")
    res.assumptions = [
        "translator fsmdump (hook VerifAutomataTables: the automata map of the binary built from the current tree, sorted by key) is trusted to render the tables faithfully; gofsm2v (go/ast over pred_fsm.go; refuses unknown constructs) cross-checks them against the source literals when it can; the correspondence cases re-check tables + reporting glue against the real code",
        "processFsmStateChange's classification by state NAME and the reset edge are hand-modelled (Model/Fsm.v step_report) and tied by the hook-driven cases",
        "'eventually always' is read as false^i true^(j+1) (it becomes true and then stays true)",
    ]
    ok, detail = vlib.proof_stage(res, "C01", THEOREMS)
    if not ok:
        res.violation(None, "proof obligations of C01 (library part) broken: %s" % detail.get("broken"),
                      {"kind": "proof-obligation", "detail": detail}, no_input=True)
        return res.finish()
    try:
        bins = vlib.build_bins(["c01", "gofsm2v", "fsmdump"])
    except vlib.BuildError as e:
        res.violation(None, "harness does not build against the current tree",
                      {"kind": "correspondence-build", "what": e.what, "output": e.output[-4000:]}, no_input=True)
        return res.finish()

    broken = []           # obligations that no longer check
    t_ok, t_out = translate(bins)
    obl_ok, extras, ce_notes = False, [], {}
    if not t_ok:
        broken.append("the automata registry cannot be rendered (fsmdump / coqc of FsmTables.v): " + t_out.strip()[-500:])
    else:
        obl_ok, o_out = obligations()
        if not obl_ok:
            broken.append("coq/gen/Obl_C01.v: check_registered registered 64 = true no longer holds (theorem c01_modalities_judge_by_meaning)")
            extras, ce_notes = counterexamples()
    res.coverage["obligations"] += 2
    res.coverage["discharged"] += 2 if obl_ok else 0
    res.coverage["theorems"] += ["c01_tables_pass (per run, reflective, over translated tables)",
                                 "c01_modalities_judge_by_meaning (per run)"]
    res.coverage["trusted_base"].append("translator harness/fsmdump (automata registry of the binary built from the current tree -> coq/gen/FsmTables.v); cross-check harness/gofsm2v (go/ast over pred_fsm.go)")
    res.coverage["translator_cross_check"] = NOTES.get("source_translator")

    out = tempfile.mkdtemp(prefix="shk-c01-")
    try:
        cmd = [bins["c01"], "-seed", str(seed), "-tier", tier, "-out", out]
        if extras:
            with open(os.path.join(out, "extra.json"), "w") as f:
                json.dump(extras, f)
            cmd += ["-extra", os.path.join(out, "extra.json")]
        rc, o = vlib.run(cmd, timeout=1800)
        if rc != 0:
            res.violation(None, "harness crashed", {"kind": "harness-crash", "output": o[-4000:]}, no_input=True)
            return res.finish()
        cases_v = open(os.path.join(out, "cases.v")).read()
        cases = json.load(open(os.path.join(out, "cases.json")))
        summary = json.load(open(os.path.join(out, "summary.json")))
    finally:
        shutil.rmtree(out, ignore_errors=True)

    queries = [("Operiod", "bad_indices period_oracle_bad period_cases"),
               ("Oaud", "bad_indices period_oracle_bad audition_period_cases"),
               ("Onames", "if names_bad accepted_names then [0%N] else []"),
               ("Op3", "bad_indices period3_oracle_bad period3_cases")]
    if t_ok:
        queries += [("Mperiod", "bad_indices (period_model_bad registered) period_cases"),
                    ("Maud", "bad_indices (period_model_bad registered) audition_period_cases"),
                    ("Mraw", "bad_indices (raw_model_bad registered) raw_cases"),
                    ("Mp3", "bad_indices (period3_model_bad registered) period3_cases")]
    # period_cases can hold tens of thousands of elements (thorough): Coq's parser overflows its
    # stack on such a list, so it is evaluated in shards (the other definitions go with shard 0)
    header = HEADER_GEN if t_ok else HEADER_NOGEN
    sp = vlib.split_list_def(cases_v, "period_cases")
    if sp is None or len(sp[1]) <= 12000:
        rc, cout, q, path = vlib.eval_cases(PID, tier, header, cases_v, queries, timeout=3000)
        vals = {k: vlib.parse_nat_list(v) for k, v in q.items()}
    else:
        head, items, tail = sp
        rest = cases_v.replace(vlib.join_list_def(head, items, tail), "")
        per = 10000
        shards = [(off, items[off:off + per]) for off in range(0, len(items), per)]
        pq = [x for x in queries if x[0] in ("Operiod", "Mperiod")]
        oq = [x for x in queries if x[0] not in ("Operiod", "Mperiod")]

        def ev(arg):
            i, (off, its) = arg
            text = vlib.join_list_def(head, its, tail) + (rest if i == 0 else "")
            r, co, qq, pth = vlib.eval_cases(PID, "%s%d" % (tier, i), header, text, pq + (oq if i == 0 else []), timeout=3000)
            return r, co, {k: vlib.parse_nat_list(v) for k, v in qq.items()}, pth, off

        import concurrent.futures
        with concurrent.futures.ThreadPoolExecutor(max_workers=min(len(shards), vlib.NCPU)) as ex:
            results = list(ex.map(ev, enumerate(shards)))
        vals = {k: [] for k, _ in queries}
        rc, cout, path = 0, "", results[0][3]
        for r_rc, r_out, r_vals, _, off in results:
            if r_rc != 0 or any(v is None for v in r_vals.values()):
                rc, cout = (r_rc or 1), r_out
                vals = {k: None for k in vals}
                break
            for k, v in r_vals.items():
                vals[k] += [off + x for x in v] if k in ("Operiod", "Mperiod") else v
    res.coverage.update({
        "evaluations": summary["period"] + summary["raw"] + summary["audition_period"],
        "distinct_nontrivial": summary["distinct_nontrivial"],
        "exhaustive": False,
        "rule": "per accepted (and per documented) modality: ALL observation sequences of length 0..%d followed by end (exhaustive for that bound only), random ones of length up to %d with several densities, and raw label sequences over {t,f,end,reset,unknown}; all through the real parseAuditWhen/startOfAuditPeriod/processFsmStateChange; plus, through the WHOLE audition (checkEvent/checkEventForAuditor/checkExpect/checkActivationPeriodEnd), plays of three activation periods each covering all traces up to length %d and random longer ones per modality, predicate over signals only or also t, last period closed by a mood change or by the end of the play. non-trivial = distinct (modality, trace) with at least 2 observations" % (summary["max_exhaustive_len"], summary["max_exhaustive_len"] + 200, summary["audition_max_exhaustive_len"]),
        "samples": summary["samples"],
        "distribution": {"period_cases": summary["period"], "raw_cases": summary["raw"], "audition_period_cases": summary["audition_period"],
                         "periods_with_disappointment": summary["periods_with_disappointment"],
                         "accepted_names": summary["accepted"]},
        "traces_validated_against_impl": summary["period"] + summary["raw"],
        "translated_tables_file": os.path.join(vlib.gen_dir(), "FsmTables.v"),
    })
    if rc != 0 or any(v is None for v in vals.values()):
        res.violation(None, "correspondence cases did not evaluate",
                      {"kind": "cases-eval", "output": cout[-4000:]}, no_input=True)
        return res.finish()
    seen = set()
    for idx in vals["Operiod"]:
        c = cases["period"][idx]
        sig = "modality-%s-misjudges" % c["Name"].replace(" ", "-")
        if sig in seen:
            continue
        seen.add(sig)
        res.violation(sig, "modality %r misjudges the observation sequence %s: reports %s%s" %
                      (c["Name"], "".join("t" if b else "f" for b in c["Trace"]) or "<empty>", c["Codes"],
                       (" panic: " + c["Panic"]) if c["Panic"] else ""),
                      {"kind": "failing-input", "input": c, "ce_notes": ce_notes,
                       "replay": "VerifFsmRun(%r, trace + [end])" % c["Name"]})
    for idx in vals["Oaud"]:
        c = cases["audition_period"][idx]
        sig = "modality-%s-misjudges-in-audition" % c["Name"].replace(" ", "-")
        if sig in seen:
            continue
        seen.add(sig)
        res.violation(sig, "through the audition (one of several activation periods of a play), modality %r misjudges the observation sequence %s: reports %s%s" %
                      (c["Name"], "".join("t" if b else "f" for b in c["Trace"]) or "<empty>", c["Codes"],
                       (" -- " + c["Panic"]) if c["Panic"] else ""),
                      {"kind": "failing-input", "input": c,
                       "replay": "cmd.VerifAudition: `al audits only while mood == 'red'`, `al expects %s: [x s] > 3`; per period: mood red, samples 5 (true) / 1 (false), mood clear" % c["Name"]})
    for c in cases.get("slow_collector", []):
        if c["Problem"] or c["Fast"] != c["Slow"]:
            res.violation("reports-lost-when-the-collector-is-slow",
                          "two `%s` auditors, three samples: against a collector that takes 160 ms per event behind a channel of capacity 1 the reports received are %s, against a fast one %s%s" %
                          (c["Name"], c["Slow"], c["Fast"], (" -- " + c["Problem"]) if c["Problem"] else ""),
                          {"kind": "failing-input", "input": c, "replay": "cmd.VerifSlowCollector(config, events, 1, 160ms) vs cmd.VerifAuditLoop(config, events, false)"})
            break
    res.coverage["slow_collector_plays"] = len(cases.get("slow_collector", []))
    for idx in vals["Op3"][:1]:
        c = cases["period3"][idx]
        res.violation("rounds-where-the-predicate-does-not-evaluate-are-judged",
                      "modality %r over the rounds %s (t/f = the predicate's value, e = it does not evaluate): reports %s%s; a round in which the predicate does not evaluate is reported as an error and is not an observation" %
                      (c["Name"], "".join("fte"[b] for b in c["Trace"]), c["Codes"], (" -- " + c["Panic"]) if c["Panic"] else ""),
                      {"kind": "failing-input", "input": c, "replay": "cmd.VerifAuditLoop: `al audits throughout`, `al expects %s: [x s] > 3`; samples 5 (t) / 1 (f) / the string oops (e)" % c["Name"]})
    if vals["Onames"]:
        res.violation("modality-names", "the set of modality names accepted by `expects` is not the documented ten: %s" % cases["accepted"],
                      {"kind": "failing-input", "accepted": cases["accepted"]})
    if not res.violations and not res.known:
        for b in broken:
            res.violation(None, b, {"kind": "proof-obligation", "obligation": b, "ce_notes": ce_notes}, no_input=True)
        for name, key in (("Mperiod", "period"), ("Mraw", "raw"), ("Maud", "audition_period"), ("Mp3", "period3")):
            if vals.get(name):
                c = cases[key][vals[name][0]]
                res.violation(None, "model and implementation disagree on a %s case (property oracle passes): correspondence %s broken" % (key, name),
                              {"kind": "correspondence", "query": name, "n_disagreements": len(vals[name]), "first": c},
                              no_input=True)
    res.coverage["disagreements"] = {k: len(v) for k, v in vals.items()}
    res.coverage["broken_obligations"] = broken
    return res.finish()
