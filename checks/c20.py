"""C20 — parameters and includes (DESIGN.md section 6, C20)."""
from checks import _c09lib as L
from checks.c09 import CODE_SIG
import vlib

PID = "C20"
THEOREMS = [
    "c20_preproc_exact", "c20_preproc_single_pass_bounded", "c20_undefined_named", "c20_text_without_tilde_untouched", "c20_define_precedence",
    "c20_parameter_clause", "c20_title_attention_substituted", "c20_author_untouched",
    "c20_include_is_splice", "c20_stack_machine_is_recursive_inclusion", "c20_include_search_order",
    "c20_include_not_found", "c20_include_followed_below_ten", "c20_include_depth_refused",
    "c20_include_depth_bounded",
]
QUERIES = [
    ("Mparse", "bad_indices parse_model_bad parse_cases"),
    ("Ocodes", "map parse_oracle_code parse_cases"),
    ("Oplanted", "bad_indices planted_oracle_bad planted_cases"),
    ("Mpp", "bad_indices pp_model_bad pp_cases"),
    ("Opp", "bad_indices pp_oracle_bad pp_cases"),
    ("Mgraph", "bad_indices graph_model_bad graph_cases"),
    ("Ograph", "bad_indices graph_oracle_bad graph_cases"),
]


def planted_signature(rec):
    c, o = rec["Case"], rec["Obs"]
    slot, mode = c["Slot"], c["Mode"]
    if o["Kind"] in ("panicked", "timedout"):
        return "planted-parameter-crash", "crashes / hangs"
    if c["Subst"]:
        if mode == "N":
            return ("undefined-parameter-not-reported:" + slot,
                    "~p~ is undefined in the %s field written %r (a documented substituted place) but the outcome is %s instead of an 'undefined parameter: ~p~' error at that line" % (slot, c.get("Text"), L.describe_obs(o)))
        if c.get("Value"):
            return ("parameter-value-not-like-written-out:" + slot,
                    "~p~ in the %s field with p = %r (%s) does not read like the same configuration with %r written there: %s vs %s" % (
                        slot, c["Value"], "-D" if mode == "D" else "in-file default", c["Value"], L.describe_obs(o), L.describe_obs(rec["RefObs"])))
        if mode in ("B", "FF", "DD"):
            return ("define-precedence:" + {"B": "-D-over-default", "FF": "first-default", "DD": "first-D"}[mode],
                    "with definitions %s / %s the %s field does not read as if the winning value %r were written there: %s" % (
                        c["In"].get("Defines"), [l for l in c["In"]["Files"]["m.cfg"].split("\n") if l.startswith("parameter p ")], slot, c["Winner"], L.describe_obs(o)))
        return ("parameter-not-substituted:" + slot,
                "~p~ in the %s field written %r (a documented substituted place) is not replaced by the value %r: %s" % (slot, c.get("Text"), c["Winner"], L.describe_obs(o)))
    return ("parameter-substituted-in-untouched-field:" + slot,
            "~p~ in the %s field (documented as left untouched) does not behave as with p undefined: %s vs %s" % (
                slot, L.describe_obs(o), L.describe_obs(rec["RefObs"])))


def _expected_titles(files, main, iargs):
    """The documented search: next to the including file, then the -I
    directories in order, the current directory last unless -I names it."""
    import os
    ip = list(iargs)
    if "." not in ip:
        ip.append(".")

    def join(d, name):
        return os.path.normpath(d + "/" + name)
    start = None
    for d in ip:
        if join(d, main) in files:
            start = join(d, main)
            break
    if start is None:
        return None
    out = []

    def rec(f, depth):
        for line in files[f].split("\n"):
            line = line.strip()
            if line.startswith("title "):
                out.append(line[6:].strip())
            elif line.startswith("include "):
                if depth >= 10:
                    return False
                name = line[8:]
                for d in [os.path.dirname(f) or "."] + ip:
                    c = join(d, name)
                    if c in files:
                        if not rec(c, depth + 1):
                            return False
                        break
                else:
                    return False
        return True
    return out if rec(start, 1) else None


def cli_include_stage():
    """Include search order through the real command line (initArgs adds the
    current directory to the -I list): cwd differs from the main file's
    directory, the name exists in several places with different titles."""
    import os
    import shutil
    import tempfile
    res = {"ran": 0, "agree": 0, "bad": []}
    try:
        exe = vlib.build_bins(["shakespeare"])["shakespeare"]
    except vlib.BuildError:
        return res
    base = {"conf/m.cfg": "title m.0\ninclude x.cfg\ninclude y.cfg\ninclude /z.cfg\ntitle m.4\n",
            "lib/x.cfg": "title libx\n", "x.cfg": "title cwdx\n", "lib2/x.cfg": "title lib2x\n",
            "y.cfg": "title cwdy\n", "lib/z.cfg": "title libz\n", "z.cfg": "title cwdz\n"}
    trees = [("no-sibling", base),
             ("sibling", dict(base, **{"conf/x.cfg": "title confx\n"})),
             ("nested", dict(base, **{"conf/m.cfg": "include sub/a.cfg\n", "conf/sub/a.cfg": "title a.0\ninclude x.cfg\ninclude z.cfg\n"})),
             ("only-lib2", {"conf/m.cfg": "include x.cfg\n", "lib2/x.cfg": "title lib2x\n"}),
             # conf/lib.cfg is a symbolic link to ../shared/lib.cfg: what it includes is looked for next to
             # the file AS NAMED (conf/), not next to the link's target
             ("symlink", {"conf/m.cfg": "title m.0\ninclude lib.cfg\n", "shared/lib.cfg": "title lib.0\ninclude part.cfg\ninclude only.cfg\n",
                          "conf/lib.cfg": ("->", "../shared/lib.cfg"), "conf/part.cfg": "title confpart\n", "shared/part.cfg": "title sharedpart\n",
                          "conf/only.cfg": "title confonly\n"})]
    argsets = [["lib"], ["lib", "."], [".", "lib"], [], ["lib2", "lib"], ["lib", "lib2"], ["lib2"]]
    env = dict(vlib.GOENV, PATH="/nonexistent")
    for tname, files in trees:
        d = tempfile.mkdtemp(prefix="shk-c20-cli-")
        try:
            for n, t in files.items():
                os.makedirs(os.path.dirname(os.path.join(d, n)) or d, exist_ok=True)
                if isinstance(t, tuple):
                    os.symlink(t[1], os.path.join(d, n))
                else:
                    with open(os.path.join(d, n), "w") as f:
                        f.write(t)
            # a link reads as its target's text under its own name
            files = {n: (files[os.path.normpath(os.path.join(os.path.dirname(n), t[1]))] if isinstance(t, tuple) else t) for n, t in files.items()}
            for ia in argsets:
                args = [exe, "-n", "-p"] + [x for i in ia for x in ("-I", i)] + ["conf/m.cfg"]
                rc, o = vlib.run(args, timeout=30, cwd=d, env=env, input="")
                res["ran"] += 1
                got = [l[6:].strip() for l in o.split("\n") if l.startswith("title ")]
                exp = _expected_titles(files, "conf/m.cfg", ia)
                ok = (exp is None and rc != 0) or (exp is not None and rc == 0 and got == exp)
                if "panic:" in o or "fatal error:" in o:
                    ok = False
                if ok:
                    res["agree"] += 1
                else:
                    res["bad"].append({"tree": tname, "files": files, "args": args[1:], "cwd": "the root of the tree", "expected_titles": exp,
                                       "observed_titles": got, "exit": rc, "output": o[:1500]})
        finally:
            shutil.rmtree(d, ignore_errors=True)
    return res


def run(tier, seed):
    res = vlib.Result(PID, tier, seed, level="proof")
    res.assumptions = [
        "WHICH field of the regexp-dispatched clause parsers passes through preprocReplace is not transcribed; the documented substituted / untouched lists are checked on the real parser by planting ~p~ in each of %d fields under 7 definition modes (both directions: expands where the manual says, and a DEFINED parameter changes nothing where it does not) (metamorphic oracle: a substituted field reads exactly as if the winning value were written there; an untouched field behaves exactly as with p undefined)" % 46,
        "the Coq model covers preprocReplace, parseDefines, the `parameter` clause, title/attention/author, and include (search, depth, splice) — see Properties/C20.v",
        "file system model and byte-level models of TrimSpace / filepath / regexp classes as for C09 (modelled, exercised by the correspondence cases, not verified against the Go library)",
        "`~` is a legal identifier character, so an unsubstituted ~p~ in a name field is accepted; the generator knows",
        "a substituted value that itself holds ~name~ is not expanded again (single pass) — what a later re-load of the printed configuration does with it is C10's business",
    ]
    ok, detail = vlib.proof_stage(res, "C20", THEOREMS)
    if not ok:
        res.violation(None, "proof obligations of C20 broken: %s" % detail.get("broken"),
                      {"kind": "proof-obligation", "detail": detail}, no_input=True)
        return res.finish()
    shards = 8 if tier == "quick" else 48
    try:
        hok, cases, summary, texts, hout = L.run_harness("c20", tier, seed, shards)
    except vlib.BuildError as e:
        res.violation(None, "harness does not build against the current tree",
                      {"kind": "correspondence-build", "what": e.what, "output": e.output[-4000:]}, no_input=True)
        return res.finish()
    if not hok:
        res.violation(None, "harness crashed", {"kind": "harness-crash", "output": hout[-4000:]}, no_input=True)
        return res.finish()
    eok, vals, bad_out = L.eval_shards(PID, tier, texts, QUERIES)
    res.coverage.update({
        "evaluations": summary["evaluations"],
        "distinct_nontrivial": summary["distinct_nontrivial"],
        "exhaustive": False,
        "rule": "(1) EXHAUSTIVE over the template's 46 fields (15 the manual lists as substituted, 31 it does not: actor names after `watches` / `entails for` / in cast lines, member, signal, variable, action, mood names, collection mode, `expects like` target, commands, patterns, labels ...) x 7 definition modes {-D, default, both, undefined, two defaults, two -D, another parameter whose value is ~p~}: ~p~ planted in one field of a complete valid configuration (title, attention, author, parameter name/value, role name, extends, action name/command, spotlight, cleanup, signal name/pattern, cast role, multiplicity, with-environment, actor name, tempo, every-role of scene and watch, scene action, mood, storyline, edit and repeat-from regexps, repeat count and time, member / signal / variable names, label, the four expression kinds, modality, interpretation target, include name), each run twice (planted, reference); plus, for the four expression fields, 9-13 texts with the reference glued to its neighbours (after <= >= == != ( + -, before ) *, two references back to back) under -D / default / undefined; plus, for the 15 substituted fields, 2-8 further VALUES of p each (keywords of the field such as `unconstrained` / `always`, boundary numbers, other spellings) under -D and under a default, compared with the same text with the value written out; (2) random -D lists x `parameter` clauses x strings through the real parseDefines / parseCfg / preprocReplace, names and values containing ~, ~p~, =, empty; one quarter through a `title` clause of the whole parser; (4) the include search through the real command line: 5 directory trees (one with a symbolically linked included file) x 7 -I lists, run from a directory that is not the main file's; (3) include graphs (names starting with `/` — appended to every search directory like any other name, decoy at the absolute path —; sequences in which a file of another directory has included something before a later clause elsewhere names a file that exists only there / also in a later -I directory — the search path is per clause; 10/12/25 sequential includes at one level, combs of depth 3-4 with 4 includes per level, a percent sign in file and directory names, chains to depth 12, diamonds, self/mutual/3-cycles, directories, missing, -I only, sibling shadowing, -I order, sibling of the includer not of the main file, `..`, names through parameters) files with and without a final newline (last line a clause, `end`, an include), with the reading order predicted by an independent recursive expander AND compared with the same text with every included file written in place of its clause (include = splice); corpus first. distinct_nontrivial = distinct file sets of at least 8 bytes + preprocessing cases.",
        "samples": summary["samples"],
        "distribution": {k: summary[k] for k in ("counts", "outcomes", "by_stream", "error_classes", "faults", "graph_shapes", "clause_kinds",
                                                  "max_include_depth_reached", "skipped_escaping_root")},
        "traces_validated_against_impl": summary["evaluations"],
    })
    res.coverage["trusted_base"] = res.coverage.get("trusted_base", []) + [
        "Coq primitive 63-bit integers (Uint63) for decoding case files",
        "the harness' reference expander refExpand (recursive inclusion, sibling first then -I in order, depth 10) and its string comparison of printed configurations"]
    if not eok:
        res.violation(None, "correspondence cases did not evaluate",
                      {"kind": "cases-eval", "output": bad_out}, no_input=True)
        return res.finish()
    off = summary["offsets"]
    seen = set()

    def report(sig, what, replay):
        if sig in seen:
            return
        seen.add(sig)
        res.violation(sig, what, replay)

    for idx in L.global_indices(vals["Oplanted"], off["planted"]):
        rec = cases["planted"][idx]
        sig, what = planted_signature(rec)
        report(sig, what, {"kind": "failing-input", "input": L.short_input(rec["Case"]["In"]), "observed": rec["Obs"],
                           "reference_input": L.short_input(rec["Case"]["Ref"]), "reference_observed": rec["RefObs"],
                           "replay": "shakespeare -n -p with the -D list on m.cfg, and on the reference"})
    for idx in L.global_indices(vals["Opp"], off["pp"]):
        rec = cases["pp"][idx]
        report(("parser-fatal-error" if rec["Panic"].startswith("fatal") else "preprocessing-crash-or-hang") if rec.get("Panic") else "preprocessing-result-wrong", "parseDefines / parameter / preprocReplace: definitions %s + %s give %s and %s -> %s / undefined %s" % (
            rec["Case"]["Defines"], rec["Case"]["Params"], rec["PVars"], rec["Case"]["Strs"], rec["Outs"], rec["Errs"]),
            {"kind": "failing-input", "input": rec, "replay": "cmd.VerifC20Preproc(Defines, parameter clauses, Strs)"})
    for idx in L.global_indices(vals["Ograph"], off["graph"]):
        rec = cases["graph"][idx]
        shape = rec["In"].get("Fault", "")
        sig = "include-semantics:" + shape.split("+")[0].rstrip("0123456789").rstrip("-")
        if not rec.get("SpliceSame", True) and not rec["Ref"]["Err"]:
            sig = "include-is-not-splice"
        report(sig,
               "include graph %s: reference %s, observed %s titles %s" % (
                   shape, ("error class %s at %s chain %s" % (L.CLS.get(rec["Ref"]["Cls"]), rec["Ref"]["Pos"], rec["Ref"]["Chain"])) if rec["Ref"]["Err"] else ("titles %s" % rec["Ref"]["Titles"]),
                   L.describe_obs(rec["Obs"]), rec["Obs"].get("Titles")),
               {"kind": "failing-input", "input": L.short_input(rec["In"]), "observed": rec["Obs"], "reference": rec["Ref"],
                "inlined_text": (rec.get("Spliced") or {}).get("Files"), "inlined_observed": rec.get("SplicedObs"),
                "replay": "shakespeare -n -p -I<IP...> Main in a directory holding Files"})
    codes = L.global_codes(vals["Ocodes"])
    for idx, code in enumerate(codes):
        if code == 0:
            continue
        rec = cases["parse"][idx]
        inp, obs = rec["In"], rec["Obs"]
        if inp.get("Stream") in ("planted", "graph"):
            # already reported above with a better signature, unless nothing was
            if seen:
                continue
        if code == 1:
            sig, what = L.panic_signature(obs, inp), "crashes: panic %r at %s" % (obs.get("Panic"), obs.get("PanicAt"))
        else:
            sig, what = CODE_SIG.get(code, ("oracle-%d" % code, "violates the property"))
            what = "%s: observed %s" % (what, L.describe_obs(obs))
        report(sig, what, {"kind": "failing-input", "input": L.short_input(inp), "observed": obs,
                           "expected": {k: inp.get(k) for k in ("HasExpect", "ExpectPos", "ExpectChain", "ExpectCls")}})
    cli = cli_include_stage()
    res.coverage["cli_include_search"] = {"ran": cli["ran"], "agree": cli["agree"],
                                          "what": "5 directory trees (one with a symbolically linked included file) x 7 -I lists through `shakespeare -n -p -I ... conf/m.cfg` run from the tree's root (so the implicit current directory added by initArgs matters): titles read must be those of sibling first, then -I in order, then the current directory"}
    for b in cli["bad"][:1]:
        report("cli-include-search-order", "through the command line (%s, run from the root of the %s tree) the titles read are %s (exit %d) where the documented search order gives %s" % (
            " ".join(b["args"]), b["tree"], b["observed_titles"], b["exit"], b["expected_titles"]),
            {"kind": "failing-input", "input": b, "replay": "create the files, cd to their root, run shakespeare with the args"})
    dis = {"Mparse": L.global_indices(vals["Mparse"], off["parse"]), "Mpp": L.global_indices(vals["Mpp"], off["pp"]),
           "Mgraph": L.global_indices(vals["Mgraph"], off["graph"])}
    if not res.violations and not res.known:
        for name, key in (("Mparse", "parse"), ("Mpp", "pp"), ("Mgraph", "graph")):
            if dis[name]:
                rec = cases[key][dis[name][0]]
                res.violation(None, "model and implementation disagree on a %s case (property oracle passes): correspondence %s broken" % (key, name),
                              {"kind": "correspondence", "query": name, "n_disagreements": len(dis[name]), "first": rec},
                              no_input=True)
    res.coverage["disagreements"] = {"model_vs_impl": {k: len(v) for k, v in dis.items()},
                                     "oracle_failures": sum(1 for c in codes if c != 0) + sum(len(x or []) for n in ("Oplanted", "Opp", "Ograph") for x in vals[n])}
    res.coverage["disagreements_checked"] = summary["evaluations"]
    return res.finish()


def replay(path):
    return L.replay("c20", PID, path, QUERIES[:2])
