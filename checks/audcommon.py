"""Shared by the audition checks (C02, C03, C08, C11): translated FSM tables
for the cases header, harness run, evaluation."""
import json
import os
import shutil
import tempfile

import vlib
from checks import c01

HEADER = ("From Shk Require Import Base.Prelude Model.Value Model.Functions Model.Expr Model.Fsm Model.Audit Corr.C02 %s.\n"
          "From ShkGen Require Import FsmTables.\n"
          "Open Scope list_scope.\nOpen Scope string_scope.\nOpen Scope Q_scope.\n"
          "Definition dummy_tbl : fsm_table := {| f_name := \"\"; f_start := 0; f_states := []; f_labels := []; f_edges := [] |}.\n"
          "Definition T (n : string) : fsm_table := match lookup registered n with Some t => t | None => dummy_tbl end.\n")


def prepare(res, harness_names):
    """Build harness binaries and translate the FSM tables.  Returns
    (bins, ok)."""
    try:
        bins = vlib.build_bins(list(harness_names) + ["gofsm2v", "fsmdump"])
    except vlib.BuildError as e:
        res.violation(None, "harness does not build against the current tree",
                      {"kind": "correspondence-build", "what": e.what, "output": e.output[-4000:]}, no_input=True)
        return None, False
    t_ok, t_out = c01.translate(bins)
    if not t_ok:
        res.violation(None, "the automata registry cannot be rendered (needed for the auditors' tables): " + t_out.strip()[-400:],
                      {"kind": "translator", "output": t_out[-3000:]}, no_input=True)
        return None, False
    return bins, True


def run_harness(res, binpath, tier, seed, extra_args=()):
    out = tempfile.mkdtemp(prefix="shk-%s-" % res.pid.lower())
    try:
        rc, o = vlib.run([binpath, "-seed", str(seed), "-tier", tier, "-out", out] + list(extra_args), timeout=3000)
        if rc != 0:
            res.violation(None, "harness crashed", {"kind": "harness-crash", "output": o[-4000:]}, no_input=True)
            return None
        pf = os.path.join(out, "preds.v")
        if os.path.exists(pf):
            res.preds_lines = open(pf).read().split("\n")[:-1]
        return (open(os.path.join(out, "cases.v")).read(),
                json.load(open(os.path.join(out, "cases.json"))),
                json.load(open(os.path.join(out, "summary.json"))))
    finally:
        shutil.rmtree(out, ignore_errors=True)
