"""C06 — storylines compile to exactly the timed scenes they denote
(DESIGN.md section 6, C06)."""
import concurrent.futures
import json
import os
import shutil
import tempfile

import vlib

PID = "C06"
THEOREMS = [
    "c06_validate_iff_wellformed", "c06_combine_acts_denotes", "c06_combine_denotes",
    "c06_combine_valid", "c06_clause_step", "c06_edit_then_validate",
    "c06_script_invariant", "c06_clauses_denote_union", "c06_clauses_after_last_edit",
    "c06_specs_denote", "c06_compile_act_denotes", "c06_compile_denotes",
    "c06_script_compiles_to_denotation", "c06_flatten_schedule", "c06_no_panic_no_fuel",
    "c06_duration_text_exact", "c06_printed_steps_read_back", "c06_printed_steps_injective",
    "c06_printed_steps_determine_play", "c06_compiled_play_view",
]
HEADER = ("From Shk Require Import Base.Prelude Model.Storyline Model.Compile Model.Denote Model.StepsText Model.StepsRead Model.Regex Corr.C06.\n"
          "Open Scope Z_scope.\n")
SCRIPT_QUERIES = [
    ("M", "bad_indices case_model_bad script_cases"),
    ("O", "bad_indices case_oracle_bad script_cases"),
    ("Os", "bad_indices case_oracle_story_bad script_cases"),
]
PAIR_QUERIES = [
    ("MP", "bad_indices pair_model_bad pair_cases"),
    ("OP", "bad_indices pair_oracle_bad pair_cases"),
]
ASSUMPTIONS = [
    "Go strings are byte lists and cursors are suffixes in the model: index safety of validateStoryLine / extractAction / combineActs / compileV2 is not a theorem; it is part of the correspondence (a panic in the hook is a disagreement and an oracle failure)",
    "Go's regexp is NOT modelled: regexp.ReplaceAllString is a parameter of the model (every theorem about `edit` holds for every substitution function). In the cases an edit is either a quoted literal pattern with a $-free replacement (the oracle substitutes itself: leftmost, non-overlapping) or (b) a regular expression of the subset of Model/Regex.v (literals, ., sets, alternation, concatenation, greedy and lazy * + ?, ^ $; a fixed corpus where leftmost-first vs leftmost-longest, greedy vs lazy, empty vs non-empty matches differ, plus random ones), written twice by the generator - Go pattern text and Coq term - whose expected result comes from the oracle's OWN backtracking matcher and transcription of Go's replaceAll loop (nothing of Go's regexp is used to say what the edit must produce), or (c) a regular expression with captures / classes outside that subset ($n, \\b, (?i), {m,n}) whose substituted text the harness computes with a fresh, unmodified-by-the-parser call of Go's regexp on the storyline the hook reported before the clause (only the plumbing around the substitution is checked for those: join with one blank, re-validation, replacement of cfg.storyLine, refusal of malformed results)",
    "strings.Split/TrimSpace/ReplaceAll/Join/HasSuffix, time.ParseDuration and Duration.String are modelled or used by the harness, and exercised by the cases, not verified; the oracle reads a clause with all white space turned into blanks (Denote.blank_ws) provided every white-space run with a newline / tab between two acts also contains a blank (Denote.ws_ok: multi-line clauses, tabs next to blanks) - an oracle-level reading checked on the cases, the validateStoryLine theorems carry `blanks only`; runs without a blank and negative tempos are outside the oracle's domain (still compared with the model)",
    "the split of an entails action list at ';', identifier checks and the action-exists check are not modelled (the generator only names defined roles, actors and actions)",
    "the schedule reading of a play (waitUntil 0 = do not wait; scenes in order) is prompt.go's loop with actions that take no time; real timing is C04's",
    "times are int64 nanoseconds (time.Duration) end to end: tempo and waitUntil are compared as integers, never after formatting; the -p dump reaches Coq as raw bytes: the model's print_text must equal it byte for byte (fmt verbs and Duration.String are transcribed, not verified) and the oracle reads it with the proved reader of Model/StepsRead.v",
]


PAIR_SHARD = 4000      # harness/c06/main.go pairShard


def _eval_shard(args):
    tier, kind, i, text = args
    if kind == "pairs":
        return kind, i, vlib.eval_cases(PID, "%s_pairs_%d" % (tier, i), HEADER, text, PAIR_QUERIES, timeout=3000)
    return kind, i, vlib.eval_cases(PID, "%s_%d" % (tier, i), HEADER, text, SCRIPT_QUERIES, timeout=3000)


def evaluate(tier, out):
    """Evaluate every pairs_<i>.v and cases_<i>.v of directory out (shards in
    parallel).  Returns (ok, failures, bad, n) with bad = {query: [indices
    into cases.json's lists]}."""
    jobs = []
    for f in sorted(os.listdir(out)):
        if f.startswith("cases_") and f.endswith(".v"):
            jobs.append((tier, "scripts", int(f[6:-2]), open(os.path.join(out, f)).read()))
        elif f.startswith("pairs_") and f.endswith(".v"):
            jobs.append((tier, "pairs", int(f[6:-2]), open(os.path.join(out, f)).read()))
    jobs.sort(key=lambda j: (j[1], j[2]))
    bad = {"M": [], "O": [], "Os": [], "MP": [], "OP": []}
    fails = []
    offsets, off = {}, 0
    for (_, kind, i, t) in jobs:        # script shard i holds the cases c0..c(n-1)
        if kind != "scripts":
            continue
        offsets[i] = off
        n = 0
        while ("Definition c%d :" % n) in t:
            n += 1
        off += n
    with concurrent.futures.ThreadPoolExecutor(max_workers=max(1, min(8, vlib.NCPU // 2))) as ex:
        for kind, i, (rc, cout, q, _) in ex.map(_eval_shard, jobs):
            queries = PAIR_QUERIES if kind == "pairs" else SCRIPT_QUERIES
            base = i * PAIR_SHARD if kind == "pairs" else offsets[i]
            for k, _ in queries:
                v = vlib.parse_nat_list(q.get(k))
                if rc != 0 or v is None:
                    fails.append("%s shard %d: %s" % (kind, i, cout[-2000:]))
                    break
                bad[k] += [base + x for x in v]
    for k in bad:
        bad[k].sort()
    return (not fails), fails, bad, off


def report(res, cases, bad):
    """Turn bad indices into violations (DESIGN.md section 5)."""
    scripts, pairs = cases.get("scripts", []), cases.get("pairs", [])
    if bad["OP"]:
        c = min((pairs[i] for i in bad["OP"]), key=lambda c: len(c["A1"]) + len(c["A2"]))
        res.violation("combine-acts-not-the-columnwise-union",
                      "combineActs(%r, %r) = %r%s is not the column-wise union of its arguments (or is not a well-formed act)"
                      % (c["A1"], c["A2"], c["Obs"], (" PANIC " + c["Panic"]) if c["Panic"] else ""),
                      {"kind": "failing-input", "PairInput": c, "n_failing": len(bad["OP"]),
                       "replay": "./check C06 --replay <this file>   (calls cmd.VerifC06CombineActs)"})
    if bad["O"]:
        story = set(bad["Os"])
        for sig, idxs, what in (
                ("storyline-not-the-union-of-its-clauses", [i for i in bad["O"] if i in story],
                 "the storyline after the clauses / edits is not the column-wise union the clauses denote (or a well-formed clause was refused, a malformed one accepted, or the parser crashed)"),
                ("play-not-the-denotation-of-the-storyline", [i for i in bad["O"] if i not in story],
                 "the compiled play (or its -p dump) is not the denotation of the storyline: wrong lines, marks, mood position or times")):
            if not idxs:
                continue
            c = min((scripts[i] for i in idxs), key=lambda c: len(c["Text"]) - c["Text"].find("script\n"))
            res.violation(sig, what + "; smallest of %d failing inputs: script section %r -> storyline %r %s"
                          % (len(idxs), c["Text"][c["Text"].find("script\n"):], c["Story"], c["FullErr"] or c["Panic"]),
                          {"kind": "failing-input", "Input": c, "n_failing": len(idxs),
                           "replay": "./check C06 --replay <this file>   (or: write Input.Text to a file and run `shakespeare -n -p file`)"})


def run(tier, seed):
    res = vlib.Result(PID, tier, seed, level="proof")
    res.assumptions = list(ASSUMPTIONS)
    ok, detail = vlib.proof_stage(res, "C06", THEOREMS)
    if not ok:
        res.violation(None, "proof obligations of C06 broken: %s" % detail.get("broken"),
                      {"kind": "proof-obligation", "detail": detail}, no_input=True)
        return res.finish()
    try:
        bins = vlib.build_bins(["c06", "shakespeare"])
    except vlib.BuildError as e:
        res.violation(None, "harness does not build against the current tree",
                      {"kind": "correspondence-build", "what": e.what, "output": e.output[-4000:]}, no_input=True)
        return res.finish()
    out = tempfile.mkdtemp(prefix="shk-c06-")
    try:
        rc, o = vlib.run([bins["c06"], "-seed", str(seed), "-tier", tier, "-out", out, "-bin", bins["shakespeare"]],
                         timeout=3000)
        if rc != 0:
            res.violation(None, "harness crashed", {"kind": "harness-crash", "output": o[-4000:]}, no_input=True)
            return res.finish()
        cases = json.load(open(os.path.join(out, "cases.json")))
        summary = json.load(open(os.path.join(out, "summary.json")))
        ev_ok, fails, bad, n_scripts = evaluate(tier, out)
    finally:
        shutil.rmtree(out, ignore_errors=True)
    res.coverage.update({
        "evaluations": summary["scripts"] + summary["pairs"],
        "distinct_nontrivial": summary["distinct_nontrivial"],
        "exhaustive": False,
        "exhaustive_scopes": {
            "all pairs of valid acts of <= 4 bytes over {a,b,.,+} through the real combineActs": summary["pairs_exhaustive_len4"],
            "every single storyline clause of <= 6 bytes over {a,b,.,+,_,' '} through the real parser and compiler": summary["single_clause_exhaustive_len6"],
            "every pair of single-act clauses with valid acts of <= 3 bytes over {a,b,.,+,_}": summary["two_clauses_exhaustive_len3"],
        },
        "rule": "pairs: (sampled in quick, all in thorough) pairs of the %d valid acts of <= 4 bytes over {a,b,.,+} plus random acts of up to 10 columns, through the real combineActs. scripts, all through the real parseScript clause by clause (cfg.storyLine recorded after each), then the whole text through reader + parseCfg + compileV2 + printSteps: single clauses of <= 6 bytes; 2-3 clauses of 1-2 acts of <= 5 bytes over {a,b,.,+,_} (3%% malformed) with a fixed set of definitions (single-actor and every-role entails over a two-actor role, several entails per scene, an entail without actions, mood starts and ends) and sometimes a literal edit; an edit-shapes stream (1-3 such clauses interleaved with edits from three sources: 20 literal replacements that introduce +, ., _ and blanks - new groups, split and joined acts; a corpus of 26 regular expressions plus random ones with a Coq twin, judged by the oracle's own leftmost-first matcher (a|ab, ab|a, b.*?, a*?, a*, (a|ab)(b|), ^, $, ' *' ...); 16 regular expressions with $n etc. whose result the harness supplies); a multi-line stream (clauses written over several lines with the reader's backslash continuation, tabs next to blanks: must read like the one-line clause); an edits-first stream (the first clauses are edits of the EMPTY storyline with patterns that match the empty string - ^$, ^, $, (?:), a*, a|, .*? - seeding the storyline); a late-cast stream (cast / script / cast / script: scenes defined for `every <role>`, the role gains actors through a further cast section, then defined again for `every <role>` and for newcomers; the denotation resolves `every <role>` against the cast hired so far); random scripts (35%% with a further cast section between `every <role>` clauses; 1-3 cast entries incl. multi-actor ones, 1-5 scenes with shuffled entails / mood definitions incl. roles without actors, 1-4 clauses of 1-4 acts of up to 10 columns with + groups, . and _, 4%% malformed, literal edits with / , | separators and optional g and some regular-expression edits, definitions after the first storyline, 15 tempos incl. 0s, 2500us, 1.5ms, 999999ns, 33.333ms, 1h, 1h0m0.000000001s, tempo clause anywhere; every scene time compared in integer nanoseconds and the printed dump byte for byte). A sample is also run through the real binary (-n -p) and its dump compared with the hook's. non-trivial = accepted script with >= 2 storyline clauses or an edit AND a + group or a mood change in the result (distinct by text), or a pair of acts of >= 2 bytes each (distinct)." % summary["small_valid_acts_len4"],
        "samples": summary["samples"],
        "distribution": {k: summary[k] for k in ("pairs", "scripts", "streams", "accepted", "refused", "with_edit",
                                                 "with_mood", "with_plus_group", "max_act_bytes", "max_acts",
                                                 "panics", "cli_checked")},
        "traces_validated_against_impl": summary["scripts"] + summary["pairs"],
        "shards": summary["shards"],
    })
    if not ev_ok:
        res.violation(None, "correspondence cases did not evaluate",
                      {"kind": "cases-eval", "output": fails[:3]}, no_input=True)
        return res.finish()
    report(res, cases, bad)
    if summary["cli_differs"]:
        res.violation("cli-dump-differs-from-hook",
                      "`shakespeare -n -p` prints a different play than printSteps through the hook: %s" % summary["cli_differs"][0][:300],
                      {"kind": "failing-input", "text": summary["cli_differs"][0], "n": len(summary["cli_differs"])})
    if not res.violations and not res.known:
        if bad["MP"]:
            c = cases["pairs"][bad["MP"][0]]
            res.violation(None, "model and implementation disagree on a combineActs case (property oracle passes): correspondence MP broken",
                          {"kind": "correspondence", "query": "MP", "n_disagreements": len(bad["MP"]), "PairInput": c}, no_input=True)
        if bad["M"]:
            c = min((cases["scripts"][i] for i in bad["M"]), key=lambda c: len(c["Text"]) - c["Text"].find("script\n"))
            res.violation(None, "model and implementation disagree on a script case (property oracle passes): correspondence M broken",
                          {"kind": "correspondence", "query": "M", "n_disagreements": len(bad["M"]), "Input": c}, no_input=True)
    res.coverage["disagreements"] = {k: len(v) for k, v in bad.items()}
    return res.finish()


def replay(path):
    """./check C06 --replay <file>: run the case of a replay file again through
    the real code, the model and the oracle."""
    bins = vlib.build_bins(["c06"])
    out = tempfile.mkdtemp(prefix="shk-c06-replay-")
    try:
        rc, o = vlib.run([bins["c06"], "-replay", path, "-out", out], timeout=300)
        print(o)
        if rc != 0:
            return 2
        ev_ok, fails, bad, _ = evaluate("replay", out)
    finally:
        shutil.rmtree(out, ignore_errors=True)
    if not ev_ok:
        print("cases did not evaluate:", fails)
        return 2
    print("model disagrees: %s   oracle fails: %s" % (bool(bad["M"] or bad["MP"]), bool(bad["O"] or bad["OP"])))
    return 1 if (bad["O"] or bad["OP"]) else 0
