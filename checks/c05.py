"""C05 — a play runs to the end of its script unless a failure is reported
(DESIGN.md section 6, C05)."""
import json

import vlib
from checks import e2ecommon as E

PID = "C05"
THEOREMS = [
    "c05_complete_unless_failed", "c05_complete_repeat_n_times", "c05_failure_stops",
    "c05_tolerated_ignored", "c05_tolerated_failures_as_successes", "c05_exit0_implies_prompter_completed",
]
HEADER = "From Shk Require Import Base.Prelude Model.Prompt Corr.C04 Corr.C05.\nOpen Scope Z_scope.\n"
QUERIES = [
    ("Mperf", "bad_indices c05_model_bad ledger_cases"),
    ("Omask", "map c05_oracle_mask ledger_cases"),
]
BITS = [(1, "exit-0-but-script-not-completely-performed"), (2, "non-tolerated-failure-but-exit-0"),
        (4, "something-performed-after-a-failure-or-stop"), (8, "tolerated-failure-or-nothing-yet-exit-nonzero"),
        (16, "wrong-number-of-performances"), (32, "repeated-beyond-repeat-time"),
        (64, "compiled-play-or-tolerance-marks-differ-from-script-text")]
ASSUMPTIONS = [
    "the prompter theorems are about the untimed model `perform`; the conductor theorem about the LTS of Model/Conduct.v (errors abstracted to nil / cancelled / audit violation / other; component behaviour as read from the code after commit d415a46)",
    "a signal (stopper quiesce) legitimately ends a play early with status 0 (SIGTERM): the conductor theorem excludes it by hypothesis, the end-to-end plays send none",
    "end-to-end: an action instance is identified by (actor, action name, n-th run by that actor); action names are unique per scene line and step",
    "a failing spotlight (kind 3) may or may not end the play depending on timing: only 'exit 0 implies complete' is required of those plays",
    "`repeat time`: the number of iterations is read off the ledger; only the necessary condition 'iteration k+1 started => end of iteration k minus start of iteration 2 <= T' is checked (sound under load)",
]


def signature(c, mask, names):
    return "c05-" + "+".join(names)


def evaluate(res, tier, seed, only=None):
    got = E.run_harness(res, "c05", tier, seed, only=only)
    if got is None:
        return None
    cases_v, cases, summary = got
    rc, cout, q, path = vlib.eval_cases(PID, tier if only is None else "replay", HEADER, cases_v, QUERIES, timeout=3000)
    vals = {k: vlib.parse_nat_list(v) for k, v in q.items()}
    if rc != 0 or any(v is None for v in vals.values()):
        res.violation(None, "correspondence cases did not evaluate",
                      {"kind": "cases-eval", "output": cout[-4000:]}, no_input=True)
        return None
    return cases, summary, vals, path


def report(res, cases, vals, seed, tier, base=0):
    seen = set()
    for idx, mask in enumerate(vals["Omask"]):
        if not mask:
            continue
        c = cases[idx]
        names = E.mask_names(mask, BITS)
        sig = signature(c, mask, names)
        if (mask & 1) and c["SpotKind"] == 2 and not (mask & ~1):
            # every spotlight of the play exits 0 by itself (the defect repaired by d415a46)
            sig = "spotlight-self-exit-ends-play-status0"
        if sig in seen:
            continue
        seen.add(sig)
        res.violation(sig, "play %s (spotlights: kind %d): exit status %s vs performed actions violates C05: %s"
                      % (c["Name"], c["SpotKind"], c["Obs"]["Exit"], ", ".join(names)),
                      E.replay_obj(PID, c, base + idx, seed, tier, {"oracle_mask": mask, "violated": names, "spot_kind": c["SpotKind"]}))
    if not res.violations and not res.known and vals["Mperf"]:
        c = cases[vals["Mperf"][0]]
        res.violation(None, "`perform` fed with the observed action results does not predict what play %s performed / its status, although the plain-meaning oracle passes: correspondence broken" % c["Name"],
                      E.replay_obj(PID, c, base + vals["Mperf"][0], seed, tier, {"kind": "correspondence", "n_disagreements": len(vals["Mperf"])}),
                      no_input=True)


def run(tier, seed):
    res = vlib.Result(PID, tier, seed, level="proof")
    res.assumptions = ASSUMPTIONS
    ok, detail = vlib.proof_stage(res, "C05", THEOREMS)
    res.coverage["trusted_base"] = res.coverage.get("trusted_base", []) + E.TRUSTED_E2E
    if not ok:
        res.violation(None, "proof obligations of C05 broken: %s" % detail.get("broken"),
                      {"kind": "proof-obligation", "detail": detail}, no_input=True)
    got = evaluate(res, tier, seed)
    if got is None:
        return res.finish()
    cases, summary, vals, path = got
    res.coverage.update({
        "evaluations": summary["plays"],
        "distinct_nontrivial": summary["distinct_nontrivial"],
        "rule": "generated scripts as for C04 x repeat specs (none / repeat from + N times / + repeat time) x one failing action (none / tolerated / non-tolerated; always or at its k-th run) x spotlights (absent / keep running / all exit 0 by themselves at once or after a delay / one exits non-zero); run through the real binary; non-trivial = at least 2 non-empty scene groups and 2 ledger rows, distinct by script text",
        "samples": summary["samples"],
        "distribution": summary["distribution"],
        "ledger_rows_checked": sum(len(c["Obs"]["Ledger"] or []) for c in cases),
        "traces_validated_against_impl": summary["plays"],
        "cases_file": path,
        "disagreements": {"model": len(vals["Mperf"]), "oracle": sum(1 for m in vals["Omask"] if m)},
    })
    report(res, cases, vals, seed, tier)
    return res.finish()


def replay(path):
    r = json.load(open(path))
    res = vlib.Result(PID, r.get("tier", "quick"), r.get("seed", 1))
    got = evaluate(res, r.get("tier", "quick"), r.get("seed", 1), only=r["index"])
    if got is None:
        return res.finish()
    cases, summary, vals, _ = got
    print("replayed %s: exit=%s rows=%d oracle_mask=%s model_bad=%s" % (cases[0]["Name"], cases[0]["Obs"]["Exit"], len(cases[0]["Obs"]["Ledger"] or []), vals["Omask"], vals["Mperf"]))
    report(res, cases, vals, r.get("seed", 1), r.get("tier", "quick"), base=r["index"])
    return 1 if res.violations or res.known else 0
