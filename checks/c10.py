"""C10 — the printed configuration re-loads to the same play
(DESIGN.md section 6, C10)."""
import concurrent.futures
import json
import os
import shutil
import tempfile

import vlib

PID = "C10"
THEOREMS = [
    "c10_reachable_wf",
    "c10_reload_partial",
    "c10_reload_stable",
    "c10_story_printable",
    "c10_reload_no_ctl_partial",
    "c10_params_substituted",
    "c10_define_precedence",
]
REFUTED = [
    "c10_reload_refuted_watches_before_computes",
    "c10_reload_refuted_uses_before_computes",
    "c10_reload_refuted_parameter_reference_in_value",
    "c10_reload_refuted_empty_substituted_title",
    "c10_reload_refuted_ts_pseudo_pattern_twice",
]
HEADER = ("From Shk Require Import Base.Prelude Model.Storyline Model.Config Corr.C10.\n"
          "Open Scope wb_scope. Open Scope list_scope. Open Scope Z_scope.\n")
QUERIES = [
    ("M", "bad_indices case_model_bad cases"),
    ("MR", "bad_indices case_model_reload_bad cases"),
    ("O", "bad_indices case_oracle_bad cases"),
    ("H", "bad_indices case_hypothesis_bad cases"),
    ("T", "bad_indices case_text_bad cases"),
]
ASSUMPTIONS = [
    "clause kinds: all 28 kinds of Model/Config.v (title, author, attention, parameter, role with its action / spotlight / cleanup / signal lines and `extends`, cast incl. `x* play N`, tempo, scene entails / mood starts / mood ends, storyline, edit, repeat from / N times / always / time, watches signal / every role / variable, measures, only helps, audits / audits throughout, expects, expects like, collects, computes, ignore <result>, ignore / foul upon / require <member>) are inside c10_reachable_wf (the induction goes through every kind) and hence inside c10_reload_partial; no clause kind is covered by the correspondence only.  What IS correspondence-only: the lexical layer on the way in, the libraries behind the oracles, watcher lists / varNames order / sinks, and story_printable outside C06's no-control-white-space domain",
    "clause level: a clause is one accepted line with its fields already split; the regexps that recognise a line, white space, continuation lines, comments, section headers and includes are NOT in the Coq model - they are exercised only by the harness (free layout, comments, continuation lines, includes and parameters on the way in; the printed text is read back into clauses by the harness, and Coq checks on every case that Model/Config.v's `render` of that clause list is the printed text, byte for byte)",
    "outside the model, passed as oracles (the theorems hold for every value of them; the cases instantiate them with tables computed by the real libraries): govaluate (which variables an expression mentions), Go regexp (compiles, group names; MatchString / ReplaceAllString only for the literal letter-digit patterns the generator uses for `repeat from` and `edit`), time.ParseDuration / Duration.String (the theorem assumes ParseDuration(d.String()) = d and that a printed duration holds no `~`)",
    "not modelled (compared by the harness on the exported configuration only): cfg.varNames order, the variables' watcher lists, actor sinks (they only show in comment lines of -p and in the CSV / plot fan-out); identifiers are checked on bytes, every byte >= 0x80 counting as a letter",
    "the storyline functions are Model/Storyline.v (C06); `story_printable` (a storyline accepted once is accepted again from its printed form) is a hypothesis of c10_reload_partial; c10_story_printable discharges it with the C06 theorems for runs whose storyline texts and edit results hold no white space but ' ' (C06's own domain assumption), and it is evaluated on every generated case",
    "harmless normalisations before two loads are compared: interpretation clauses of a member without `expects` are not printed (no effect: only `expects` produces the reports the foul conditions count); `repeat -3 times` / `repeat time -5s` print as always / unconstrained; repeat count / time without `repeat from` or without storyline are not printed (no effect); the order of one observer's watches (allowed by the statement; it is map-iteration order in the implementation, so Config / ConfigHash may differ between two runs on the same file)",
    "the comparison of the exported configuration data, of the printSteps text, of the inlined variant (parameters substituted by hand, no includes, plain layout), of the commented -p text and of the annotated print is done by the harness in Go; Coq evaluates the model and the equality of the printed clause lists up to the order of one observer's watches",
]

FAIL_TEXT = {
    "inherited-signal-redefined": "a role that extends another and declares an inherited signal again is accepted; its flattened print holds the signal twice and is rejected on reload (duplicate signal name)",
    "result-config-hash-is-not-the-hash-of-config": "the ConfigHash that assemble() stores in result.js is not the FNV-32 of the Config stored next to it: configurations that print differently can get the same configuration id",
    "result-config-is-not-the-printed-configuration": "the Config that assemble() stores in result.js is not the printed configuration",
    "watches-before-computes": "an observer declared before the member that computes the variable it watches is printed first: the printed configuration is rejected (variable not defined)",
    "uses-before-computes": "a member declared before the member that computes a variable it uses in an expression is printed first: the printed configuration is rejected (variable not defined)",
    "substituted-value-contains-parameter-reference": "a substituted parameter value containing ~name~ is printed verbatim and expanded again on reload (undefined parameter)",
    "substituted-value-empty": "a title / attention text that is empty after substitution is printed as `title ` and rejected on reload",
    "substituted-value-edge-whitespace": "a substituted text that starts or ends with white space loses it on reload: the second print differs",
    "continuation-line-in-unescaped-field": "a continuation line inside a title / author / attention / regexp / expression / label is printed as a raw newline: the printed configuration is rejected or differs",
    "ts-pseudo-pattern-twice": "only the first occurrence of a time stamp pseudo-pattern is expanded; the reload expands the next one: the regexp differs",
}


def _eval_shard(args):
    tier, i, text = args
    return i, vlib.eval_cases(PID, "%s_%d" % (tier, i), HEADER, text, QUERIES, timeout=3000)


def evaluate(tier, out, coq_ids):
    """Evaluate every cases_<i>.v of out.  Returns (ok, fails, bad) with
    bad = {query: [case ids]}."""
    shards = sorted(int(f[6:-2]) for f in os.listdir(out) if f.startswith("cases_") and f.endswith(".v"))
    texts = [(tier, i, open(os.path.join(out, "cases_%d.v" % i)).read()) for i in shards]
    bad = {k: [] for k, _ in QUERIES}
    fails = []
    with concurrent.futures.ThreadPoolExecutor(max_workers=max(1, min(8, vlib.NCPU // 2))) as ex:
        for i, (rc, cout, q, _) in ex.map(_eval_shard, texts):
            for k, _ in QUERIES:
                v = vlib.parse_nat_list(q.get(k))
                if rc != 0 or v is None:
                    fails.append("shard %d: %s" % (i, cout[-2000:]))
                    break
                bad[k] += [coq_ids[i * 200 + x] for x in v]
    return (not fails), fails, bad


def _size(c):
    return sum(len(t) for t in c["Files"].values())


def report(res, cases, summary, bad, seed, tier):
    """Turn failing case ids into violations (DESIGN.md section 5)."""
    def get(i):
        return cases.get(str(i))
    failing = {}   # signature -> [case]
    go_fail = set(summary["FailIdx"])
    coq_fail = set(bad["O"])
    for i in sorted(go_fail | coq_fail):
        c = get(i)
        sig = (c or {}).get("Sig") or "reload-differs-other"
        failing.setdefault(sig, []).append(c if c else {"Id": i, "Files": {}, "Why": "regenerate with: c10 -seed %d -tier %s -dump %d" % (seed, tier, i)})
    for sig, cs in sorted(failing.items()):
        c = min(cs, key=_size)
        what = FAIL_TEXT.get(sig, "an accepted configuration's printed text does not load to the same configuration (%s)" % (c.get("Fail") or "reload"))
        res.violation(sig, "%s; smallest of %d failing inputs (case %s): %s" % (what, len(cs), c.get("Id"), (c.get("Why") or "")[:400]),
                      {"kind": "failing-input", "Input": c, "n_failing": len(cs),
                       "replay": "./check C10 --replay <this file>   (or: write Input.Files to a directory and run `shakespeare -n -p -q %s m.cfg | grep -v '^ *#' > p.cfg; shakespeare -n -p -q p.cfg`)"
                                 % " ".join("-D'%s'" % d for d in (c.get("Defines") or []))})
    # the Coq oracle and the harness must agree on which cases fail
    coq_ids = set(summary["CoqIds"])
    incons = sorted(i for i in (go_fail ^ coq_fail) if i in coq_ids)
    if incons:
        res.violation(None, "the oracle evaluated in Coq and the harness disagree on which cases fail: %s" % incons[:10],
                      {"kind": "correspondence", "cases": incons[:10], "first": get(incons[0])}, no_input=True)
    reported = go_fail | coq_fail
    for q, what in (("M", "first load: accepted / printed clause list / repetition point"),
                    ("MR", "reload of the printed clause list")):
        idx = [i for i in bad[q]]
        if idx:
            c = min((get(i) or {"Id": i, "Files": {}} for i in idx), key=_size)
            res.violation(None, "model and implementation disagree (%s) on %d cases, e.g. case %s: correspondence %s broken"
                          % (what, len(idx), c.get("Id"), q),
                          {"kind": "correspondence", "query": q, "n_disagreements": len(idx), "Input": c,
                           "also_oracle_failure": sorted(set(idx) & reported)[:10]}, no_input=True)
    if summary.get("Unreadable"):
        i = summary["Unreadable"][0]
        res.violation(None, "the harness cannot read the printed configuration back into clauses on %d cases (e.g. case %s) although no text-level defect shape was planted: the printed format changed"
                      % (len(summary["Unreadable"]), i),
                      {"kind": "correspondence", "query": "printed-format", "Input": get(i) or {"Id": i}}, no_input=True)
    if bad["T"]:
        c = get(bad["T"][0]) or {"Id": bad["T"][0]}
        res.violation(None, "on %d cases the clause list the harness read back from the printed text does not render (Model/Config.v render, printCfg's layout) to that text, e.g. case %s: the printed format changed or the reader of the harness is wrong"
                      % (len(bad["T"]), c.get("Id")),
                      {"kind": "correspondence", "query": "T", "Input": c}, no_input=True)
    if bad["H"]:
        c = get(bad["H"][0]) or {"Id": bad["H"][0]}
        res.violation(None, "on %d cases the model state is not wf_state, or `printable` (the hypothesis of c10_reload_partial, which must exclude exactly the listed defect shapes) disagrees with whether the implementation's reload works, e.g. case %s"
                      % (len(bad["H"]), c.get("Id")),
                      {"kind": "correspondence", "query": "H", "Input": c}, no_input=True)


def run(tier, seed):
    res = vlib.Result(PID, tier, seed, level="proof")
    res.assumptions = list(ASSUMPTIONS)
    ok, detail = vlib.proof_stage(res, "C10", THEOREMS, REFUTED)
    if not ok:
        res.violation(None, "proof obligations of C10 broken: %s" % detail.get("broken"),
                      {"kind": "proof-obligation", "detail": detail}, no_input=True)
        return res.finish()
    try:
        bins = vlib.build_bins(["c10"])
    except vlib.BuildError as e:
        res.violation(None, "harness does not build against the current tree",
                      {"kind": "correspondence-build", "what": e.what, "output": e.output[-4000:]}, no_input=True)
        return res.finish()
    out = tempfile.mkdtemp(prefix="shk-c10-")
    try:
        rc, o = vlib.run([bins["c10"], "-seed", str(seed), "-tier", tier, "-out", out], timeout=3000)
        if rc != 0:
            res.violation(None, "harness crashed", {"kind": "harness-crash", "output": o[-4000:]}, no_input=True)
            return res.finish()
        cases = json.load(open(os.path.join(out, "cases.json")))["cases"]
        summary = json.load(open(os.path.join(out, "summary.json")))
        ev_ok, fails, bad = evaluate(tier, out, summary["CoqIds"])
    finally:
        shutil.rmtree(out, ignore_errors=True)
    res.coverage.update({
        "evaluations": summary["Cases"],
        "distinct_nontrivial": summary["DistinctNontrivial"],
        "exhaustive": False,
        "rule": "grammar-based generator of VALID configurations: 1-4 roles (inheritance, actions, cleanup, spotlight, the three signal kinds with the four time stamp groups, regexps holding #, ~p~, backslashes and % sequences; every free-text field - commands, with-values, titles, authors, attention, labels, expression literals - also drawn with %s %d %% %!s %[1]d and a lone trailing %), single and multi-actor casts (`x* play N roles`, plural role names, `with` environments, multi-line ones), multi-line commands, scenes (entails for an actor / every role, `?` marks, empty action lists, mood starts / ends), several merged storylines with + groups, . and _, literal edits, repeat from / count / always / time, tempo; an audience of up to 6 members whose clauses (watches signal / every role / variable, measures, only helps, audits, expects with the ten modalities, expects like, collects, computes over generated expressions with signal references, arrays and functions) are generated one at a time for a random member, i.e. interleaved across members subject to definition-before-use; interpretation clauses incl. the `ignore <result>` shorthand; title / author / attention.  Presentation: free white space, comments, blank lines, continuation lines between tokens, several sections per kind, empty sections, 0-3 parameters (-D only, in-file default only, both with -D winning, duplicate defaults) planted in substituted fields, includes (siblings, sub-directories, -I path, nested to depth 3, parametrised names).  10% of the cases plant one of the listed defect shapes, a repaired one as regression, or a near-miss that must be refused at first load (extends + an inherited signal declared again); 15% of the valid cases carry a parameter defined empty with -D over a non-empty in-file default.  Every accepted case also goes through the real assemble(): result.js Config / ConfigHash = FNV-32(Config) / ConfigHTML / Steps.  Every case is loaded as presented, as an inlined plain variant, again from its printed text, and again from the commented -p text; non-trivial = accepted with a cast, a non-empty compiled play and an audience; distinct by printed text.",
        "samples": summary["Samples"][:3],
        "distribution": {k: summary[k] for k in (
            "Cases", "Accepted", "Rejected", "Risks", "Fails", "Kinds", "WithParams", "WithIncludes", "WithExtends",
            "WithMultiActor", "WithMultiLine", "WithMergedStory", "WithEdit", "WithRepeat", "WithLike", "WithInterp",
            "InterleavedAudience", "InCoq", "PrintedUnparsed")},
        "traces_validated_against_impl": summary["InCoq"],
        "shards": summary["Shards"],
    })
    if not ev_ok:
        res.violation(None, "correspondence cases did not evaluate",
                      {"kind": "cases-eval", "output": fails[:3]}, no_input=True)
        return res.finish()
    report(res, cases, summary, bad, seed, tier)
    res.coverage["disagreements"] = {k: len(v) for k, v in bad.items()}
    return res.finish()


def replay(path):
    """./check C10 --replay <file>: run the Input of a replay file again
    through the real code and the oracles."""
    bins = vlib.build_bins(["c10"])
    out = tempfile.mkdtemp(prefix="shk-c10-replay-")
    try:
        rc, o = vlib.run([bins["c10"], "-replay", path, "-out", out], timeout=300)
        print(o)
    finally:
        shutil.rmtree(out, ignore_errors=True)
    return rc
