"""C18 — microsecond conversions and Timers (DESIGN.md section 6, C18)."""
import json
import os
import shutil
import tempfile

import vlib

PID = "C18"
THEOREMS = [
    "c18_to_micros_nearest", "c18_nearest_characterised", "c18_to_micros_monotone",
    "c18_round_trip", "c18_reset_never_blocks", "c18_one_fire_not_early",
    "c18_fire_not_lost", "c18_fire_enabled_at_deadline", "c18_none_after_stop",
    "c18_timer_refines_one_shot", "c18_no_run_blocks", "c18_ticker_never_blocks",
    "c18_ticker_flushes_spaced", "c18_ticker_flush_available", "c18_spacedb_is_spaced",
]
HEADER = "From Shk Require Import Base.Prelude Model.Timeutil Model.Ticker Corr.C18.\nOpen Scope Z_scope.\n"
QUERIES = [
    ("Mmicro", "bad_indices micro_model_bad micro_cases"),
    ("Omicro", "bad_indices micro_oracle_bad micro_cases"),
    ("Omono", "mono_bad micro_cases"),
    ("Mfrom", "bad_indices from_model_bad from_cases"),
    ("Ofrom", "bad_indices from_oracle_bad from_cases"),
    ("Mtimer", "bad_indices timer_model_bad timer_cases"),
    ("Otimer", "bad_indices timer_oracle_bad timer_cases"),
    ("Olat", "bad_indices latency_bad latency_cases"),
    ("Otick", "bad_indices ticker_bad ticker_cases"),
]


def signature_micro(c):
    if c["Nsec"] >= 999999500:
        return "to-micros-carry-into-next-second"
    return "to-micros-other"


FLUSH_CFG = """role r
  :noop true
  spotlight sleep 30
end
cast
  x plays r
end
script
  tempo 1s
  scene a entails for x: noop
  storyline ..a....
end
"""


BUSY_CFG = """role ticker
  spotlight i=0; while true; do echo "tick $i"; i=$((i+1)); sleep 0.3; done
  signal beat event at (?P<ts_now>)tick (?P<event>.*)
end
cast
  tim plays ticker
end
script
  tempo 1s
  storyline ......
end
audience
  observer watches tim beat
end
"""


def busy_flush_play(binpath):
    """The flush ticker must keep firing once per second while events stream
    in (one observation every 300 ms for 6 s): the Timer is re-armed after a
    receive, not after every event.  Checked at t=3.6s: the csv file holds data."""
    return _timed_play(binpath, BUSY_CFG, 3.6)


FLOOD_CFG = """role ticker
  spotlight i=0; while true; do echo "tick $i"; i=$((i+1)); done
  signal beat event at (?P<ts_now>)tick (?P<event>.*)
end
cast
  tim plays ticker
end
script
  tempo 1s
  storyline ......
end
audience
  observer watches tim beat
end
"""


def flood_play(binpath):
    """Under a flood of events a tick of the flush Timer comes due while events
    are pending: whoever receives from the Timer must honour its protocol (set
    Read before the next Reset), or the collector blocks in Reset for ever and
    the 6 s play never ends.  Checked: the play has ended 25 s after its start."""
    import subprocess
    import time as _t
    tmp = tempfile.mkdtemp(prefix="shk-c18-flood-")
    try:
        with open(os.path.join(tmp, "play.cfg"), "w") as f:
            f.write(FLOOD_CFG)
        t0 = _t.time()
        p = subprocess.Popen([binpath, "-o", "out", "--disable-plots", "-q", "play.cfg"], cwd=tmp, start_new_session=True,
                             stdout=subprocess.DEVNULL, stderr=subprocess.DEVNULL, env=dict(os.environ, SHELL="/bin/bash"))
        try:
            p.wait(timeout=25)
            ended = True
        except subprocess.TimeoutExpired:
            ended = False
            import signal as _sig
            try:
                os.killpg(p.pid, _sig.SIGKILL)
            except OSError:
                pass
            p.wait()
        rows = 0
        for root, _, files in os.walk(os.path.join(tmp, "out")):
            for fn in files:
                if fn.endswith("beat.csv"):
                    rows = sum(1 for _ in open(os.path.join(root, fn), errors="replace"))
        return {"ended_within_25s": ended, "exit": p.returncode, "wall_s": round(_t.time() - t0, 2), "rows": rows}
    finally:
        subprocess.run(["pkill", "-KILL", "-f", tmp], stdout=subprocess.DEVNULL, stderr=subprocess.DEVNULL)
        shutil.rmtree(tmp, ignore_errors=True)


def flush_ticker_play(binpath):
    return _timed_play(binpath, FLUSH_CFG, 5.0)


def _timed_play(binpath, cfg_text, look_at):
    """The collector's flush ticker is the one user of timeutil.Timer in the
    play: Reset(1s) after every receive.  A play that collects nothing during
    its first second and records its first action at t=2s must have flushed
    that row to csv/x.csv well before the play ends at t=7s (the ticker fires
    every second).  Checked at t=5s: three ticker periods of slack."""
    import subprocess
    import time as _t
    tmp = tempfile.mkdtemp(prefix="shk-c18-flush-")
    try:
        with open(os.path.join(tmp, "play.cfg"), "w") as f:
            f.write(cfg_text)
        t0 = _t.time()
        p = subprocess.Popen([binpath, "-o", "out", "--disable-plots", "-q", "play.cfg"], cwd=tmp,
                             stdout=subprocess.PIPE, stderr=subprocess.STDOUT, env=dict(os.environ, SHELL="/bin/bash"))
        _t.sleep(look_at)
        alive = p.poll() is None
        sizes = {}
        for root, _, files in os.walk(os.path.join(tmp, "out")):
            for fn in files:
                if fn.endswith(".csv"):
                    sizes[fn] = os.path.getsize(os.path.join(root, fn))
        try:
            out, _ = p.communicate(timeout=120)
        except subprocess.TimeoutExpired:
            p.kill()
            out = b""
        return {"alive_at_5s": alive, "csv_sizes_at_5s": sizes, "exit": p.returncode,
                "wall_s": round(_t.time() - t0, 2), "output_tail": out.decode("utf-8", "replace")[-800:]}
    finally:
        shutil.rmtree(tmp, ignore_errors=True)


def run(tier, seed):
    res = vlib.Result(PID, tier, seed, level="proof")
    res.assumptions = [
        "int64 overflow is outside the model (all arithmetic over Z); instants are (sec, 0<=nsec<1e9) as exposed by Unix()/Nanosecond()",
        "time.Time.Round, time.Unix normalisation and pre-1.23 time.Timer channel semantics are modelled, and exercised by the correspondence cases, not verified",
        "atomicity of each Timer method (single-goroutine use, as its contract says)",
        "timer cases avoid TryRecv/Stop directly after a 1 ms Reset (schedule-dependent observation)",
    ]
    ok, detail = vlib.proof_stage(res, "C18", THEOREMS)
    if not ok:
        res.violation(None, "proof obligations of C18 broken: %s" % detail.get("broken"),
                      {"kind": "proof-obligation", "detail": detail}, no_input=True)
        return res.finish()
    try:
        bins = vlib.build_bins(["c18", "shakespeare"])
    except vlib.BuildError as e:
        res.violation(None, "harness does not build against the current tree",
                      {"kind": "correspondence-build", "what": e.what, "output": e.output[-4000:]}, no_input=True)
        return res.finish()
    import concurrent.futures as _cf
    _ex = _cf.ThreadPoolExecutor(max_workers=3)
    flush_future = _ex.submit(flush_ticker_play, bins["shakespeare"])
    busy_future = _ex.submit(busy_flush_play, bins["shakespeare"])
    flood_future = _ex.submit(flood_play, bins["shakespeare"])
    out = tempfile.mkdtemp(prefix="shk-c18-")
    try:
        rc, o = vlib.run([bins["c18"], "-seed", str(seed), "-tier", tier, "-out", out], timeout=1800)
        if rc != 0:
            res.violation(None, "harness crashed", {"kind": "harness-crash", "output": o[-4000:]}, no_input=True)
            return res.finish()
        cases_v = open(os.path.join(out, "cases.v")).read()
        cases = json.load(open(os.path.join(out, "cases.json")))
        summary = json.load(open(os.path.join(out, "summary.json")))
    finally:
        shutil.rmtree(out, ignore_errors=True)
    # shard the (large) micro case list: Coq's parser overflows its stack on
    # lists of > ~100k elements, and shards evaluate in parallel
    head, items, tail = vlib.split_list_def(cases_v, "micro_cases")
    rest = cases_v.replace(vlib.join_list_def(head, items, tail), "")
    per = 12000
    shards = [(off, items[off:off + per]) for off in range(0, max(len(items), 1), per)]
    micro_q = [x for x in QUERIES if x[0] in ("Mmicro", "Omicro", "Omono")]
    other_q = [x for x in QUERIES if x[0] not in ("Mmicro", "Omicro", "Omono")]

    def ev(arg):
        i, (off, its) = arg
        # one element of overlap so that the monotonicity oracle sees every adjacent pair
        its2 = ([items[off - 1]] if off > 0 else []) + its
        text = vlib.join_list_def(head, its2, tail) + (rest if i == 0 else "")
        rc, cout, q, path = vlib.eval_cases(PID, "%s%d" % (tier, i), HEADER, text, micro_q + (other_q if i == 0 else []), timeout=3000)
        return rc, cout, {k: vlib.parse_nat_list(v) for k, v in q.items()}, path, off - (1 if off > 0 else 0)

    import concurrent.futures
    with concurrent.futures.ThreadPoolExecutor(max_workers=min(len(shards), vlib.NCPU)) as ex:
        results = list(ex.map(ev, enumerate(shards)))
    vals = {k: [] for k, _ in QUERIES}
    rc, cout, path = 0, "", results[0][3]
    for r_rc, r_out, r_vals, _, base in results:
        if r_rc != 0 or any(v is None for v in r_vals.values()):
            rc, cout = (r_rc or 1), r_out
            vals = {k: None for k in vals}
            break
        for k, v in r_vals.items():
            vals[k] += [base + x for x in v] if k in ("Mmicro", "Omicro", "Omono") else v
    n_eval = summary["micro"] + summary["from"] + summary["timer"]
    res.coverage.update({
        "evaluations": n_eval,
        "distinct_nontrivial": summary["distinct_nontrivial"],
        "rule": "micro: every ns offset in [0,1500] u [499000,501000] u [999998000,1e9) for several second counts (negative, 0, random) + random instants biased to .5us ties and the last microsecond of a second; non-trivial = nsec not a multiple of 1000 (rounding happens). from: boundary + random int64 microsecond counts. timer: corpus (incl. the collector's ticker loop shape Reset (wait receive Reset)^n) + random op sequences over {Reset 1ms, Reset 1h, wait-for-fire, try-receive, Stop}; non-trivial = at least 3 operations; distinct by content. ticker: the collector's flush loop on the real Timer for fixed and random periods with busy pauses; receive instants must be a period apart (spacedb).",
        "samples": summary["samples"],
        "distribution": {k: summary[k] for k in ("micro", "from", "timer", "ticker", "micro_carry_into_next_second")},
        "traces_validated_against_impl": summary["timer"],
        "cases_file": path,
    })
    if rc != 0 or any(v is None for v in vals.values()):
        res.violation(None, "correspondence cases did not evaluate",
                      {"kind": "cases-eval", "output": cout[-4000:]}, no_input=True)
        return res.finish()
    # oracle failures = failing inputs of the property itself
    seen = set()
    for idx in vals["Omicro"]:
        c = cases["micro"][idx]
        sig = signature_micro(c)
        if sig in seen:
            continue
        seen.add(sig)
        res.violation(sig, "ToUnixMicros(sec=%d,nsec=%d) = %d is not the nearest microsecond count" % (c["Sec"], c["Nsec"], c["Obs"]),
                      {"kind": "failing-input", "input": c, "expected_nearest": (c["Sec"] * 10**9 + c["Nsec"] + 500) // 1000,
                       "replay": "go: timeutil.ToUnixMicros(time.Unix(%d,%d))" % (c["Sec"], c["Nsec"])})
    for idx in vals["Omono"][:1]:
        c = cases["micro"][idx]
        res.violation("to-micros-not-monotone", "ToUnixMicros decreases at sec=%d nsec=%d" % (c["Sec"], c["Nsec"]),
                      {"kind": "failing-input", "input": [cases["micro"][idx - 1], c]})
    for idx in vals["Ofrom"][:1]:
        c = cases["from"][idx]
        res.violation("from-micros-round-trip", "FromUnixMicros(%d) does not round-trip / is not that instant" % c["Us"],
                      {"kind": "failing-input", "input": c})
    for idx in vals["Otimer"][:1]:
        c = cases["timer"][idx]
        res.violation("timer-contract", "Timer violates the one-shot contract on %s" % " ".join(c["Ops"]),
                      {"kind": "failing-input", "input": c})
    for idx in vals["Olat"][:1]:
        c = cases["latency"][idx]
        res.violation("timer-fires-before-its-duration", "a Timer armed for %d ns delivered its tick after %d ns (-1 = never)" % (c["D"], c["Elapsed"]),
                      {"kind": "failing-input", "input": c, "replay": "go: t := timeutil.NewTimer(); start := time.Now(); t.Reset(%d); <-t.C; time.Since(start)" % c["D"]})
    for idx in vals["Otick"][:1]:
        c = cases["ticker"][idx]
        res.violation("ticker-loop-flushes-not-a-period-apart-or-stuck",
                      "the collector's ticker loop on the real Timer (Reset(%d ns); per round <-t.C; t.Read = true; Reset) received at %s ns since the start (-1 = receive or Reset never returned): not at least one period apart" % (c["P"], c["Times"]),
                      {"kind": "failing-input", "input": c, "theorem": "c18_ticker_flushes_spaced / c18_ticker_never_blocks",
                       "replay": "go: harness/c18 measureTicker(P, rounds, pauses)"})
    if not res.violations and not res.known:
        # model/implementation disagreement without a property failure
        for name, key in (("Mmicro", "micro"), ("Mfrom", "from"), ("Mtimer", "timer")):
            if vals[name]:
                c = cases[key][vals[name][0]]
                res.violation(None, "model and implementation disagree on a %s case (property oracle passes): correspondence %s broken" % (key, name),
                              {"kind": "correspondence", "query": name, "n_disagreements": len(vals[name]), "first": c},
                              no_input=True)
    res.coverage["disagreements"] = {k: len(v) for k, v in vals.items()}
    fl = flush_future.result()
    res.coverage["collector_flush_ticker_play"] = fl
    if fl["alive_at_5s"] and not any(v > 0 for v in fl["csv_sizes_at_5s"].values()):
        res.violation("collector-flush-ticker-stopped",
                      "the collector's flush ticker (timeutil.Timer: Read set, Reset(1s) after every receive) no longer fires once per second: a row recorded at t=2s is still not in csv/ at t=5s of a 7s play",
                      {"kind": "failing-input", "config": FLUSH_CFG, "observed": fl,
                       "replay": "shakespeare -o out --disable-plots -q play.cfg; look at out/*/csv/x.csv 5 s after the start"})
    bf = busy_future.result()
    res.coverage["collector_busy_flush_play"] = bf
    if bf["alive_at_5s"] and not any(v > 0 for v in bf["csv_sizes_at_5s"].values()):
        res.violation("collector-flush-ticker-starved-by-events",
                      "the collector's flush ticker no longer fires once per second while events stream in: observations arrive every 300 ms, yet nothing is in csv/ 3.6 s after the start of a 6 s play",
                      {"kind": "failing-input", "config": BUSY_CFG, "observed": bf,
                       "replay": "shakespeare -o out --disable-plots -q play.cfg; look at out/*/csv/observer.tim.beat.csv 3.6 s after the start"})
    fd = flood_future.result()
    res.coverage["collector_flood_play"] = fd
    if not fd["ended_within_25s"]:
        res.violation("collector-stuck-in-timer-reset-under-a-flood-of-events",
                      "a 6 s play whose spotlight prints lines as fast as it can has not ended 25 s after its start: the collector no longer honours the Timer protocol (a tick received without Read being set makes the next Reset block for ever)",
                      {"kind": "failing-input", "config": FLOOD_CFG, "observed": fd, "replay": "shakespeare -o out --disable-plots -q play.cfg (must end after ~6 s)"})
    return res.finish()
