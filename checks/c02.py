"""C02 — activation periods are judged independently and are always closed."""
import vlib
from checks import audcommon

PID = "C02"
THEOREMS = []


def run(tier, seed):
    res = vlib.Result(PID, tier, seed, level="proof")
    ok, detail = vlib.proof_stage(res, "C02", THEOREMS)
    if not ok:
        res.violation(None, "proof obligations of C02 broken: %s" % detail.get("broken"),
                      {"kind": "proof-obligation", "detail": detail}, no_input=True)
        return res.finish()
    bins, ok = audcommon.prepare(res, ["c02"])
    if not ok:
        return res.finish()
    r = audcommon.run_harness(res, bins["c02"], tier, seed)
    if r is None:
        return res.finish()
    cases_v, cases, summary = r
    queries = [("M", "bad_indices case_model_bad cases"), ("O", "bad_indices case_oracle_bad cases")]
    rc, cout, q, path = vlib.eval_cases(PID, tier, audcommon.HEADER % "Corr.C02", cases_v, queries, timeout=3000)
    vals = {k: vlib.parse_nat_list(v) for k, v in q.items()}
    res.coverage.update({"evaluations": summary["cases"], "distinct_nontrivial": summary["distinct_nontrivial"],
                         "rule": "generated audiences x event histories", "samples": summary["samples"][:2],
                         "distribution": summary["stats"]})
    if rc != 0 or any(v is None for v in vals.values()):
        res.violation(None, "correspondence cases did not evaluate", {"kind": "cases-eval", "output": cout[-6000:]}, no_input=True)
        return res.finish()
    print("M", vals["M"][:20], len(vals["M"]), "O", vals["O"][:20], len(vals["O"]))
    for idx in vals["O"][:3]:
        c = cases[idx]
        res.violation("tbd", "oracle", {"kind": "failing-input", "config": c["Cfg"], "events": c["Events"], "outs": c["Result"]["Outs"]})
    for idx in vals["M"][:3]:
        c = cases[idx]
        res.violation(None, "model", {"kind": "corr", "config": c["Cfg"], "events": c["Events"], "outs": c["Result"]["Outs"], "err": c["Result"]["AuditErr"]}, no_input=True)
    return res.finish()
