"""C02 — activation periods are judged independently and are always closed."""
import concurrent.futures
import json

import vlib
from checks import audcommon

PID = "C02"
THEOREMS = ["c02_periods_independent_and_well_formed", "c02_every_period_closed",
            "c02_periods_closed_even_when_aborted",
            "c02_period_follows_condition", "c02_stale_condition_is_a_no_op",
            "c02_nothing_outside_periods"]

BITS = [(1, "period-starts-stops-do-not-alternate"), (2, "period-not-closed-at-end-of-play"),
        (4, "report-outside-every-period"), (8, "period-not-judged-by-fresh-evaluator-with-one-end-judgement"),
        (16, "periods-are-not-the-stretches-where-the-condition-holds"), (32, "audition-crashed")]
SIG_PRED = "verdicts-of-a-period-differ-from-the-modality-over-its-observations"

ASSUMPTIONS = [
    "govaluate is modelled by Model/Expr.v for the generated expression subset (constants, variables, [actor signal], comparison, && || !, + - *, the array/scalar functions); float64 is modelled by exact rationals, compared with 1e-9 relative tolerance (1/50 absolute in the final round, whose time stamp is the wall clock)",
    "member names are distinct (the parser keys the audience by name)",
    "samples reach the audition only for signals with a sink (detectSignals' a.sinks lookup), which the harness reproduces through the hook VerifSinks",
    "channel sends to the collector never block / are never cancelled in the model (the hook uses a large buffer); cancellation is C07's subject",
    "theorem c02_every_period_closed assumes the audition was not aborted by an evaluation error (an aborted audition stops visiting auditors, in the code as in the model)",
    "the oracle treats an audition as cut short only when the model, which stops exactly on a failing activation condition or computes/collects clause, stops too: an implementation that stops without such a cause is held to the closed-periods rule",
    "observation rule for predicates over a variable the auditor computes as a signal (read off the implementation and confirmed on every run): once the variable has a value the predicate is observed in every round the auditor takes part in, including the opening round and both rounds of the closing mood change; periods open at the end of the play are not judged for this shape",
]


def classify(code):
    return [name for bit, name in BITS if code & bit]


def eval_shard(args):
    tag, cases_v = args
    queries = [("M", "bad_indices case_model_bad cases"),
               ("OC", "map case_oracle_code cases"),
               ("PO", "bad_indices2 case_pred_oracle_bad 0 cases case_preds")]
    rc, cout, q, path = vlib.eval_cases(PID, tag, audcommon.HEADER % "Corr.C02", cases_v, queries, timeout=3000)
    return rc, cout, {k: vlib.parse_nat_list(v) for k, v in q.items()}, path


def split_cases(cases_v, nshards, preds=None):
    """cases.v holds one `Definition cases : list aud_case := [ a; b; ... ].`
    with one element starting per line with '{| k_cfg'."""
    head, _, body = cases_v.partition(":= [\n")
    body = body.rsplit("\n]", 1)[0]
    items = body.split(";\n  {| k_cfg")
    items = [items[0].strip()] + ["{| k_cfg" + x for x in items[1:]]
    shards = []
    per = (len(items) + nshards - 1) // nshards
    for i in range(0, len(items), per):
        chunk = items[i:i + per]
        pchunk = (preds or ["[]"] * len(items))[i:i + per]
        shards.append((i, "Definition cases : list aud_case := [\n  " + ";\n  ".join(chunk) + "\n].\n"
                          "Definition case_preds : list (list (string * cond_shape * pred_shape)) := [\n  " + ";\n  ".join(pchunk) + "\n].\n"))
    return shards


def run(tier, seed):
    res = vlib.Result(PID, tier, seed, level="proof")
    res.assumptions = ASSUMPTIONS
    ok, detail = vlib.proof_stage(res, "C02", THEOREMS)
    if not ok:
        res.violation(None, "proof obligations of C02 broken: %s" % detail.get("broken"),
                      {"kind": "proof-obligation", "detail": detail}, no_input=True)
        return res.finish()
    bins, ok = audcommon.prepare(res, ["c02"])
    if not ok:
        return res.finish()
    r = audcommon.run_harness(res, bins["c02"], tier, seed)
    if r is None:
        return res.finish()
    cases_v, cases, summary = r
    nshards = 1 if tier == "quick" else 14
    preds = getattr(res, "preds_lines", None)
    shards = split_cases(cases_v, nshards, preds)
    M, OC, PO = [], [], []
    with concurrent.futures.ThreadPoolExecutor(max_workers=nshards) as ex:
        results = list(ex.map(eval_shard, [("%s%d" % (tier, i), sv) for i, (off, sv) in enumerate(shards)]))
    for (off, _), (rc, cout, vals, path) in zip(shards, results):
        if rc != 0 or vals.get("M") is None or vals.get("OC") is None or vals.get("PO") is None:
            res.violation(None, "correspondence cases did not evaluate (shard at %d)" % off,
                          {"kind": "cases-eval", "output": cout[-6000:]}, no_input=True)
            return res.finish()
        M += [off + i for i in vals["M"]]
        OC += vals["OC"]
        PO += [off + i for i in vals["PO"]]
    res.coverage.update({
        "evaluations": summary["cases"], "distinct_nontrivial": summary["distinct_nontrivial"],
        "rule": "generated audiences (1-3 auditors; activation: none/throughout/mood-based/signal-based/t-based/arbitrary boolean; predicates over signals only or also t/mood/moodt/computed variables; every accepted modality; collects/computes chains in 1 of 5) x event histories (0-24 events: mood changes incl. repeated moods, samples with repeated values and equal time stamps, then the end of the play), all through the real checkEvent/checkEventForAuditor/checkFinal via the hook; non-trivial = distinct (config, history) with >= 3 events and >= 2 reports",
        "samples": summary["samples"][:2],
        "distribution": summary["stats"],
        "traces_validated_against_impl": summary["cases"],
    })
    bad_oracle = [(i, c) for i, c in enumerate(OC) if c]
    seen = set()
    for i, code in bad_oracle:
        for sig in classify(code):
            if sig in seen:
                continue
            seen.add(sig)
            c = cases[i]
            res.violation(sig, "audition violates the period specification (%s)" % sig,
                          {"kind": "failing-input", "config": c["Cfg"], "events": c["Events"],
                           "outputs": c["Result"]["Outs"], "audit_err": c["Result"]["AuditErr"],
                           "panic": c["Result"]["Panic"], "oracle_bits": classify(code),
                           "replay": "cmd.VerifAudition(config, events, false, false)"})
    if PO:
        c = cases[PO[0]]
        res.violation(SIG_PRED, "the result codes an auditor reported in one of its activation periods are not those of its modality run afresh over the observations of that period (the rounds that sample the predicate's signal between the round that opens the period and the round that closes it): %d of %d histories" % (len(PO), len(cases)),
                      {"kind": "failing-input", "config": c["Cfg"], "events": c["Events"],
                       "outputs": c["Result"]["Outs"], "audit_err": c["Result"]["AuditErr"],
                       "replay": "cmd.VerifAuditLoop(config, events, false)"})
    res.coverage["observation_oracle"] = {"auditors_judged": summary["stats"].get("pred-oracle-auditors", 0), "failures": len(PO)}
    if not res.violations and not res.known and M:
        c = cases[M[0]]
        res.violation(None, "model (Model/Audit.v) and implementation disagree on %d of %d histories while the period oracle passes: correspondence case_model_bad broken" % (len(M), len(cases)),
                      {"kind": "correspondence", "n_disagreements": len(M), "config": c["Cfg"], "events": c["Events"],
                       "outputs": c["Result"]["Outs"], "audit_err": c["Result"]["AuditErr"]}, no_input=True)
    res.coverage["disagreements"] = {"model_vs_impl": len(M), "oracle_failures": len(bad_oracle)}
    return res.finish()
