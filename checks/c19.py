"""C19 — the plot script shows exactly the data that was collected
(DESIGN.md section 6, C19)."""
import json
import os
import shutil
import tempfile

import vlib

PID = "C19"
THEOREMS = [
    "c19_plot_matches_spec", "c19_one_time_axis_with_margin", "c19_range_covers_collected",
    "c19_action_lanes", "c19_member_boxes", "c19_curve_styles", "c19_events_on_their_own_lane",
    "c19_mood_periods_recorded", "c19_mood_bands", "c19_every_mood_period_a_band",
    "c19_act_lines", "c19_every_later_act_a_line", "c19_zoom_iff_repeat", "c19_zoom_same_boxes",
]
HEADER = ("From Shk Require Import Base.Prelude Model.Plot Model.PlotSpec Corr.C19.\n"
          "Local Open Scope Z_scope.\n")
QUERIES = [
    ("Mplot", "bad_indices plot_model_bad plot_cases"),
    ("Oplot", "bad_indices plot_oracle_bad plot_cases"),
    ("Mcollect", "bad_indices plot_model_bad collect_cases"),
    ("Ocollect", "bad_indices plot_oracle_bad collect_cases"),
    ("Mmood", "bad_indices mood_model_bad mood_cases"),
    ("Omood", "bad_indices mood_oracle_bad mood_cases"),
    ("Me2e", "bad_indices e2e_model_bad e2e_cases"),
    ("Oe2e", "bad_indices e2e_oracle_bad e2e_cases"),
]

# Which clause of the oracle fails on a plot case: evaluated only for the first
# failing case, to give the violation a narrow signature.
PARTS = [
    ("range", "range_ok (pc_raw c) (o_min (pc_obs c)) (o_max (pc_obs c))"),
    ("time-axis-or-boxes", "script_ok 0 (pc_data c) (o_min (pc_obs c)) (o_max (pc_obs c)) (o_main (pc_obs c))"),
    ("bands-or-act-lines", "overlays_ok (pc_data c) (o_min (pc_obs c)) (o_max (pc_obs c)) (o_main (pc_obs c))"),
    ("zoomed-plot", "match spec_repeat_start (pc_repeat_act c) (c_acts (pc_data c)), o_last (pc_obs c) with "
                    "| Some s, Some ds => script_ok 0 (pc_data c) s (o_max (pc_obs c)) ds && overlays_ok (pc_data c) s (o_max (pc_obs c)) ds "
                    "| None, None => true | _, _ => false end"),
    ("lanes", "list_eqb (pair_eqb bytes_eqb Z.eqb) (lanes_of (o_main (pc_obs c))) (mapi (fun i nm => (nm, Z.of_nat i + 1)) (lane_names (pc_data c)))"),
    ("boxes", "list_eqb (pair_eqb bytes_eqb (list_eqb (pair_eqb bytes_eqb cstyle_eqb))) (boxes_of (o_main (pc_obs c))) (map box_view (shown_members (pc_data c)))"),
    ("margin", "match xranges (o_main (pc_obs c)) with [(a, b)] => (a =? 20 * o_min (pc_obs c) - (o_max (pc_obs c) - o_min (pc_obs c))) && (b =? 20 * o_max (pc_obs c) + (o_max (pc_obs c) - o_min (pc_obs c))) | _ => false end"),
]


def diagnose(tier, cases_v, idx, lst="plot_cases"):
    qs = [("P%d" % i, "match nth_error %s %d with Some c => if (%s) then [] else [1%%N] | None => [2%%N] end" % (lst, idx, expr))
          for i, (_, expr) in enumerate(PARTS)]
    rc, out, q, _ = vlib.eval_cases(PID, tier + "_diag", HEADER, cases_v, qs, timeout=1200)
    failed = []
    for i, (name, _) in enumerate(PARTS):
        v = vlib.parse_nat_list(q.get("P%d" % i))
        if v:
            failed.append(name)
    return failed


def run(tier, seed):
    res = vlib.Result(PID, tier, seed, level="proof")
    res.assumptions = [
        "the theorem relates two descriptions of the same loops (Model/Plot.v: transcription of subPlots/plot/assemble/mood bookkeeping; Model/PlotSpec.v: filters over the collected data); the tie to plot.go is the per-run correspondence, which carries most of the detection value",
        "times are integers in microseconds; float64 rounding and %f formatting are not modelled: generated time stamps are multiples of 10 ms, windows have a margin that is a whole number of microseconds, and no time stamp lies exactly on a clipping boundary",
        "collected states given to the hook satisfy the collector's invariant observer.hasData = (some watched variable has data or the auditor has data); the order in which one expression's signals become watched (a Go map iteration) is avoided by generating at most one signal per expression",
        "gnuplot itself is not run: the property is about the script; that gnuplot draws what the directives say is outside the check",
        "end-to-end plays: collected state reconstructed from the presence of csv files, range and repeat section from result.js, expected band colours and number of act lines from the generated script; margin tolerance 3 us",
    ]
    ok, detail = vlib.proof_stage(res, "C19", THEOREMS)
    if not ok:
        res.violation(None, "proof obligations of C19 broken: %s" % detail.get("broken"),
                      {"kind": "proof-obligation", "detail": detail}, no_input=True)
        return res.finish()
    names = ["c19", "shakespeare"]
    try:
        bins = vlib.build_bins(names)
    except vlib.BuildError as e:
        res.violation(None, "harness does not build against the current tree",
                      {"kind": "correspondence-build", "what": e.what, "output": e.output[-4000:]}, no_input=True)
        return res.finish()
    out = tempfile.mkdtemp(prefix="shk-c19-")
    try:
        cmd = [bins["c19"], "-seed", str(seed), "-tier", tier, "-out", out]
        cmd += ["-bin", bins["shakespeare"]]
        rc, o = vlib.run(cmd, timeout=2400)
        if rc != 0:
            res.violation(None, "harness crashed (or the generator and the parser disagree about the configurations)",
                          {"kind": "harness-crash", "output": o[-4000:]}, no_input=True)
            return res.finish()
        cases_v = open(os.path.join(out, "cases.v")).read()
        cases = json.load(open(os.path.join(out, "cases.json")))
        summary = json.load(open(os.path.join(out, "summary.json")))
    finally:
        shutil.rmtree(out, ignore_errors=True)
    rc, cout, q, path = vlib.eval_cases(PID, tier, HEADER, cases_v, QUERIES, timeout=3000)
    vals = {k: vlib.parse_nat_list(v) for k, v in q.items()}
    cases["e2e"] = cases.get("e2e") or []
    e2e_done = [e for e in cases["e2e"] if not e["Err"]]
    res.coverage.update({
        "evaluations": summary["plot"] + summary["collect"] + summary["mood"] + len(e2e_done),
        "distinct_nontrivial": summary["distinct_nontrivial"],
        "exhaustive": False,
        "rule": "plot: generated configurations (0-4 actors over 1-2 roles with event/scalar/delta signals; 0-5 members declared member by member or interleaved, with watches of signals / every <role> / computed and built-in variables, measures, only helps, audits, computes, collects, expects; 0-4 acts, optional repeat from) x collected states (hasData per actor / watched variable / auditor, 0-4 mood periods incl. partly or wholly outside the window and rare infinite ends, act starts with 0-3 repetitions and early termination, collected range absent / short / negative start / normal), through the real assemble + plot + subPlots; both scripts and runme.gp parsed strictly into directives. non-trivial = distinct (configuration, state) whose script has at least one lane or one member box. collect: the same configurations (a third with an auditor that has no watches and mentions only t / mood / moodt) with the collected state PRODUCED BY THE REAL COLLECTOR: generated action reports, observations (of watched signals, watched and built-in variables) and audition reports are fed through the real collectActionReport / collectObservation / collectAuditionReport (expandTimeRange included), then the real assemble + plot run; the expected state is derived from the events alone (verdicts count as received data), and every '../csv/...' file the scripts name must be one the collector wrote. mood: random mood-change sequences (incl. unchanged moods, clear, out-of-order time stamps) through the real collectAndAuditMood/checkFinal, and half as many mood / act histories sent over an unbuffered channel to the real audit() loop, ended by terminate{}, by cancellation of its context or by the stopper quiescing (often while a mood is in force). The collector-produced cases also carry mood changes, a third of them with a tail of nothing but mood changes (the range must contain them). e2e (6 plays quick, 12 thorough): plays through the real binary, each with an auditor whose only data are verdicts; one template ends in a tail of mood changes after the first second, one is fouled with -S while a mood is in force (exit status 1, still plotted: the band of the cut period must be there).",
        "samples": summary["samples"],
        "distribution": dict(summary["stats"], plot_cases=summary["plot"], collect_cases=summary["collect"],
                             collect_cases_with_verdict_only_member=summary["collect_verdict_only_boxes"],
                             cases_plotting_a_missing_csv=summary["missing_csv_cases"], mood_cases=summary["mood"],
                             e2e_plays=summary["e2e"], e2e_completed=summary["e2e_completed"],
                             unusable_configurations=summary["unusable_configurations"]),
        "traces_validated_against_impl": summary["plot"] + summary["collect"] + summary["mood"] + len(e2e_done),
        "cases_file": path,
    })
    if rc != 0 or any(v is None for v in vals.values()):
        res.violation(None, "correspondence cases did not evaluate",
                      {"kind": "cases-eval", "output": cout[-4000:]}, no_input=True)
        return res.finish()
    # ---- oracle failures: failing inputs of the property
    if vals["Oplot"]:
        idx = vals["Oplot"][0]
        c = cases["plot"][idx]
        failed = diagnose(tier, cases_v, idx)
        sig = "plot-" + ("+".join(failed) if failed else "other")
        res.violation(sig, "the script written for a collected state does not show exactly that state (%s); %d of %d cases fail" %
                      (", ".join(failed) or "see replay", len(vals["Oplot"]), summary["plot"]),
                      {"kind": "failing-input", "failed_clauses": failed, "n_failing": len(vals["Oplot"]),
                       "input": {"cfg": c["Cfg"], "data": c["Data"], "repeat_act": c["RepeatAct"]},
                       "observed": {"MinTime": c["Out"]["MinTime"], "MaxTime": c["Out"]["MaxTime"], "HasRepeat": c["Out"]["HasRepeat"],
                                    "RepeatStart": c["Out"]["RepeatStart"], "files": c["Out"]["Files"]},
                       "replay": "cmd.VerifPlot(VerifPlotInput{CfgText: cfg, ...data...}) — see harness/c19/main.go runPlotCase; case index %d of seed %d" % (idx, seed)})
    if vals["Ocollect"]:
        idx = vals["Ocollect"][0]
        c = cases["collect"][idx]
        failed = diagnose(tier, cases_v, idx, "collect_cases")
        sig = "collected-" + ("+".join(failed) if failed else "other")
        res.violation(sig, "after the real collector processed a generated event history, the script does not show exactly the data received (%s); %d of %d cases fail" %
                      (", ".join(failed) or "see replay", len(vals["Ocollect"]), summary["collect"]),
                      {"kind": "failing-input", "failed_clauses": failed, "n_failing": len(vals["Ocollect"]),
                       "input": {"cfg": c["Cfg"], "events": c.get("Events", []), "repeat_act": c["RepeatAct"],
                                 "mood_periods": c["Data"]["Moods"], "act_changes": c["Data"]["Acts"]},
                       "expected_received": {k: c["Data"][k] for k in ("ActorHas", "VarHas", "AuditHas", "ObsHas")},
                       "observed": {"csv": c.get("CSV"), "MinTime": c["Out"]["MinTime"], "MaxTime": c["Out"]["MaxTime"], "files": c["Out"]["Files"]},
                       "replay": "cmd.VerifCollectAndPlotMoods(cfg, events, moods, acts, numRepeats) — see harness/c19/main.go runCollectCase; case index %d of seed %d" % (idx, seed)})
    miss = [("collect", x) for x in cases["collect"] if x.get("Missing")] + [("e2e", x) for x in e2e_done if x.get("Missing")]
    if miss:
        kind, c = miss[0]
        res.violation("plotted-csv-missing", "the plot script reads csv files the collector did not write: %s (%d cases)" % (", ".join(c["Missing"][:4]), len(miss)),
                      {"kind": "failing-input", "where": kind, "missing": c["Missing"], "csv_written": c.get("CSV"),
                       "input": {"cfg": c["Cfg"], "events": c.get("Events")}, "n_failing": len(miss),
                       "replay": "cmd.VerifCollectAndPlotMoods(cfg, events, ...) resp. the real binary on cfg; compare the '../csv/...' names in plots/*.gp with the csv directory"})
    loop_errs = [m for m in cases["mood"] if m.get("Err")]
    if loop_errs:
        res.violation("audit-loop", "the real audit() loop did not process a generated mood / act history: %s" % loop_errs[0]["Err"][:300],
                      {"kind": "failing-input", "input": loop_errs[0], "n_failing": len(loop_errs),
                       "replay": "cmd.VerifMoodLoop(events, actNums, final, endBy)"})
    if vals["Omood"]:
        c = cases["mood"][vals["Omood"][0]]
        via = (" (through the real audit() loop, ended by %s)" % c["EndBy"]) if c.get("EndBy") else ""
        res.violation("mood-periods" + ("-loop-" + c["EndBy"] if c.get("EndBy") else ""),
                      "the recorded mood periods are not the maximal non-clear stretches of the mood changes" + via,
                      {"kind": "failing-input", "input": c, "n_failing": len(vals["Omood"]),
                       "replay": "cmd.VerifMoodBook(events, final) resp. cmd.VerifMoodLoop(events, actNums, final, endBy)"})
    if vals["Oe2e"]:
        c = e2e_done[vals["Oe2e"][0]]
        res.violation("e2e-plot", "a play through the real binary wrote a plot script that does not match its csv files / result.js (%s)" % c["Name"],
                      {"kind": "failing-input", "input": c["Cfg"], "csv": c["CSV"], "result": c["Result"], "files": c["Files"],
                       "expect": c["Expect"], "n_failing": len(vals["Oe2e"]),
                       "replay": "shakespeare -q -o out play.cfg (cwd = directory of play.cfg), compare out/latest/plots/*.gp with out/latest/csv"})
    if not res.violations and not res.known:
        for name, key, pool in (("Mplot", "plot", cases["plot"]), ("Mcollect", "collect", cases["collect"]),
                                ("Mmood", "mood", cases["mood"]), ("Me2e", "e2e", e2e_done)):
            if vals[name]:
                c = pool[vals[name][0]]
                res.violation(None, "model and implementation disagree on a %s case (property oracle passes): correspondence %s broken" % (key, name),
                              {"kind": "correspondence", "query": name, "n_disagreements": len(vals[name]), "first": c},
                              no_input=True)
        if len(e2e_done) < max(1, summary["e2e"] // 2):
            res.violation(None, "fewer than half of the end-to-end plays completed",
                          {"kind": "harness-crash", "errors": [e["Err"][:500] for e in cases["e2e"] if e["Err"]]}, no_input=True)
    res.coverage["disagreements"] = {k: len(v) for k, v in vals.items()}
    return res.finish()
