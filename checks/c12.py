"""C12 — results land in one run directory, kept or erased as documented
(DESIGN.md section 6, C12)."""
import json
import os
import shutil
import tempfile

import vlib

PID = "C12"
THEOREMS = [
    "c12_latest_resolves", "c12_latest_text", "c12_latest_always_replaced", "c12_latest_resolves_nosub_partial", "c12_all_under_rundir",
    "c12_artifacts_survive_iff", "c12_rundir_erased_iff", "c12_upload_implies_clear",
    "c12_rundir_erased_general", "c12_foul_flag_is_exit_status", "c12_range_contains",
    "c12_listed_tree_is_what_survives", "c12_second_run_same_id_refused", "c12_later_run_keeps_latest",
]
HEADER = ("From Shk Require Import Base.Prelude Model.Dirs Corr.C12.\n"
          "From Coq Require Import Strings.String.\nOpen Scope Z_scope.\n")
QUERIES = [
    ("Mclean", "bad_indices clean_model_bad clean_cases"),
    ("Mjoin", "bad_indices join_model_bad join_cases"),
    ("Mabs", "bad_indices abs_model_bad abs_cases"),
    ("Mlink", "bad_indices link_model_bad link_cases"),
    ("Olink", "bad_indices link_oracle_bad link_cases"),
    ("Mrange", "bad_indices range_model_bad range_cases"),
    ("Orange", "bad_indices range_oracle_bad range_cases"),
    ("Mtree", "bad_indices tree_model_bad tree_cases"),
    ("Otree", "bad_indices tree_oracle_bad tree_cases"),
    ("Mduo", "bad_indices duo_model_bad duo_cases"),
    ("Oduo", "bad_indices duo_oracle_bad duo_cases"),
    ("Mplay", "bad_indices play_model_bad play_cases"),
    ("Oplay", "bad_indices play_oracle_bad play_cases"),
    ("OplayCode", "map play_oracle_code (filter play_oracle_bad play_cases)"),
]

CODES = {
    1: ("written-outside-run-directory", "something was written outside <output-dir>/<run id> and <output-dir>/latest"),
    2: ("latest-does-not-resolve", "<output-dir>/latest does not resolve to the run directory"),
    3: ("artifacts-survival", "the artifacts directory survives iff (fouled or -k) is violated"),
    4: ("run-directory-erasure", "the run directory is erased iff (--clear or upload URL) and no foul is violated"),
    5: ("result-js-unreadable", "result.js is missing or is not `var result = ` + one JSON document"),
    6: ("foul-flag-vs-exit-status", "result.js Foul differs from (exit status != 0)"),
    7: ("time-range-misses-a-recorded-time", "a time recorded in csv/* lies outside [MinTime, MaxTime]"),
    8: ("artifact-tree-names-missing-file", "the artifact tree of result.js names a file that does not exist"),
    9: ("plot-script-names-missing-file", "a plot script names a data file or script that does not exist"),
    11: ("surviving-file-not-in-artifact-tree", "a file left in the run directory is not named in result.js's artifact tree"),
    10: ("exit-status-vs-foul", "the exit status does not tell whether the play was fouled"),
}


def play_signature(p, code):
    sig, what = CODES.get(code, ("other", "oracle code %d" % code))
    if code == 2 and p.get("Prior"):
        sig, what = "latest-not-refreshed-after-earlier-run", (
            "after an earlier run into the same output directory (%s), <output-dir>/latest does not resolve to the new run directory" % p["Prior"])
    elif code == 2 and not os.path.isabs(p["DataDir"]) and p["DataDir"] != ".":
        sig = "relative-output-dir-dangling-latest"
    if code == 8 and all(m.endswith("/pipe1") for m in p.get("MissingArtifacts") or ["x"]):
        sig = "artifact-tree-names-removed-fifo"
    if code == 9 and p.get("Repeat") and p.get("Fouled") and p.get("FoulKind") == "early":
        sig = "plot-script-loads-missing-lastplot"
    if code == 1 and p.get("Upload") and p.get("BlankDir"):
        sig = "upload-command-unquoted-output-dir"
    return sig, what


def play_replay(p):
    prior = ""
    if p.get("Prior"):
        prior = "first: shakespeare -q --disable-plots %s-o %s prior.cfg (the same configuration made clean)%s; sleep 1.1; then: " % (
            "--clear " if p["Prior"] == "cleared" else "", p["DataDir"], "; rm -r the run directory" if p["Prior"] == "deleted" else "")
    return (prior + "cd <empty dir>/cwd; write the configuration to play.cfg; PATH=<dir with a fake scp>:$PATH HOME=<empty> TMPDIR=<empty> "
            "shakespeare %s ; then inspect %s/<run id>, %s/latest, result.js, csv/*, plots/*.gp" %
            (" ".join("'%s'" % a if " " in a else a for a in p["Args"]), p["DataDir"], p["DataDir"]))


def run(tier, seed):
    res = vlib.Result(PID, tier, seed, level="proof")
    res.assumptions = [
        "the theorems are about Model/Dirs.v: prepare_dirs (prepareDirs), run_end (the deferred functions of run(), LIFO), assemble_range (expandTimeRange + assemble), written (the filepath.Join(cfg.dataDir, ...) sites, listed by hand)",
        "filepath.Clean/Join/Abs/Rel/Dir and the kernel's resolution of a symbolic link are re-implemented in the model ('..' resolved lexically: no other symbolic link on the way) and compared with the real ones on every run, not verified",
        "observed only, by walking the file system after real plays: nothing appears outside <output-dir>/<run id> and <output-dir>/latest (inside a private root holding cwd, HOME and TMPDIR), every path of result.js's artifact tree and every data file / loaded script named in plots/*.gp exists, result.js is `var result = ` followed by exactly one JSON document (it is JavaScript, as report.html needs it)",
        "times: csv files print 4 decimals, so containment in [MinTime, MaxTime] is checked with a tolerance of 0.00005 s; times not written to any csv (mood changes) are only covered by the hook-level range cases",
        "no failure after the play (plot, result files, upload) in the survival / exit-status statements except where the theorem says otherwise; gnuplot is absent here (a warning, not an error); the upload is exercised with a fake scp",
        "the run id is the wall-clock second: a second run into the same output directory within the same second is refused (Mkdir: file exists), which the duo cases pin; they depend on timing (start of a second, 1.3 s overlap) and are retried up to 6 times, a duo whose timing could not be achieved says nothing (counted in the distribution)",
    ]
    ok, detail = vlib.proof_stage(res, "C12", THEOREMS)
    if not ok:
        res.violation(None, "proof obligations of C12 broken: %s" % detail.get("broken"),
                      {"kind": "proof-obligation", "detail": detail}, no_input=True)
        return res.finish()
    try:
        bins = vlib.build_bins(["c12", "shakespeare"])
    except vlib.BuildError as e:
        res.violation(None, "harness does not build against the current tree",
                      {"kind": "correspondence-build", "what": e.what, "output": e.output[-4000:]}, no_input=True)
        return res.finish()
    out = tempfile.mkdtemp(prefix="shk-c12-")
    try:
        rc, o = vlib.run([bins["c12"], "-seed", str(seed), "-tier", tier, "-out", out, "-bin", bins["shakespeare"]], timeout=3000)
        if rc != 0:
            res.violation(None, "harness crashed", {"kind": "harness-crash", "output": o[-4000:]}, no_input=True)
            return res.finish()
        cases_v = open(os.path.join(out, "cases.v")).read()
        cases = json.load(open(os.path.join(out, "cases.json")))
        summary = json.load(open(os.path.join(out, "summary.json")))
    finally:
        shutil.rmtree(out, ignore_errors=True)
    rc, cout, q, path = vlib.eval_cases(PID, tier, HEADER, cases_v, QUERIES, timeout=3000)
    vals = {k: vlib.parse_nat_list(v) for k, v in q.items()}
    n_eval = sum(summary[k] for k in ("clean", "join", "abs", "link", "range", "plays", "tree", "duos"))
    res.coverage.update({
        "evaluations": n_eval,
        "distinct_nontrivial": summary["distinct_nontrivial"],
        "rule": "plays: quick = a greedy 3-way covering array of {-k} x {--clear} x {--disable-plots} x {-q} x {fouled (by an auditor or by a failing action), clean} x {'.', out, a/b/out, absolute (with a blank)} x {repeat section, none} (every triple of factor values occurs; the seed changes the rows), thorough = all 256; plus 4 --upload-url plays with a fake scp, one probing an output directory with a blank, 6 plays (24 thorough) that follow an earlier run into the same output directory one second before (erased by --clear, deleted by hand, or kept) and 2 (8) whose repeat section is never reached because a failing action fouls act 1 (plots on). The `mk` action of every play leaves editor temporaries (copy.txt~ from cp -b, notes~, #edit#, #half~), a directory old~ with a file, a fifo, and symbolic links to a directory, to a regular file, to the fifo, to nowhere, to /etc and to itself, and writes a file into $HOME and a directory into ../ (both directly under artifacts/); in a third of the plays it also creates <run dir>/plots itself and puts a file there (plot.gp and runme.gp must still be generated when plots are enabled, and no *.gp under --disable-plots); besides `every named path exists` the oracle now asks that every file left in the run directory (but index.html / upload.log, written later, and editor temporaries / fifos, which an interrupted play leaves behind unnamed because it skips the upload step) is named. trees: 150 (2000) generated directory trees (names a.txt b~ #c# #d~ e# # ~ h~x j#~ ..., directories d~ #g# ..., regular files, symbolic links (dangling, to the containing directory, to a sibling file, to a file / directory / fifo outside the tree, to themselves), fifos and UNIX sockets in a third of them) through the real collectArtifacts and removeNonUploadableFiles (hook VerifArtifacts). 3 (12) plays are cut short by SIGINT / SIGTERM / SIGHUP sent to the shakespeare process while an action runs (treated as fouled: exit 1, Foul, artifacts kept); $GNUPLOT points at nothing, at a stand-in that, like gnuplot, opens the script, creates the `set output` files and looks up `load`ed scripts relative to its working directory (its outputs must land in <run>/plots and nowhere else), or at a program that exits 1 (4 (16) dedicated plays plus a random choice in the matrix): no effect on how a play ends. duos: 2+2 (6+6) pairs of plays into one output directory: started within the same second (the second must be refused, the first keeps its own result.js / artifacts / exit status) and overlapping (a long clean --clear play must leave the later play's `latest` alone). The audience of every play also computes a variable and watches it (csv file without an actor part, named in plot.gp). Fouls are by an auditor, by a failing action in the last (repeated) act, or by one in act 1. Spotlights emit an instant far in the future and (3 of 4) one in the past, so MinTime < 0 < 1 < MaxTime. links: the real prepareDirs for 13 forms of output directory (absolute, '.', relative, nested, './x', 'x/', 'a/../x', '../w2/x', 'a//b', with a blank, ...) x run ids (some without). ranges: lists of 0-8 instants (multiples of 1/1024 s in [-5 s, 12 s]) through the real assemble. paths: generated strings of up to 5 components from {a, b, .., ., '', 'c d', x.y, out, ...}. distinct_nontrivial = distinct plays (by factor values) + link forms + ranges of >= 2 instants.",
        "samples": summary["samples"],
        "distribution": {k: summary[k] for k in ("clean", "join", "abs", "link", "range", "plays", "tree", "trees_with_a_fifo", "duos", "duos_with_the_planned_timing", "play_distribution", "link_hook_errors")},
        "traces_validated_against_impl": summary["plays"],
        "cases_file": path,
    })
    if rc != 0 or any(v is None for v in vals.values()):
        res.violation(None, "correspondence cases did not evaluate",
                      {"kind": "cases-eval", "output": cout[-4000:]}, no_input=True)
        return res.finish()
    seen = set()
    # oracle failures = failing inputs of the property itself
    for idx, code in zip(vals["Oplay"], vals["OplayCode"]):
        p = cases["play"][idx]
        sig, what = play_signature(p, code)
        if sig in seen:
            continue
        seen.add(sig)
        detail_txt = ""
        if code == 1:
            detail_txt = ": " + ", ".join(p["Stray"][:4])
        elif code == 2:
            detail_txt = ": latest -> %r (before the run: %r), run id %s" % (p["LatestText"], p.get("AliasBefore"), p["RunID"])
        elif code == 8:
            detail_txt = ": " + ", ".join(p["MissingArtifacts"][:4])
        elif code == 9:
            detail_txt = ": " + ", ".join(p["MissingPlotFiles"][:4])
        elif code == 11:
            detail_txt = ": " + ", ".join(p["UnnamedSurvivors"][:4])
        elif code == 7:
            detail_txt = ": MinTime %d ns, MaxTime %d ns, times %s" % (p["MinNs"], p["MaxNs"], p["TimesNs"])
        res.violation(sig, "shakespeare %s (%s play, exit %d): %s%s" % (
            " ".join(p["Args"]), "fouled" if p["Fouled"] else "clean", p["Exit"], what, detail_txt),
            {"kind": "failing-input", "play": p, "replay": play_replay(p)})
    for idx in vals["Olink"]:
        c = cases["link"][idx]
        sig = "latest-does-not-resolve"
        if not os.path.isabs(c["DataDir"]) and os.path.normpath(c["DataDir"]) != ".":
            sig = "relative-output-dir-dangling-latest"
        if sig in seen:
            continue
        seen.add(sig)
        res.violation(sig, "prepareDirs with output directory %r (run id %r) from %s: latest -> %r %s" % (
            c["DataDir"], c["Sub"], c["Cwd"], c["Text"],
            ("resolves to " + c["Resolved"]) if c["Resolves"] else "is dangling"),
            {"kind": "failing-input", "input": c, "expected": c["RunDir"],
             "replay": "cd %s; cmd.VerifScriptsFull('', %r, %r); readlink / stat <output-dir>/latest" % (c["Cwd"], c["DataDir"], c["Sub"])})
    for idx in vals["Oduo"]:
        d = cases["duo"][idx]
        if d["SameSecond"]:
            sig = "second-run-in-the-same-second-not-refused"
            what = ("two plays started within one second into output directory kind %d: the second one (clean, actor bob) exits %d with %d run director%s; "
                    "the first one (fouled, actor alice) exits %d; its directory holds its own results only: %s. %s" % (
                        d["DirKind"], d["ExitB"], d["NRuns"], "y" if d["NRuns"] == 1 else "ies", d["ExitA"], d["AOwn"], d["Note"]))
            replay = "at the start of a second: shakespeare -q --disable-plots -o out a.cfg & sleep 0.15; shakespeare -q --disable-plots -o out b.cfg & wait (a.cfg: actor alice, action `echo evidence >evidence.txt; sleep 0.5; false`; b.cfg: actor bob, action `echo b >b.txt; sleep 1.2`)"
        else:
            sig = "latest-not-the-later-run-after-overlap"
            what = ("a long clean --clear play overlapping a later, shorter play in one output directory (kind %d): afterwards latest leads to the later run's directory: %s, "
                    "the earlier run's directory is gone: %s, exits %d / %d. %s" % (d["DirKind"], d["LatestToB"], d["AGone"], d["ExitA"], d["ExitB"], d["Note"]))
            replay = "shakespeare -q --disable-plots --clear -o out a.cfg & sleep 1.3; shakespeare -q --disable-plots -o out b.cfg; wait; readlink / ls out/latest (a.cfg: action `sleep 2.6`; b.cfg: action `sleep 0.1`)"
        if sig in seen:
            continue
        seen.add(sig)
        res.violation(sig, what, {"kind": "failing-input", "duo": d, "replay": replay})
    for idx in vals["Otree"][:1]:
        c = cases["tree"][idx]
        gone = [x for x in c["Listed"] if x not in (c["Survived"] or [])]
        unnamed = [x for x in (c["Survived"] or []) if x not in (c["Listed"] or [])]
        sig = "artifact-tree-vs-surviving-files"
        if c["HasOther"] and gone and not unnamed:
            sig = "artifact-tree-names-removed-fifo"
        if sig in seen:
            continue
        seen.add(sig)
        res.violation(sig,
                      "collectArtifacts lists %s which removeNonUploadableFiles then deletes; it leaves %s unlisted" % (gone, unnamed),
                      {"kind": "failing-input", "input": c,
                       "replay": "build the tree in an empty directory d (reg = file, sym = symlink, dir = directory); cmd.VerifArtifacts(d)"})
    for idx in vals["Orange"][:1]:
        c = cases["range"][idx]
        res.violation("time-range-misses-an-instant", "assemble gives [%d, %d]/1024 s for instants %s/1024 s" % (c["Min"], c["Max"], c["Ts"]),
                      {"kind": "failing-input", "input": c, "replay": "cmd.VerifAssembleRange([t/1024 for t in Ts])"})
    if not res.violations and not res.known:
        for name, key in (("Mplay", "play"), ("Mduo", "duo"), ("Mtree", "tree"), ("Mlink", "link"), ("Mrange", "range"), ("Mclean", "clean"), ("Mjoin", "join"), ("Mabs", "abs")):
            if vals[name]:
                c = cases[key][vals[name][0]]
                res.violation(None, "model and implementation disagree on a %s case (property oracle passes): correspondence %s broken" % (key, name),
                              {"kind": "correspondence", "query": name, "n_disagreements": len(vals[name]), "first": c},
                              no_input=True)
                break
    res.coverage["disagreements"] = {k: len(v) for k, v in vals.items() if k != "OplayCode"}
    return res.finish()
