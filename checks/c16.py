"""C16 — log entries survive formatting, decoding, rotation and GC
(DESIGN.md section 6, C16)."""
import concurrent.futures
import json
import os
import re
import shutil
import tempfile

import vlib

PID = "C16"
THEOREMS = [
    "c16_decode_format", "c16_decode_concat", "c16_header_like_text_harmless",
    "c16_rotation_lossless", "c16_rotation_lossless_after_flush", "c16_flush_leaves_nothing_buffered",
    "c16_sync_mode_writes_through", "c16_rotation_gc_history", "c16_reopen_same_name_appends",
    "c16_gc_keeps_newest", "c16_gc_keeps_only_within_bound", "c16_gc_incl", "c16_gc_keeps_current",
    "c16_extended_program_name_not_listed", "c16_gc_other_programs_untouched", "c16_gc_own_files",
    "c16_gc_other_loggers_unchanged", "c16_gc_ignores_host_user_pid",
]
REFUTED = ["c16_round_trip_refuted"]
HEADER = ("From Shk Require Import Base.Prelude Model.LogCodec Model.LogRotate Corr.C16.\n"
          "Open Scope Z_scope.\n")
LISTS = [("codec_cases", "codec_case", "codec"), ("raw_cases", "raw_case", "raw"),
         ("probe_cases", "codec_case", "probe"), ("hist_cases", "hist_case", "hist"),
         ("multi_cases", "multi_case", "multi"), ("api_cases", "api_case", "api"),
         ("fetch_cases", "fetch_case", "fetch")]
QUERIES = [
    ("Mfmt", "bad_indices fmt_model_bad codec_cases", "codec"),
    ("Mdec", "bad_indices dec_model_bad codec_cases", "codec"),
    ("Ocodec", "bad_indices codec_oracle_bad codec_cases", "codec"),
    ("Mraw", "bad_indices raw_model_bad raw_cases", "raw"),
    ("Mpfmt", "bad_indices fmt_model_bad probe_cases", "probe"),
    ("Mpdec", "bad_indices dec_model_bad probe_cases", "probe"),
    ("Oprobe", "bad_indices codec_oracle_bad probe_cases", "probe"),
    ("Mhist", "bad_indices hist_model_bad hist_cases", "hist"),
    ("Ohist", "bad_indices hist_oracle_bad hist_cases", "hist"),
    ("Oloss", "bad_indices hist_lossless_bad hist_cases", "hist"),
    ("Mmulti", "bad_indices multi_model_bad multi_cases", "multi"),
    ("Omulti", "bad_indices multi_oracle_bad multi_cases", "multi"),
    ("Oapi", "bad_indices api_bad api_cases", "api"),
    ("Ofetch", "bad_indices fetch_bad fetch_cases", "fetch"),
]
KNOWN_SIG = "goroutine0-file-digits-space"


def split_cases(text):
    """cases.v -> {list name: [item text, ...]} (one element per line)."""
    res, cur = {}, None
    for line in text.split("\n"):
        m = re.match(r"Definition (\w+) : list \w+ := (.*)$", line)
        if m:
            cur = m.group(1)
            res[cur] = []
            if m.group(2).strip() == "[].":
                cur = None
            continue
        if cur is None:
            continue
        s = line.strip()
        if s == "].":
            cur = None
        elif s:
            res[cur].append(s[:-1] if s.endswith(";") else s)
    return res


def plan_shards(lists, nshards):
    """Distribute the items of every list over nshards shards so that the shards
    have about the same amount of text (the cost is parsing): largest item
    first into the lightest shard.  Returns {list name: [[original index, ...] per shard]}."""
    load = [0] * nshards
    plan = {name: [[] for _ in range(nshards)] for name, _, _ in LISTS}
    allitems = [(len(it), name, i) for name, _, _ in LISTS for i, it in enumerate(lists.get(name, []))]
    for size, name, i in sorted(allitems, key=lambda x: (-x[0], x[1], x[2])):
        k = min(range(nshards), key=lambda j: (load[j], j))
        load[k] += size
        plan[name][k].append(i)
    for name in plan:
        for k in range(nshards):
            plan[name][k].sort()
    return plan


def shard_text(lists, plan, k):
    parts = []
    for name, typ, _ in LISTS:
        items = [lists[name][i] for i in plan[name][k]]
        body = "[\n  " + ";\n  ".join(items) + "\n]" if items else "[]"
        parts.append("Definition %s : list %s := %s.\n" % (name, typ, body))
    return "\n".join(parts)


def eval_sharded(tier, lists, nshards, timeout):
    """Evaluate the queries on nshards size-balanced shards in parallel; return
    ({query: sorted original indices} or None on failure, output tail)."""
    plan = plan_shards(lists, nshards)
    qlist = {q: key for q, _, key in QUERIES}
    keyname = {key: name for name, _, key in LISTS}

    def one(k):
        return vlib.eval_cases(PID, "%s_%d" % (tier, k), HEADER, shard_text(lists, plan, k),
                               [(q, e) for q, e, _ in QUERIES], timeout=timeout)
    vals = {q: [] for q, _, _ in QUERIES}
    bad_out = None
    with concurrent.futures.ThreadPoolExecutor(max_workers=nshards) as ex:
        for k, (rc, out, qres, _path) in enumerate(ex.map(one, range(nshards))):
            for q, _, _ in QUERIES:
                v = vlib.parse_nat_list(qres.get(q))
                if rc != 0 or v is None:
                    bad_out = out[-4000:]
                    continue
                idx = plan[keyname[qlist[q]]][k]
                vals[q].extend(idx[i] for i in v)
    if bad_out is not None:
        return None, bad_out
    return {q: sorted(v) for q, v in vals.items()}, ""


# ---- signatures (naming only; the verdicts are the Coq oracles')

def _ambiguous(file_b):
    i = 0
    while i < len(file_b) and 48 <= file_b[i] <= 57:
        i += 1
    return i > 0 and i + 1 < len(file_b) and file_b[i] == 32


def _b(x):
    import base64
    return base64.b64decode(x) if x else b""


def _proj(e):
    return (e["Sev"], tuple(e["Civil"]), e["Gid"], _b(e["FileB"]), e["Line"], _b(e["MsgB"]))


def codec_signature(c):
    """The known finding exactly: every input entry is decoded to itself, except
    that an entry with goroutine 0 and a file name '<digits> <more>' comes back
    as goroutine <digits>, file '<more>' — and at least one such entry exists."""
    ins, outs = c["In"] or [], c["Out"] or []
    if c["Err"] != 0 or len(ins) != len(outs):
        return "roundtrip-other"
    seen = False
    for a, b in zip(ins, outs):
        pa, pb = _proj(a), _proj(b)
        if pa == pb:
            continue
        f = pa[3]
        if pa[2] == 0 and _ambiguous(f):
            i = f.index(b" ")
            want = (pa[0], pa[1], int(f[:i]), f[i + 1:], pa[4], pa[5])
            if pb == want:
                seen = True
                continue
        return "roundtrip-other"
    return KNOWN_SIG if seen else "roundtrip-other"


def hist_signature(c, lossless_bad):
    if lossless_bad:
        return "rotation-readback-not-exactly-once-in-order"
    snaps, ops = c["Snaps"] or [], c["Ops"]
    si, pending = 0, []
    prev = sorted(({"Stamp": p["Stamp"], "Size": p["Size"], "Ids": p["Ids"]} for p in (c.get("Planted") or [])),
                  key=lambda f: f["Stamp"])
    for o in ops:
        if o["Op"] == "log":
            pending.append(o["Id"])
        elif o["Op"] in ("snap", "peek", "gc"):
            if si >= len(snaps):
                return "history-other"
            sn = snaps[si] or []
            si += 1
            if o["Op"] in ("snap", "peek"):
                ids = [i for f in sn for i in (f["Ids"] or [])]
                pids = [i for f in prev for i in (f["Ids"] or [])]
                if ids != pids + pending:
                    return "rotation-readback-not-exactly-once-in-order"
                st = [f["Stamp"] for f in sn]
                if any(a >= b for a, b in zip(st, st[1:])):
                    return "file-timestamps-not-increasing"
            else:
                bound = o["Arg"]
                if prev and (not sn or sn[-1]["Stamp"] != prev[-1]["Stamp"]):
                    return "gc-deleted-newest"
                kept = {f["Stamp"] for f in sn}
                total = 0
                for j, f in enumerate(reversed(prev)):
                    total += f["Size"]
                    if j > 0 and f["Stamp"] in kept and not total < bound:
                        return "gc-kept-beyond-bound"
                return_other = [f for f in sn if f["Stamp"] not in {p["Stamp"] for p in prev}]
                if return_other:
                    return "gc-history-other"
            prev, pending = sn, []
    if c.get("HasFetch"):
        last = snaps[-1] if snaps else []
        if (c.get("Fetch") or []) != [i for f in (last or []) for i in (f["Ids"] or [])]:
            return "fetch-entries-mismatch"
    return "gc-history-other"


def multi_signature(c):
    """Name what went wrong in a history of several loggers in one directory."""
    snaps, si = c["Snaps"] or [], 0
    nprog = len(c["Progs"])
    prev = [sorted(({"Stamp": p["Stamp"], "Size": p["Size"], "Ids": p["Ids"]} for p in (c.get("Planted") or []) if p["Prog"] == i),
                   key=lambda f: f["Stamp"]) for i in range(nprog)]
    pend = [[] for _ in range(nprog)]
    key = lambda fs: [(f["Stamp"], f["Size"], f["Ids"] or []) for f in (fs or [])]
    ids = lambda fs: [i for f in (fs or []) for i in (f["Ids"] or [])]
    for o in c["Ops"]:
        if o["Op"] == "log":
            pend[o["Lg"]].append(o["Id"])
        elif o["Op"] in ("snap", "gc"):
            if si >= len(snaps):
                return "shared-directory-other"
            sn = snaps[si]
            si += 1
            for i in range(nprog):
                v = sn[i]
                if any(x != i for x in (v["Listed"] or [])) or len(v["Listed"] or []) != len(v["Files"] or []):
                    return "listing-not-exactly-own-program"
            for i in range(nprog):
                fs = sn[i]["Files"]
                if o["Op"] == "gc" and i != o["Lg"] and key(fs) != key(prev[i]):
                    return "gc-touched-another-program"
                if o["Op"] == "gc" and i == o["Lg"]:
                    if prev[i] and (not fs or fs[-1]["Stamp"] != prev[i][-1]["Stamp"]):
                        return "gc-deleted-newest"
                    kept, total = {f["Stamp"] for f in (fs or [])}, 0
                    for j, f in enumerate(reversed(prev[i])):
                        total += f["Size"]
                        if j > 0 and f["Stamp"] in kept and not total < o["Arg"]:
                            return "gc-kept-beyond-bound"
                if o["Op"] == "snap" and ids(fs) != ids(prev[i]) + pend[i]:
                    return "rotation-readback-not-exactly-once-in-order"
            prev = [sn[i]["Files"] or [] for i in range(nprog)]
            if o["Op"] == "snap":
                pend = [[] for _ in range(nprog)]
    if c.get("HasFetch") and (c.get("Fetch") or []) != ids(prev[0]):
        return "fetch-entries-mismatch"
    return "shared-directory-other"


def run(tier, seed):
    res = vlib.Result(PID, tier, seed, level="proof")
    res.assumptions = [
        "civil time <-> int64 nanoseconds (time.Unix(0,ns).UTC().Date()/Clock(), time.Parse(...).UnixNano()) is outside the model: the harness converts with the real time package on both sides",
        "bufio.Scanner's buffer is not modelled: the model's split sees the whole remaining input; true of the real decoder as long as an entry plus the header of the next fits in bufio.MaxScanTokenSize (65536 bytes); generated entries stay below 21 KB",
        "regexp, time.Parse, strconv.Atoi and strings.TrimSpace are modelled by hand-written functions (match_at, time_ok, span_digits, trim_space) and exercised by the cases, incl. perturbed streams; a multi-byte rune matched by the regexp's unescaped '.' is outside the model",
        "the harness process runs with time.Local set to a fixed non-UTC zone (offset chosen by the seed, in distribution.local_zone_offset_s) and converts with .UTC() itself",
        "close + re-open: the model follows a name collision with the newest file only; the harness closes a file only while its name is not ahead of the wall clock (after several rotations within one second the names run ahead; probed on the real code: a re-open then writes into / creates an older-named file and read-back order breaks - corpus/C16/reopen-names-ahead-of-clock.json; only reachable through closeFileLocked = test-scope helper or verif hook, never from shakespeare; not generated)",
        "buffered mode: what is in the files before a flush depends on the asynchronous flush daemon and is not compared; files are looked at right after Flush(), or without a flush only while sync mode is on",
        "rotation/GC: a message is (identifier, byte length of its formatted entry); the per-file header entries are a constant size measured by calibration at the start and re-checked at the end of the run; sizes are sizes after log.Flush(); GC runs right after a flush; file names generated by create() are assumed new",
        "header widths are constant only if the goroutine id the logger prints is: the vendored petermattis/goid (2018) reads a runtime status word on go1.23 (2, or 4098 while the GC scans the stack), so the harness runs the logger histories with the Go garbage collector off and discards+redoes a history in whose files two goroutine ids appear (count: distribution.hist_discarded_goid_glitch)",
        "the public logging calls: package fmt is outside the model (the harness computes Sprintf / Sprint itself); the message of a format without arguments is the format",
        "entries of 64 KiB or more are outside the decoder model: files holding the 256 KiB entries are decoded line by line, each line by a decoder of its own",
        "several loggers in one directory: one mstate component per program, listing = exact match of the parsed Program field, removal by (program, time stamp); host, user and pid parts of the names are those of the process",
        "planted files have distinct time stamps older than the run (sort order of equal stamps is unspecified in selectFiles)",
        "gcOldFiles lists logging.logDir (the main logger's directory) even for a secondary logger: model and harness use secondary loggers in the main logger's directory, which is the only way shakespeare creates them",
    ]
    ok, detail = vlib.proof_stage(res, "C16", THEOREMS, REFUTED)
    if not ok:
        res.violation(None, "proof obligations of C16 broken: %s" % detail.get("broken"),
                      {"kind": "proof-obligation", "detail": detail}, no_input=True)
        return res.finish()
    try:
        bins = vlib.build_bins(["c16"])
    except vlib.BuildError as e:
        res.violation(None, "harness does not build against the current tree",
                      {"kind": "correspondence-build", "what": e.what, "output": e.output[-4000:]}, no_input=True)
        return res.finish()
    out = tempfile.mkdtemp(prefix="shk-c16-")
    try:
        rc, o = vlib.run([bins["c16"], "-seed", str(seed), "-tier", tier, "-out", out], timeout=3000)
        if rc != 0:
            res.violation(None, "harness crashed / the real logger misbehaved beyond what the harness can record",
                          {"kind": "harness-crash", "output": o[-4000:]}, no_input=True)
            return res.finish()
        cases_v = open(os.path.join(out, "cases.v")).read()
        cases = json.load(open(os.path.join(out, "cases.json")))
        summary = json.load(open(os.path.join(out, "summary.json")))
    finally:
        shutil.rmtree(out, ignore_errors=True)

    lists = split_cases(cases_v)
    nshards = max(2, min(12 if tier == "quick" else 16, vlib.NCPU))
    vals, bad_out = eval_sharded(tier, lists, nshards, 3000)
    n_eval = summary["codec"] + summary["raw"] + summary["probe"] + summary["hist"] + summary["multi"] + summary["api"]
    res.coverage.update({
        "evaluations": n_eval,
        "distinct_nontrivial": summary["distinct_nontrivial"],
        "rule": ("codec: sequences of 1-6 (sometimes 60) random entries inside the round-trip guards, through the real Entry.Format and NewEntryDecoder: "
                 "boundary instants (2000-01-01, last microsecond of 2068, leap days, month ends, microsecond 0/999999, sub-microsecond remainders), goroutine 0 / MaxInt64, "
                 "file names with spaces, dots, digits, tabs, non-ASCII, header-like and colon-bearing messages, near-white-space bytes at message edges, messages longer than bufio's first buffer; "
                 "the decoder is fed through readers rotating over whole / one byte / half / data-with-EOF / k bytes per read (k from 2 to 4097); "
                 "a sweep of read boundaries over every offset of a long header (first entry of 128-off bytes, reader of 64/32/16 bytes); streams of 200-1700 small entries (up to ~70 KB, beyond bufio's 64 KiB; thorough: 5000); "
                 "file names of 80-200 bytes with nine-digit line numbers (headers of every length around 128 bytes); plus the known ambiguous shape (class witness). non-trivial = at least two entries, or a header-like message, or goroutine omitted; distinct by stream. "
                 "raw: one perturbation of a valid stream (30 kinds: separators, impossible dates, truncation, garbage, CRLF, out-of-range numbers), decoder vs model; distinct by stream. "
                 "probe: 20 kinds of entries outside the guards (white space at message edges, colon/empty/newline file names, negative numbers, years outside 2000-2068, multi-line messages), model agreement only. "
                 "hist: real main/secondary logger in a fresh directory, LogFileMaxSize in {64..4096} around the measured header size, entry sizes steered to the rotation threshold +-2 using the real syncBuffer.nbytes, "
                 "threshold changes, snapshots (flush, list, decode every file), SetSync(true) followed by a flush and a snapshot with no write in between (and SetSync(false) back), looks at the files without a flush while in sync mode, GC runs with bounds at the cumulative sizes +-1 / 0 / MaxInt64, planted older files (empty, zero-filled or holding formatted messages of their own; named after the real or after another host/user and with this or another process id in the name, so that name order and time-stamp order differ and leftovers of other processes are present), FetchEntriesFromFiles on the main logger; a third of the histories run under another user name (periods, backslashes: 'jane.doe', 'dom\\jane') and the host name with a domain, set through the hook VerifSetHostUser the way init() computes them; half of the secondary-logger histories create the logger while the main logger's file threshold is WARNING/ERROR/FATAL (flag log-file-verbosity); gc-only: planted file sets + GC; reopen: the file is closed and written to again at once (same second: create() generates the name the file already has), only while the newest name is not ahead of the clock; the model runs with the observed file time stamps as its clock. "
                 "non-trivial = at least two files at the end or a GC run; distinct by operation list. "
                 "multi: the main logger and one or two secondary loggers (the name of one a prefix of the other's, as the main logger's program name is of both) plus sometimes a program without logger whose name extends the main logger's, all in one directory, "
                 "older files of any of them planted; interleaved logging with sizes steered to each logger's threshold, GC runs of one logger with small bounds / bounds at its own cumulative sizes +-1, snapshots by scanning the directory and parsing names (not through listLogFiles), "
                 "what each logger's listLogFiles returns, FetchEntriesFromFiles at the end; non-trivial = at least two loggers wrote and a GC ran."),
        "samples": summary["samples"],
        "distribution": {k: summary[k] for k in ("codec", "codec_entries", "codec_classes", "raw", "raw_kinds", "probe",
                                                  "local_zone_offset_s", "hist", "hist_error", "hist_discarded_goid_glitch", "hist_log_ops", "hist_gc_ops", "hist_files_at_end", "fetch_windows", "hist_other_user_name", "hist_main_file_threshold_raised", "hist_buffer_sized_entry", "hist_own_directory_loggers", "api", "api_calls", "hist_close_reopen_ops", "hist_reopens_under_same_name", "codec_readers", "codec_longest_stream",
                                                  "multi", "multi_log_ops", "multi_gc_ops", "calibration")},
        "outside_guard_probes": {"kinds": summary["probe_kinds"], "real_roundtrip_failures": summary["probe_roundtrip_failures"]},
        "traces_validated_against_impl": summary["hist"] + summary["multi"],
        "shards": nshards,
    })
    if vals is None:
        res.violation(None, "correspondence cases did not evaluate",
                      {"kind": "cases-eval", "output": bad_out}, no_input=True)
        return res.finish()
    res.coverage["disagreements"] = {k: len(v) for k, v in vals.items()}

    # ---- oracle failures = failing inputs of the property itself
    seen = set()
    # report an ordinary case before one of the known-ambiguous shape
    for idx in sorted(vals["Ocodec"], key=lambda i: (cases["codec"][i]["Class"] == "witness", i)):
        c = cases["codec"][idx]
        sig = codec_signature(c)
        if sig in seen:
            continue
        seen.add(sig)
        first = next((i for i, (a, b) in enumerate(zip(c["In"] or [], c["Out"] or [])) if _proj(a) != _proj(b)), None)
        diff = ""
        if first is not None:
            a, b = c["In"][first], c["Out"][first]
            names = ("severity", "time", "goroutine", "file", "line", "message")
            fields = [n for n, x, y in zip(names, _proj(a), _proj(b)) if x != y]
            diff = ("; first difference at entry %d in %s: in sev=%d t=%s goroutine=%d file=%s line=%d msg=%s, out sev=%d t=%s goroutine=%d file=%s line=%d msg=%s"
                    % (first, "/".join(fields),
                       a["Sev"], a["Civil"], a["Gid"], a["File"], a["Line"], a["Msg"][:80],
                       b["Sev"], b["Civil"], b["Gid"], b["File"], b["Line"], b["Msg"][:80]))
        what = ("an entry that was formatted is not decoded back to itself (%d entries in, %d out, decoder status %d, stream of %d bytes read through reader '%s'%s)"
                % (len(c["In"] or []), len(c["Out"] or []), c["Err"], len(_b(c["StreamB"])), c.get("Reader", "whole"), diff))
        res.violation(sig, what, {"kind": "failing-input", "input": {"In": c["In"], "Reader": c.get("Reader", "whole")}, "formatted": c["Stream"],
                                  "decoded": c["Out"], "decoder_error": c["ErrText"],
                                  "replay": "./check C16 --replay <this file>"})
    loss = set(vals["Oloss"])
    for idx in vals["Ohist"]:
        c = cases["hist"][idx]
        sig = hist_signature(c, idx in loss)
        if sig in seen:
            continue
        seen.add(sig)
        res.violation(sig, "rotation/GC history on the real %s logger violates the property (%s)" % (c["Logger"], sig),
                      {"kind": "failing-input", "input": c, "index": idx,
                       "replay": "./check C16 --tier %s --seed %d (history %d)" % (tier, seed, idx)})
    for idx in vals["Omulti"]:
        c = cases["multi"][idx]
        sig = "shared-directory:" + multi_signature(c)
        if sig in seen:
            continue
        seen.add(sig)
        res.violation(sig, "history of several loggers in one directory (%s) violates the property (%s)" % (", ".join(c["Progs"]), sig),
                      {"kind": "failing-input", "input": c, "index": idx,
                       "replay": "./check C16 --tier %s --seed %d (multi-logger history %d)" % (tier, seed, idx)})
    for idx in vals["Oapi"][:1]:
        c = cases["api"][idx]
        res.violation("api-message-not-stored-as-given",
                      "%s with format %s and %d arguments is stored as severity %d message %s (expected severity %d, message %s)"
                      % (c["Call"], c["Format"], c["NArgs"], c["ObsSev"], c["Obs"], c["Sev"], c["Format"] if c["NArgs"] == 0 else c["Fmt"]),
                      {"kind": "failing-input", "input": c, "index": idx,
                       "replay": "go: log.%s(ctx, %s%s) then Flush and decode the log file" % (c["Call"].split("/")[0], c["Format"], ", args..." if c["NArgs"] else "")})
    for idx in vals["Ofetch"][:1]:
        c = cases["fetch"][idx]
        res.violation("fetch-from-time-mark-not-exactly-the-later-entries",
                      "FetchEntriesFromFiles(mark, max) on the real main logger returned messages %s, logged after the mark: %s" % (c.get("WinGot") or [], c.get("WinWant") or []),
                      {"kind": "failing-input", "input": c, "index": idx,
                       "replay": "./check C16 --tier %s --seed %d (fetch window %d)" % (tier, seed, idx)})
    if summary.get("hist_error") and not res.violations:
        res.violation(None, "the real loggers could not be driven (rotation/GC part of the check did not run): %s" % summary["hist_error"],
                      {"kind": "harness-hist-error", "error": summary["hist_error"]}, no_input=True)
    if not res.violations:
        # model/implementation disagreement without a property failure
        for name, key, wh in (("Mfmt", "codec", "formatter"), ("Mdec", "codec", "decoder"), ("Mraw", "raw", "decoder on perturbed streams"),
                              ("Mpfmt", "probe", "formatter outside the guards"), ("Mpdec", "probe", "decoder outside the guards"),
                              ("Mhist", "hist", "rotation/GC"), ("Mmulti", "multi", "rotation/GC of several loggers in one directory")):
            if vals[name]:
                c = cases[key][vals[name][0]]
                res.violation(None, "model and implementation disagree on the %s (property oracle passes): correspondence %s broken on %d cases" % (wh, name, len(vals[name])),
                              {"kind": "correspondence", "query": name, "n_disagreements": len(vals[name]), "first": c},
                              no_input=True)
                break
    return res.finish()


def replay(path):
    try:
        bins = vlib.build_bins(["c16"])
    except vlib.BuildError as e:
        print(e.output[-2000:])
        return 2
    rc, o = vlib.run([bins["c16"], "-replay", path], timeout=300)
    print(o)
    return rc
