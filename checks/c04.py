"""C04 — scenes run in script order, behind barriers, never ahead of the tempo
(DESIGN.md section 6, C04)."""
import json

import vlib
from checks import e2ecommon as E

PID = "C04"
THEOREMS = [
    "c04_acts_sequential", "c04_groups_sequential_with_barrier", "c04_line_order",
    "c04_not_ahead_of_tempo", "c04_wait_is_scene_wait", "c04_report_brackets_command",
]
HEADER = "From Shk Require Import Base.Prelude Model.Prompt Corr.C04.\nOpen Scope Z_scope.\n"
QUERIES = [
    ("Mtimed", "bad_indices c04_model_bad ledger_cases"),
    ("Omask", "map c04_oracle_mask ledger_cases"),
]
BITS = [(1, "line-order"), (2, "barrier-or-act-order"), (4, "ahead-of-tempo"), (8, "csv-rows"),
        (16, "report-does-not-bracket-command"), (32, "incomplete-performance"), (64, "compiled-play-differs-from-script-text"),
        (128, "concurrent-lines-did-not-run-at-the-same-time")]
ASSUMPTIONS = [
    "the theorems are about the timed prompter model; that wg.Wait, time.After and exec behave as the model's max/+ is observed end-to-end (the tie), not proved",
    "non-tolerated action failures end the play and are outside the timed model (C05 covers them); mood changes are modelled (zero duration) but not generated end-to-end",
    "every inequality checked on the ledger is 'observed instant >= lower bound made of earlier observed instants': added delay (load) can only help, never break one",
    "CSV times are printed with 4 decimals: a tolerance of 100 us is applied to the bracket check; the epoch is only known to lie between the launch and the first cleanup command",
    "int64 overflow of instants is outside the model (Z)",
]


def evaluate(res, tier, seed, only=None):
    got = E.run_harness(res, "c04", tier, seed, only=only)
    if got is None:
        return None
    cases_v, cases, summary = got
    rc, cout, q, path = vlib.eval_cases(PID, tier if only is None else "replay", HEADER, cases_v, QUERIES, timeout=3000)
    vals = {k: vlib.parse_nat_list(v) for k, v in q.items()}
    if rc != 0 or any(v is None for v in vals.values()):
        res.violation(None, "correspondence cases did not evaluate",
                      {"kind": "cases-eval", "output": cout[-4000:]}, no_input=True)
        return None
    return cases, summary, vals, path


def report(res, cases, vals, seed, tier, base=0):
    seen = set()
    for idx, mask in enumerate(vals["Omask"]):
        if not mask:
            continue
        names = E.mask_names(mask, BITS)
        sig = "c04-" + "+".join(names)
        if sig in seen:
            continue
        seen.add(sig)
        c = cases[idx]
        res.violation(sig, "play %s: the ledger / CSV of the real binary violates C04: %s" % (c["Name"], ", ".join(names)),
                      E.replay_obj(PID, c, base + idx, seed, tier, {"oracle_mask": mask, "violated": names}))
    if not res.violations and not res.known and vals["Mtimed"]:
        c = cases[vals["Mtimed"][0]]
        res.violation(None, "the ledger of play %s is not a run of the timed model although the plain inequalities hold: correspondence broken" % c["Name"],
                      E.replay_obj(PID, c, base + vals["Mtimed"][0], seed, tier, {"kind": "correspondence", "n_disagreements": len(vals["Mtimed"])}),
                      no_input=True)


def run(tier, seed):
    res = vlib.Result(PID, tier, seed, level="proof")
    res.assumptions = ASSUMPTIONS
    ok, detail = vlib.proof_stage(res, "C04", THEOREMS)
    res.coverage["trusted_base"] = res.coverage.get("trusted_base", []) + E.TRUSTED_E2E
    if not ok:
        res.violation(None, "proof obligations of C04 broken: %s" % detail.get("broken"),
                      {"kind": "proof-obligation", "detail": detail}, no_input=True)
        # still look for a failing input
    got = evaluate(res, tier, seed)
    if got is None:
        return res.finish()
    cases, summary, vals, path = got
    res.coverage.update({
        "evaluations": summary["plays"],
        "distinct_nontrivial": summary["distinct_nontrivial"],
        "rule": "generated scripts: 1-3 acts x 1-4 columns ('.', single scene, a+b groups), 1-3 actors in 1-2 roles, scenes with 1-2 entails lines (actor or `every role`) of 1-3 actions, tolerated `?` failures (always / at the k-th run), repeat from / N times / time, tempo 20-200 ms, action durations 0-3 tempos, 1/3 with spotlights; run through the real binary; non-trivial = at least 2 non-empty scene groups and 2 ledger rows, distinct by script text",
        "samples": summary["samples"],
        "distribution": summary["distribution"],
        "ledger_rows_checked": sum(len(c["Obs"]["Ledger"] or []) for c in cases),
        "traces_validated_against_impl": summary["plays"],
        "cases_file": path,
        "disagreements": {"model": len(vals["Mtimed"]), "oracle": sum(1 for m in vals["Omask"] if m)},
    })
    report(res, cases, vals, seed, tier)
    return res.finish()


def replay(path):
    r = json.load(open(path))
    res = vlib.Result(PID, r.get("tier", "quick"), r.get("seed", 1))
    got = evaluate(res, r.get("tier", "quick"), r.get("seed", 1), only=r["index"])
    if got is None:
        return res.finish()
    cases, summary, vals, _ = got
    print("replayed %s: exit=%s oracle_mask=%s model_bad=%s" % (cases[0]["Name"], cases[0]["Obs"]["Exit"], vals["Omask"], vals["Mtimed"]))
    report(res, cases, vals, r.get("seed", 1), r.get("tier", "quick"), base=r["index"])
    return 1 if res.violations or res.known else 0
