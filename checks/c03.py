"""C03 — exit status and foul flag follow the documented interpretation rules."""
import concurrent.futures
import json
import os
import shutil
import subprocess
import tempfile
import time

import vlib
from checks import audcommon

PID = "C03"
THEOREMS = ["c03_collect_errors_keeps_failures", "c03_interpretation_per_pair", "c03_last_clause_wins", "c03_last_shorthand_wins",
            "c03_other_pairs_untouched", "c03_fouled_iff_documented",
            "c03_early_exit_never_changes_the_verdict", "c03_funnel_keeps_audit_verdict",
            "c03_funnel_keeps_cleanup_failure", "c03_funnel_keeps_component_errors",
            "c03_funnel_no_spurious_foul", "c03_conduct_reads_each_component_once",
            "c03_collector_cancelled_only_after_a_failure", "c03_failure_free_play_exits_by_the_verdict",
            "c03_run_keeps_every_failure", "c03_run_exit_iff_play_or_operation_failed", "c03_upload_iff_not_interrupted",
            "c03_clear_only_on_success", "c03_artifacts_removed_iff", "c03_exit_iff_funnel_error_or_operation_failed"]
REFUTED = ["c03_funnel_every_component_error_kept_refuted", "c03_pinned_code_cancelled_the_collector_refuted"]

HEADER = ("From Shk Require Import Base.Prelude Model.Verdict Corr.C03.\nFrom Coq Require Import String.\n"
          "Open Scope list_scope.\nOpen Scope string_scope.\n")

BITS = [(1, "audit-verdict-differs-from-documented-rule"), (2, "audit-verdict-differs-from-documented-rule-with-S"),
        (4, "stop-at-first-foul-changes-the-verdict")]

ASSUMPTIONS = [
    "the stream of reports fed to the collector model is the one the real audition emitted (the audition itself is C02's subject)",
    "error values are abstracted to lists of causes {cancellation, audit violation, real}; errors.Is/Unwrap on an errorCollection look at its last element (errors.go)",
    "funnel theorems quantify over every choice conduct's select statements can make (an oracle, one element per select) and over arbitrary component error values; the structure of the four stages (Model/Verdict.v stage/stage3/conduct_run) is read off conductor.go by hand, cross-checked against a second hand-written mirror in the harness, and tied to the running code by the end-to-end plays (zero-duration plays make the audition end before the spotlight supervisor reports); which error values the components actually produce is observed end-to-end, not proved",
    "directory / upload failures (run.go) are outside the funnel model; the end of run() (plot, artifacts, result.js, index.html, upload, --clear) is modelled separately in Model/RunStage.v, read off run.go by hand and tied to the code by one end-to-end play per single failing operation under the flags -k / --clear / none (which operations fail is an arbitrary function in the theorems)",
]

BASE = """role r
  :ok true
  :bad false
  :crash kill -KILL $$
  cleanup %(cleanup)s
  spotlight %(spot)s
  signal s scalar at (?P<ts_now>)s=(?P<scalar>\\d+)
end
cast
  x plays r
end
script
  tempo 60ms
  scene a entails for x: ok
  scene b entails for x: %(b)s
  storyline a.b...a
end
audience
%(aud)s
end
%(interp)s"""

# name -> (substitutions, expected non-zero exit)
E2E = {
    "clean": (dict(), False),
    "action-fails": (dict(b="bad"), True),
    "tolerated-action-fails": (dict(b="bad?"), False),
    "cleanup-fails": (dict(cleanup="false"), True),
    "second-cleanup-fails": (dict(cleanup="test ! -e ../cleaned; rc=$?; touch ../cleaned; exit $rc"), True),
    # a cleanup that fails the first time only (what it stumbles over is gone the second time) has failed
    "only-first-cleanup-fails": (dict(cleanup="test -e ../cleaned; rc=$?; touch ../cleaned; exit $rc"), True),
    "only-first-cleanup-killed-by-signal": (dict(cleanup="test -e ../cleaned || { touch ../cleaned; kill -TERM $$; }"), True),
    "spotlight-fails": (dict(spot="exit 3"), True),
    "auditor-disappointed": (dict(aud="  al expects always: [x s] < 5"), True),
    "auditor-disappointed-ignored": (dict(aud="  al expects always: [x s] < 5",
                                          interp="interpretation\n  ignore al disappointment\nend\n"), False),
    "auditor-disappointed-shorthand-ignored": (dict(aud="  al expects always: [x s] < 5",
                                                    interp="interpretation\n  ignore disappointment\nend\n"), False),
    "ignored-then-foul-upon-again": (dict(aud="  al expects always: [x s] < 5",
                                          interp="interpretation\n  ignore disappointment\n  foul upon al disappointment\nend\n"), True),
    "required-disappointment-missing": (dict(aud="  al expects always: [x s] < 50",
                                             interp="interpretation\n  require al disappointment\nend\n"), True),
    "satisfaction-foul-upon": (dict(aud="  al expects always: [x s] < 50",
                                    interp="interpretation\n  foul upon al satisfaction\nend\n"), True),
    "auditor-satisfied": (dict(aud="  al expects always: [x s] < 50"), False),
    # auditor names are identifiers in the wide sense (letters of any script)
    "unicode-auditor-disappointed-ignored": (dict(aud="  caf\u00e9 expects always: [x s] < 5",
                                                 interp="interpretation\n  ignore caf\u00e9 disappointment\nend\n"), False),
    "unicode-auditor-satisfaction-foul-upon": (dict(aud="  \u0436\u0443\u043a expects always: [x s] < 50",
                                                   interp="interpretation\n  foul upon \u0436\u0443\u043a satisfaction\nend\n"), True),
    # names are case-sensitive: a clause names the member spelled exactly so
    "capitalised-auditor-disappointed-ignored": (dict(aud="  Al expects always: [x s] < 5",
                                                     interp="interpretation\n  ignore Al disappointment\nend\n"), False),
    "capitalised-auditor-satisfaction-foul-upon": (dict(aud="  LATENCY expects always: [x s] < 50",
                                                       interp="interpretation\n  foul upon LATENCY satisfaction\nend\n"), True),
    "case-sibling-auditors-clause-for-the-capitalised-one": (dict(aud="  Lat expects always: [x s] < 5\n  lat expects always: [x s] < 50",
                                                                 interp="interpretation\n  ignore Lat disappointment\nend\n"), False),
    "case-sibling-auditors-clause-for-the-lower-case-one": (dict(aud="  Lat expects always: [x s] < 5\n  lat expects always: [x s] < 50",
                                                                interp="interpretation\n  ignore lat disappointment\nend\n"), True),
    # an auditor whose very first report is a satisfaction (and that stays satisfied)
    "first-report-is-a-satisfaction-foul-upon": (dict(aud="  al expects eventually: t >= 0",
                                                     interp="interpretation\n  foul upon al satisfaction\nend\n"), True),
    "first-report-is-a-satisfaction-required": (dict(aud="  al expects eventually: t >= 0",
                                                    interp="interpretation\n  require al satisfaction\nend\n"), False),
    # a member that `only helps` (no plot box) is judged like any other
    "only-helps-auditor-disappointed": (dict(aud="  al expects always: [x s] < 5\n  al only helps"), True),
    "only-helps-auditor-required-satisfaction-missing": (dict(aud="  al audits only while mood == 'green'\n  al expects always: [x s] < 50\n  al only helps\n  bo expects always: [x s] < 5\n  bo only helps",
                                                             interp="interpretation\n  ignore bo disappointment\n  foul upon bo satisfaction\nend\n"), True),
    "expression-error-in-expects": (dict(aud="  al expects always: mood > 3"), True),
    "expression-error-in-condition": (dict(aud="  al audits only while mood > 3\n  al expects always: [x s] < 50"), True),
    "signal-only-auditor-disappointed-at-end": (dict(aud="  al expects eventually: [x s] > 100"), True),
    # commands that do not exit but are killed by a signal are failures too
    "cleanup-killed-by-signal": (dict(cleanup="kill -KILL $$"), True),
    "second-cleanup-killed-by-signal": (dict(cleanup="test ! -e ../cleaned; rc=$?; touch ../cleaned; test $rc = 0 || kill -TERM $$"), True),
    "action-killed-by-signal": (dict(b="crash"), True),
    "tolerated-action-killed-by-signal": (dict(b="crash?"), False),
    # an auditor that never audits (its mood never occurs) is not judged, whatever it watches or requires
    "never-auditing-member-with-require-and-watches": (dict(
        aud="  al audits only while mood == 'green'\n  al expects always: [x s] < 50\n  al watches x s",
        interp="interpretation\n  require al satisfaction\n  require al disappointment\nend\n"), False),
}


# Several actors: the failing command completes AFTER the others have
# succeeded (errors are collected from concurrent commands).
MULTI = """role r
  :ok true
  :slowbad sleep 0.25; false
  cleanup %(cleanup_r)s
end
role q
  :ok true
  :slowbad sleep 0.25; false
  cleanup %(cleanup_q)s
end
cast
  x plays r
  y plays r
  z plays q
end
script
  tempo 60ms
  scene a entails for x: ok
  scene b entails for y: ok
  scene c entails for z: %(zact)s
  storyline a+b+c
end
"""
E2E_MULTI = {
    "multi-actor-clean": (dict(), False),
    "third-actor-fails-after-two-succeeded": (dict(zact="slowbad"), True),
    "third-actor-tolerated-failure": (dict(zact="slowbad?"), False),
    "slow-cleanup-of-third-actor-fails": (dict(cleanup_q="sleep 0.25; false"), True),
}
for _n, _v in E2E_MULTI.items():
    E2E[_n] = _v


# Plays that end at once (no script at all): the components finish within
# microseconds of each other, so the orders in which conduct sees them end vary
# from run to run.  The verdict must not depend on that order.
ZERO = {
    "immediate-end-disappointed": ("audience\n  bob expects always: t < 0\nend\n", True),
    "immediate-end-satisfied": ("audience\n  bob expects always: t >= 0\nend\n", False),
    "immediate-end-required-disappointment-missing": ("audience\n  bob expects always: t >= 0\nend\ninterpretation\n  require bob disappointment\nend\n", True),
    "immediate-end-disappointment-ignored": ("audience\n  bob expects always: t < 0\nend\ninterpretation\n  ignore bob disappointment\nend\n", False),
    "immediate-end-foul-upon-satisfaction": ("audience\n  bob expects always: t >= 0\nend\ninterpretation\n  foul upon bob satisfaction\nend\n", True),
}
ZERO_REPEATS = {"quick": 12, "thorough": 150}

# Evaluation errors of the audition itself (activation condition, computes) that
# reach conduct while the prompter is WAITING between scenes: no command is
# running that could fail in their place.
PLAIN = {
    "activation-error-while-the-prompter-waits": ("script\n  tempo 500ms\n  scene r mood starts red\n  storyline ..r\nend\naudience\n  alice audits only while mood > 3\n  alice expects always: mood == 'clear'\nend\n", True),
    "computes-error-midplay-while-the-prompter-waits": ("script\n  tempo 500ms\n  scene r mood starts red\n  scene c mood starts clear\n  storyline .r..c\nend\naudience\n  alice audits only while mood == 'red'\n  alice computes x as mood * 2\n  alice expects always: mood == 'red'\nend\n", True),
    "no-error-moods-only": ("script\n  tempo 300ms\n  scene r mood starts red\n  scene c mood starts clear\n  storyline .r.c\nend\naudience\n  alice audits only while mood == 'red'\n  alice expects always: t >= 0\nend\n", False),
}


# A play that is already fouled and is then asked to end with a signal: the
# verdict has to survive the signal path of runConduct too.
SIGNALLED_CFG = """role r
  :hello echo hi
end
cast
  a plays r
end
script
  tempo 1s
  scene h entails for a: hello
  storyline h..................h
end
audience
  bob expects always: t < 0
end
"""


def signalled_play(binpath, signame):
    import signal as _sig
    tmp = tempfile.mkdtemp(prefix="shk-c03-sig-")
    try:
        with open(os.path.join(tmp, "play.cfg"), "w") as f:
            f.write(SIGNALLED_CFG)
        t0 = time.time()
        p = subprocess.Popen([binpath, "-o", "out", "--disable-plots", "-q", "play.cfg"], cwd=tmp, stdout=subprocess.PIPE,
                             stderr=subprocess.STDOUT, env=dict(os.environ, SHELL="/bin/bash"))
        seen = False
        while time.time() - t0 < 15 and p.poll() is None and not seen:
            for root, _, files in os.walk(os.path.join(tmp, "out")):
                if "audit-bob.csv" in files:
                    try:
                        seen = any(len(l.split()) > 1 and l.split()[1] == "2" for l in open(os.path.join(root, "audit-bob.csv")))
                    except OSError:
                        pass
            time.sleep(0.1)
        sent = False
        if p.poll() is None and seen:
            p.send_signal(getattr(_sig, signame))
            sent = True
        try:
            out, _ = p.communicate(timeout=100)
        except subprocess.TimeoutExpired:
            p.kill()
            out, _ = p.communicate()
        return {"name": "fouled-then-" + signame, "early": False, "exit": p.returncode, "foul_seen_on_disk": seen, "signal_sent": sent,
                "expected_nonzero": True, "foul_flag": None, "wall_s": round(time.time() - t0, 2),
                "output_tail": out.decode("utf-8", "replace")[-1500:], "config": SIGNALLED_CFG}
    finally:
        shutil.rmtree(tmp, ignore_errors=True)


# --upload-url with a stand-in `scp` first on PATH (no network here): a failed
# upload, or an unsupported scheme, is a documented cause of a non-zero status,
# also when the play itself went well.
UPLOAD_CFG = """role r
  :ok true
end
cast
  x plays r
end
script
  tempo 50ms
  scene a entails for x: ok
  storyline a
end
"""
UPLOADS = {
    "upload-succeeds": ("scp://backup.example.com/plays", False, False),
    "upload-fails": ("scp://backup.example.com/plays", True, True),
    "upload-unsupported-scheme": ("ftp://backup.example.com/plays", False, True),
}


def upload_play(binpath, name):
    url, fail, expected = UPLOADS[name]
    tmp = tempfile.mkdtemp(prefix="shk-c03-up-")
    try:
        os.makedirs(os.path.join(tmp, "fakebin"))
        fake = os.path.join(tmp, "fakebin", "scp")
        with open(fake, "w") as f:
            f.write("#!/bin/sh\nif [ -n \"$FAKE_SCP_FAIL\" ]; then echo 'ssh: connect to host: Connection refused' >&2; exit 255; fi\necho \"uploaded: $*\"\nexit 0\n")
        os.chmod(fake, 0o755)
        with open(os.path.join(tmp, "play.cfg"), "w") as f:
            f.write(UPLOAD_CFG)
        env = dict(os.environ, SHELL="/bin/bash", PATH=os.path.join(tmp, "fakebin") + ":" + os.environ.get("PATH", ""))
        if fail:
            env["FAKE_SCP_FAIL"] = "1"
        t0 = time.time()
        p = subprocess.run([binpath, "-o", "out", "--disable-plots", "-q", "--upload-url", url, "play.cfg"], cwd=tmp, env=env,
                           stdout=subprocess.PIPE, stderr=subprocess.STDOUT, timeout=120, text=True, errors="replace")
        return {"name": name, "early": False, "exit": p.returncode, "expected_nonzero": expected, "foul_flag": None,
                "wall_s": round(time.time() - t0, 2), "output_tail": p.stdout[-1500:], "config": UPLOAD_CFG,
                "args": "--upload-url " + url + (" (the stand-in scp fails)" if fail else "")}
    finally:
        shutil.rmtree(tmp, ignore_errors=True)


# -r clauses are read after the configuration's own interpretation sections,
# in command-line order: the last one for a pair wins, also when it repeats an
# earlier one.
EXTRA_R = {
    "r-ignore-foul-ignore": (["ignore al disappointment", "foul upon al disappointment", "ignore al disappointment"], False),
    "r-foul-ignore-foul": (["foul upon al disappointment", "ignore al disappointment", "foul upon al disappointment"], True),
    "r-shorthand-foul-shorthand": (["ignore disappointment", "foul upon al disappointment", "ignore disappointment"], False),
    "r-ignore-only": (["ignore al disappointment"], False),
    # al is disappointed by the sample and, after the reset, satisfied by the end of the play
    "r-satisfaction-foul-ignore-foul": (["ignore al disappointment", "foul upon al satisfaction", "ignore al satisfaction", "foul upon al satisfaction"], True),
    "r-satisfaction-ignore-foul-ignore": (["ignore al disappointment", "ignore al satisfaction", "foul upon al satisfaction", "ignore al satisfaction"], False),
}


def dir_failure_play(binpath):
    """A directory operation that fails (the output directory lies under a
    regular file) is a documented cause of a non-zero status."""
    tmp = tempfile.mkdtemp(prefix="shk-c03-dir-")
    try:
        with open(os.path.join(tmp, "play.cfg"), "w") as f:
            f.write(UPLOAD_CFG)
        open(os.path.join(tmp, "blocker"), "w").close()
        t0 = time.time()
        p = subprocess.run([binpath, "-o", "blocker/out", "--disable-plots", "-q", "play.cfg"], cwd=tmp, stdout=subprocess.PIPE,
                           stderr=subprocess.STDOUT, timeout=120, text=True, errors="replace", env=dict(os.environ, SHELL="/bin/bash"))
        return {"name": "output-directory-under-a-regular-file", "early": False, "exit": p.returncode, "expected_nonzero": True, "foul_flag": None,
                "wall_s": round(time.time() - t0, 2), "output_tail": p.stdout[-1500:], "config": UPLOAD_CFG, "args": "-o blocker/out (blocker is a regular file)"}
    finally:
        shutil.rmtree(tmp, ignore_errors=True)


IMMUTABLE_CFG = """role r
  :pin touch keepme && chattr +i keepme
end
cast
  x plays r
end
script
  tempo 60ms
  scene p entails for x: pin
  storyline p
end
"""


def immutable_artifact_play(binpath):
    """After a play without foul the artifacts are erased; when that directory
    operation fails (an action left a file that cannot be removed: chattr +i,
    which needs root and a file system that supports it) the status is non-zero.
    Skipped (None) where immutable files cannot be made."""
    tmp = tempfile.mkdtemp(prefix="shk-c03-imm-")
    try:
        probe = os.path.join(tmp, "probe")
        open(probe, "w").close()
        if subprocess.run(["chattr", "+i", probe], stdout=subprocess.DEVNULL, stderr=subprocess.DEVNULL).returncode != 0:
            return None
        try:
            os.unlink(probe)
            return None            # the flag does not protect the file here
        except OSError:
            pass
        subprocess.run(["chattr", "-i", probe], stdout=subprocess.DEVNULL, stderr=subprocess.DEVNULL)
        os.unlink(probe)
        with open(os.path.join(tmp, "play.cfg"), "w") as f:
            f.write(IMMUTABLE_CFG)
        t0 = time.time()
        p = subprocess.run([binpath, "-o", "out", "--disable-plots", "-q", "play.cfg"], cwd=tmp, stdout=subprocess.PIPE,
                           stderr=subprocess.STDOUT, timeout=120, text=True, errors="replace", env=dict(os.environ, SHELL="/bin/bash"))
        pinned = any("keepme" in fs for _, _, fs in os.walk(tmp))
        if not pinned:
            return None            # the action could not pin its file: nothing to conclude
        return {"name": "artifacts-cannot-be-removed", "early": False, "exit": p.returncode, "expected_nonzero": True, "foul_flag": None,
                "wall_s": round(time.time() - t0, 2), "output_tail": p.stdout[-1500:], "config": IMMUTABLE_CFG,
                "args": "an action makes a file of its directory immutable (chattr +i): erasing the artifacts of the clean play fails"}
    finally:
        subprocess.run(["chattr", "-R", "-i", tmp], stdout=subprocess.DEVNULL, stderr=subprocess.DEVNULL)
        shutil.rmtree(tmp, ignore_errors=True)


# The collector cannot create its csv directory (the first cleanup put a regular
# file there): a failing directory operation, also when the play produces no
# data point at all.
BLOCKED_CSV = {
    "csv-directory-blocked-idle-play": ("role janitor\n  cleanup test -e ../../csv || touch ../../csv\nend\ncast\n  jan plays janitor\nend\nscript\n  tempo 100ms\n  storyline ..\nend\n", True),
    "csv-directory-blocked-moods-only": ("role janitor\n  cleanup test -e ../../csv || touch ../../csv\nend\ncast\n  jan plays janitor\nend\nscript\n  tempo 100ms\n  scene a mood starts blue\n  scene b mood ends clear\n  storyline ab\nend\n", True),
    "csv-directory-blocked-with-an-action": ("role janitor\n  cleanup test -e ../../csv || touch ../../csv\n  :sweep true\nend\ncast\n  jan plays janitor\nend\nscript\n  tempo 100ms\n  scene s entails for jan: sweep\n  storyline s\nend\n", True),
    # an actor that never acts is cleaned up at the end like the others
    "idle-actor-second-cleanup-fails": ("role r\n  :ok true\nend\nrole janitor\n  cleanup test ! -e ../cleaned-w; rc=$?; touch ../cleaned-w; exit $rc\nend\ncast\n  x plays r\n  w plays janitor\nend\nscript\n  tempo 100ms\n  scene s entails for x: ok\n  storyline s.s\nend\n", True),
    "idle-actor-clean": ("role r\n  :ok true\nend\nrole janitor\n  cleanup true\nend\ncast\n  x plays r\n  w plays janitor\nend\nscript\n  tempo 100ms\n  scene s entails for x: ok\n  storyline s.s\nend\n", False),
    # one file of the data directory cannot be created (the first cleanup left a
    # directory of that name): the audit data file of a satisfied auditor, the
    # report index, the result file, the action data file
    "audit-csv-file-blocked": ("role r\n  cleanup mkdir -p ../../csv/audit-bob.csv\n  :a true\nend\ncast\n  x plays r\nend\nscript\n  tempo .1s\n  scene a entails for x: a\n  storyline a\nend\naudience\n  bob expects always: mood == 'clear'\nend\n", True),
    "index-html-blocked": ("role r\n  cleanup mkdir -p ../../index.html\n  :a true\nend\ncast\n  x plays r\nend\nscript\n  tempo .1s\n  scene a entails for x: a\n  storyline a\nend\naudience\n  bob expects always: mood == 'clear'\nend\n", True),
    "result-js-blocked": ("role r\n  cleanup mkdir -p ../../result.js\n  :a true\nend\ncast\n  x plays r\nend\nscript\n  tempo .1s\n  scene a entails for x: a\n  storyline a\nend\naudience\n  bob expects always: mood == 'clear'\nend\n", True),
    "action-csv-file-blocked": ("role r\n  cleanup mkdir -p ../../csv/x.csv\n  :a true\nend\ncast\n  x plays r\nend\nscript\n  tempo .1s\n  scene a entails for x: a\n  storyline a\nend\naudience\n  bob expects always: mood == 'clear'\nend\n", True),
    "no-file-blocked-satisfied-auditor": ("role r\n  cleanup true\n  :a true\nend\ncast\n  x plays r\nend\nscript\n  tempo .1s\n  scene a entails for x: a\n  storyline a\nend\naudience\n  bob expects always: mood == 'clear'\nend\n", False),
    "csv-directory-free-idle-play": ("role janitor\n  cleanup true\nend\ncast\n  jan plays janitor\nend\nscript\n  tempo 100ms\n  storyline ..\nend\n", False),
}


# a cleanup command that cannot even be started (the shell named by $SHELL does
# not exist) is a failed cleanup
NOEXEC = {
    "cleanup-cannot-be-executed": ("role r\n  cleanup true\nend\ncast\n  x plays r\nend\nscript\n  tempo 50ms\n  storyline ..\nend\n", True),
}


# The end of run() under other flags (Model/RunStage.v): -k, --clear
_RS = "role r\n  cleanup %s\n  :a %s\nend\ncast\n  x plays r\nend\nscript\n  tempo .1s\n  scene a entails for x: a\n  storyline a\nend\naudience\n  bob expects always: mood == 'clear'\nend\n"
RUNFLAG = {
    "keep-artifacts-index-html-blocked": (_RS % ("mkdir -p ../../index.html", "true"), True, ["-k"]),
    "keep-artifacts-clean-play": (_RS % ("true", "true"), False, ["-k"]),
    "clear-clean-play": (_RS % ("true", "true"), False, ["--clear"]),
    "clear-result-js-blocked": (_RS % ("mkdir -p ../../result.js", "true"), True, ["--clear"]),
    "clear-failing-action": (_RS % ("true", "false"), True, ["--clear"]),
}
# play name -> (clear, keep, noplot, failing operation, the play itself failed): the model's input
RUNCASES = {
    "index-html-blocked": (False, False, True, "DWriteHtml", False),
    "result-js-blocked": (False, False, True, "DWriteResult", False),
    "no-file-blocked-satisfied-auditor": (False, False, True, None, False),
    "audit-csv-file-blocked": (False, False, True, None, True),
    "action-csv-file-blocked": (False, False, True, None, True),
    "artifacts-cannot-be-removed": (False, False, True, "DRmArtifacts", False),
    "upload-succeeds": (False, False, True, None, False),
    "upload-fails": (False, False, True, "DUpload", False),
    "upload-unsupported-scheme": (False, False, True, "DUpload", False),
    "keep-artifacts-index-html-blocked": (False, True, True, "DWriteHtml", False),
    "keep-artifacts-clean-play": (False, True, True, None, False),
    "clear-clean-play": (True, False, True, None, False),
    "clear-result-js-blocked": (True, False, True, "DWriteResult", False),
    "clear-failing-action": (True, False, True, None, True),
}


def run_cases_v(plays):
    """Coq text of the run-stage cases of the plays that ran, and the plays in that order."""
    b = lambda x: "true" if x else "false"
    items, used = [], []
    for p in plays:
        if p["name"] in RUNCASES and not p.get("early"):
            cl, kp, np_, fo, pf = RUNCASES[p["name"]]
            items.append("(%s, %s, %s, %s, %s, %s)" % (b(cl), b(kp), b(np_), "Some " + fo if fo else "None", b(pf), b(p["exit"] != 0)))
            used.append(p)
    return "Definition run_cases : list run_case := [" + ";\n  ".join(items) + "].\n", used


def run_play(binpath, name, early, keepdir=None):
    if name in RUNFLAG:
        return _run(binpath, name, early, RUNFLAG[name][0], RUNFLAG[name][1], extra_args=RUNFLAG[name][2])
    if name in NOEXEC:
        return _run(binpath, name, early, NOEXEC[name][0], NOEXEC[name][1], shell="/nonexistent/sh")
    if name in BLOCKED_CSV:
        return _run(binpath, name, early, BLOCKED_CSV[name][0], BLOCKED_CSV[name][1])
    if name in EXTRA_R:
        d = dict(cleanup="true", spot="echo s=7; sleep 30", b="ok", aud="  al expects always: [x s] < 5", interp="")
        args = []
        for r in EXTRA_R[name][0]:
            args += ["-r", r]
        return _run(binpath, name, early, BASE % d, EXTRA_R[name][1], extra_args=args)
    if name in ZERO:
        return _run(binpath, name, early, ZERO[name][0], ZERO[name][1])
    if name in PLAIN:
        return _run(binpath, name, early, PLAIN[name][0], PLAIN[name][1])
    sub, expected = E2E[name]
    if name in E2E_MULTI:
        d = dict(cleanup_r="true", cleanup_q="true", zact="ok")
        d.update(sub)
        return _run(binpath, name, early, MULTI % d, expected)
    d = dict(cleanup="true", spot="echo s=7; sleep 30", b="ok", aud="  obs watches x s", interp="")
    d.update(sub)
    return _run(binpath, name, early, BASE % d, expected)


def _run(binpath, name, early, text, expected, extra_args=(), shell="/bin/bash"):
    tmp = tempfile.mkdtemp(prefix="shk-c03-")
    try:
        cfg = os.path.join(tmp, "play.cfg")
        with open(cfg, "w") as f:
            f.write(text)
        cmd = [binpath, "-o", "out", "--disable-plots", "-q"]
        if early:
            cmd.append("-S")
        cmd += list(extra_args)
        cmd.append("play.cfg")
        t0 = time.time()
        try:
            p = subprocess.run(cmd, cwd=tmp, stdout=subprocess.PIPE, stderr=subprocess.STDOUT, timeout=120,
                               text=True, errors="replace", env=dict(os.environ, SHELL=shell))
            rc, out = p.returncode, p.stdout
        except subprocess.TimeoutExpired as e:
            rc, out = 124, (e.stdout or b"").decode("utf-8", "replace") if isinstance(e.stdout, bytes) else (e.stdout or "")
        foul = None
        for root, _, files in os.walk(os.path.join(tmp, "out")):
            if "result.js" in files:
                txt = open(os.path.join(root, "result.js")).read()
                i = txt.find("{")
                try:
                    foul = json.loads(txt[i:].rstrip().rstrip(";")).get("Foul")
                except ValueError:
                    foul = "unparsable"
        return {"name": name, "early": early, "exit": rc, "foul_flag": foul, "expected_nonzero": expected,
                "wall_s": round(time.time() - t0, 2), "output_tail": out[-1500:], "config": text}
    finally:
        shutil.rmtree(tmp, ignore_errors=True)


def run(tier, seed):
    res = vlib.Result(PID, tier, seed, level="proof")
    res.assumptions = ASSUMPTIONS
    ok, detail = vlib.proof_stage(res, "C03", THEOREMS, refuted=REFUTED)
    if not ok:
        res.violation(None, "proof obligations of C03 broken: %s" % detail.get("broken"),
                      {"kind": "proof-obligation", "detail": detail}, no_input=True)
        return res.finish()
    try:
        bins = vlib.build_bins(["c03", "shakespeare"])
    except vlib.BuildError as e:
        res.violation(None, "harness does not build against the current tree",
                      {"kind": "correspondence-build", "what": e.what, "output": e.output[-4000:]}, no_input=True)
        return res.finish()

    # ---- end-to-end plays: exit status and Foul flag per single cause, with and without -S
    jobs = [(n, e) for n in E2E for e in (False, True)]
    jobs += [(n, e) for n in PLAIN for e in (False, True)]
    jobs += [(n, e) for n in EXTRA_R for e in (False, True)]
    jobs += [(n, False) for n in BLOCKED_CSV]
    jobs += [(n, False) for n in NOEXEC]
    jobs += [(n, False) for n in RUNFLAG]
    jobs += [(n, e) for n in ZERO for e in (False, True) for _ in range(ZERO_REPEATS[tier])]
    with concurrent.futures.ThreadPoolExecutor(max_workers=12) as ex:
        sig_futures = [ex.submit(signalled_play, bins["shakespeare"], sn) for sn in ("SIGTERM", "SIGHUP", "SIGINT")]
        up_futures = [ex.submit(upload_play, bins["shakespeare"], n) for n in UPLOADS]
        up_futures.append(ex.submit(dir_failure_play, bins["shakespeare"]))
        up_futures.append(ex.submit(immutable_artifact_play, bins["shakespeare"]))
        plays = list(ex.map(lambda a: run_play(bins["shakespeare"], a[0], a[1]), jobs))
        sig_plays = [f.result() for f in sig_futures]
        plays += [r for r in (f.result() for f in up_futures) if r is not None]

    # ---- in-process: interpretation / tallies / verdict / -S through the real audition + collector
    r = audcommon.run_harness(res, bins["c03"], tier, seed)
    if r is None:
        return res.finish()
    cases_v, cases, summary = r
    queries = [("M", "bad_indices case_model_bad cases"), ("OC", "map case_oracle_code cases"),
               ("MF", "bad_indices funnel_model_bad funnel_cases"),
               ("MC", "bad_indices collect_model_bad collect_cases"),
               ("OCE", "bad_indices collect_oracle_bad collect_cases"),
               ("MR", "bad_indices run_case_bad run_cases")]
    rcv, run_plays = run_cases_v(plays)
    rc, cout, q, path = vlib.eval_cases(PID, tier, HEADER.replace("Model.Verdict ", "Model.Verdict Model.RunStage "), cases_v + rcv, queries, timeout=3000)
    vals = {k: vlib.parse_nat_list(v) for k, v in q.items()}
    res.coverage.update({
        "evaluations": summary["cases"] + len(plays), "distinct_nontrivial": summary["distinct_nontrivial"],
        "rule": "in-process: generated audiences with 0-6 interpretation clauses in two sections (auditor-less shorthand, overriding sequences, members declared after a shorthand) x event histories, each run through the real audition and the real collectAuditionReport/processAuditResult/checkAuditViolations without and with -S; non-trivial = distinct case with >= 2 reports and >= 1 interpretation clause.  end-to-end: %d plays through the real binary, one per single cause (failing action, tolerated failure, cleanup first/second time, spotlight, auditor results under each interpretation mode, expression errors) x {-S}: exit status and result.js Foul; among them %d runs of plays that end at once (no script), whose components end in varying orders" % (len(plays), len([p for p in plays if p["name"] in ZERO])),
        "samples": summary["samples"] + [{k: p[k] for k in ("name", "early", "exit", "foul_flag", "expected_nonzero")} for p in plays[:4]],
        "distribution": summary["stats"],
        "e2e_plays": [{k: p[k] for k in ("name", "early", "exit", "foul_flag", "expected_nonzero", "wall_s")} for p in plays],
        "traces_validated_against_impl": summary["cases"],
    })
    if rc != 0 or any(v is None for v in vals.values()):
        res.violation(None, "correspondence cases did not evaluate", {"kind": "cases-eval", "output": cout[-6000:]}, no_input=True)
        return res.finish()
    res.coverage["signalled_plays"] = [{k: p[k] for k in ("name", "exit", "foul_seen_on_disk", "signal_sent", "wall_s")} for p in sig_plays]
    for p in sig_plays:
        # exit status 1 = the error funnel; a play that could not be signalled in time proves nothing
        if p["signal_sent"] and p["exit"] == 0:
            res.violation("exit-status-" + p["name"], "a play that was already fouled (disappointed auditor, default interpretation) and was then told to end by %s exits 0" % p["name"].split("-")[-1],
                          {"kind": "failing-input", "play": p, "replay": "shakespeare -o out --disable-plots -q play.cfg & wait for status 2 in out/*/csv/audit-bob.csv; kill -%s $!" % p["name"].split("-")[-1][3:]})
    reported = set()
    for p in plays:
        key = (p["name"], p["early"])
        if key in reported:
            continue
        if (p["exit"] != 0) != p["expected_nonzero"] or p["exit"] not in (0, 1):
            reported.add(key)
            res.violation("exit-status-" + p["name"] + ("-S" if p["early"] else ""),
                          "play with the single cause %r%s exits %s, documented: %s" %
                          (p["name"], " (-S)" if p["early"] else "", p["exit"], "non-zero" if p["expected_nonzero"] else "0"),
                          {"kind": "failing-input", "play": p, "replay": "shakespeare -o out --disable-plots -q %splay.cfg" % ("-S " if p["early"] else "")})
        elif p["foul_flag"] is not None and p["foul_flag"] != (p["exit"] != 0) and p["name"] not in ("second-cleanup-fails", "index-html-blocked", "keep-artifacts-index-html-blocked"):  # both happen after result.js has been written
            res.violation("foul-flag-" + p["name"], "result.js Foul=%s but exit status %s" % (p["foul_flag"], p["exit"]),
                          {"kind": "failing-input", "play": p})
    seen = set()
    for i, code in enumerate(vals["OC"]):
        for bit, sig in BITS:
            if code & bit and sig not in seen:
                seen.add(sig)
                c = cases[i]
                res.violation(sig, "%s" % sig,
                              {"kind": "failing-input", "config": c["Cfg"], "events": c["Events"], "expected_interpretation": c["Expect"],
                               "full": {k: c["Full"][k] for k in ("Verdict", "GoodCounts", "BadCounts", "Errors", "HasData")},
                               "early": {k: c["Early"][k] for k in ("Verdict", "GoodCounts", "BadCounts", "Errors", "HasData", "EarlyExitAt")}})
    if vals["OCE"]:
        res.violation("collect-errors-drops-a-failure", "collectErrors returned nil although one of the concurrent results was an error (case %d of the collect cases)" % vals["OCE"][0],
                      {"kind": "failing-input", "collect_case_index": vals["OCE"][0], "replay": "cmd.VerifCollectErrors(results)", "cases_file": path})
    if not res.violations and not res.known:
        for name, what in (("MF", "conduct's error combination (combineErrors/ignCancel/errors.Is) differs from Model/Verdict.v conduct_result"),
                           ("MC", "collectErrors differs from Model/Verdict.v collect_errors")):
            if vals[name]:
                res.violation(None, "%s on %d cases" % (what, len(vals[name])),
                              {"kind": "correspondence", "query": name, "first_index": vals[name][0], "cases_file": path}, no_input=True)
    if not res.violations and not res.known and vals.get("MR"):
        pl = run_plays[vals["MR"][0]]
        res.violation(None, "the end of run() (Model/RunStage.v) and the implementation disagree on the exit status of play %r (flags, failing operation, play failed = %r): observed exit %s while the hand-written expectation passes; correspondence MR broken" % (pl["name"], RUNCASES[pl["name"]], pl["exit"]),
                      {"kind": "correspondence", "query": "MR", "play": pl, "model_input": RUNCASES[pl["name"]]}, no_input=True)
    if not res.violations and not res.known and vals["M"]:
        c = cases[vals["M"][0]]
        res.violation(None, "model (Model/Verdict.v) and implementation disagree on %d of %d cases while the documented-rule oracle passes" % (len(vals["M"]), len(cases)),
                      {"kind": "correspondence", "config": c["Cfg"], "events": c["Events"],
                       "full": {k: c["Full"][k] for k in ("Verdict", "GoodCounts", "BadCounts", "Errors", "HasData")},
                       "early": {k: c["Early"][k] for k in ("Verdict", "GoodCounts", "BadCounts", "Errors", "HasData", "EarlyExitAt")}},
                      no_input=True)
    res.coverage["disagreements"] = {"model_vs_impl": len(vals["M"]), "oracle_failures": sum(1 for x in vals["OC"] if x)}
    return res.finish()
