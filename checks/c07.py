"""C07 — every play terminates, cleans up twice, leaves no process behind
(DESIGN.md section 6, C07)."""
import json

import vlib
from checks import e2ecommon as E

PID = "C07"
THEOREMS = [
    "c07_conduct_step_bound", "c07_conduct_terminates_partial", "c07_cleanup_twice",
    "c07_no_scene_after_cancel_partial", "c07_no_survivor_in_group", "c07_redirected_command_partial",
    "c07_scene_barrier_completes", "c07_scene_collect_never_blocks",
]
REFUTED = ["c07_conduct_terminates_refuted", "c07_redirected_command_not_interruptible_refuted",
           "c07_scene_barrier_needs_refusal_done", "c07_scene_collect_needs_report_first"]
HEADER = "From Shk Require Import Base.Prelude Model.Conduct Corr.C04 Corr.C07.\nOpen Scope Z_scope.\n"
QUERIES = [
    ("Mfault", "bad_indices c07_model_bad fault_cases"),
    ("Omask", "map c07_oracle_mask fault_cases"),
    ("Ostop", "bad_indices c07_stop_oracle_bad stop_cases"),
    ("Mstop", "bad_indices c07_stop_model_bad stop_cases"),
]
BITS = [(1, "did-not-terminate-within-75s"), (2, "process-left-running"), (4, "initial-cleanup-not-once-per-actor"),
        (8, "final-cleanup-missing-or-repeated-or-unwarranted"), (16, "cleanup-order"), (32, "exit-status"), (64, "sighup-handler-got-no-grace")]
KNOWN_HANG = "running-action-or-cleanup-not-interruptible"
ASSUMPTIONS = [
    "the theorems are about the conductor LTS of Model/Conduct.v (errors abstracted to nil / cancelled / audit violation / other; a cleanup phase is one label) and the kill-protocol function cancel_cmd; process reaping, signal delivery and the wall-clock bound are OS behaviour, observed by the harness",
    "known finding running-action-or-cleanup-not-interruptible: termination and no-survivor are proved only under the hypothesis that redirected commands (actions, cleanups) end by themselves (_partial) and refuted without it (_refuted witnesses)",
    "conductor stages follow commit 19d275f (a later stage reporting nil ahead of its turn is noted - its local channel set to nil - and conduct keeps waiting: label LPick at Sel1/Sel2 with watch flags). Termination in the model = every non-scene step decreases `measure` (48) + in every reachable non-returned state an obliged label is enabled (fairness); this covers every order and value in which the four components report and every select choice, but only for the channel expressions the model transcribes: a select that names the wrong (nil) channel, as in seed C07-c1, is outside the model and is caught end-to-end (signal while an action runs)",
    "Go's select may pick the scene timer although the prompter's context is cancelled (one more scene may start): not modelled (c07_no_scene_after_cancel_partial)",
    "end-to-end: the exit status is only required where the observations themselves show the fault happened at least 0.5 s before the play could have ended by itself; the status after SIGTERM is unconstrained (SIGTERM mid-play often yields 1: the quiesce SIGHUPs the spotlights before the prompter closed termCh)",
    "a descendant of a spotlight that moved to another session (setsid) is outside what the play can signal: it is excused from the survivor count (and killed by the harness afterwards); what is required is that it does not keep the play from ending",
    "a second SIGINT during a stuck shutdown re-raises the signal: only prompt termination (within 32 s of the first signal, against the 60 s hard limit) is required of that play",
    "a signal delivered before the binary installed its handlers kills it by default action (exit -sig, nothing ran): accepted",
    "processes are found by a per-play marker variable in /proc/<pid>/environ, scanned twice 0.4 s apart after the exit; zombies are not counted",
]


def evaluate(res, tier, seed, only=None):
    got = E.run_harness(res, "c07", tier, seed, only=only, timeout=6000)
    if got is None:
        return None
    cases_v, cases, summary = got
    rc, cout, q, path = vlib.eval_cases(PID, tier if only is None else "replay", HEADER, cases_v, QUERIES, timeout=3000)
    vals = {k: vlib.parse_nat_list(v) for k, v in q.items()}
    if rc != 0 or any(v is None for v in vals.values()):
        res.violation(None, "correspondence cases did not evaluate",
                      {"kind": "cases-eval", "output": cout[-4000:]}, no_input=True)
        return None
    return cases, summary, vals, path


def report_stop(res, summary, vals):
    stops = summary.get("stop_cases") or []
    for idx in vals.get("Ostop", [])[:1]:
        sc = stops[idx]
        what = {0: "runScene on a %d-line scene with a quiescing stopper" % sc["NLines"],
                1: "prompt, termination requested when scene %d of %d is announced" % (sc["K"], sc["NScenes"]),
                2: "runScene on %d mood-only line(s), audition not receiving, context cancelled" % sc["NLines"],
                3: "prompt on mood-only scenes, audition stops receiving after %d event(s), context cancelled" % sc["K"]}[sc["Kind"]]
        res.violation("c07-prompter-wedged-when-stopper-refuses-line-tasks" if sc["Kind"] <= 1 else "c07-prompter-wedged-on-a-cancelled-mood-change",
                      "%s (storyline %s): returned=%s err=%r fired=%s after %d ms" % (
                          what, sc["Story"], sc["Res"]["Returned"], sc["Res"]["Err"][:80], sc["Res"]["Fired"], sc["Res"]["ElapsedMs"]),
                      {"kind": "failing-input", "input": sc,
                       "replay": "hook cmd.VerifRunSceneQuiescing / cmd.VerifPromptQuiesceAt(cfg, k, 20000) on the 3-scene script with this storyline (harness/c04 -prop c07)"})
    if not res.violations and vals.get("Mstop"):
        sc = stops[vals["Mstop"][0]]
        res.violation(None, "the WaitGroup model does not predict whether the real runScene/prompt returns under a quiescing stopper",
                      {"kind": "correspondence", "first": sc}, no_input=True)


def signature(c, mask, names):
    f = c["Fault"]
    # The known finding: a redirected command that never ends is not interruptible.  Without a
    # signal the play then never ends (bit 1); WITH a signal the one-minute hard limit must
    # still end it (no final cleanup, the command left running: bits 2, 8) - so after a
    # signal "did not terminate within the bound" is NOT part of the known finding.
    excused = (2 | 8 | 32) if ("sigint" in f or "sigterm" in f) else (1 | 2 | 8 | 32)
    if "hangs" in f and f != "action-hangs-two-sigints" and not (mask & ~excused):
        return KNOWN_HANG
    if f.startswith("spotlight-ignores-hup") and mask == 2:
        return "sighup-ignoring-group-member-survives"
    return "c07-%s-%s" % (f, "+".join(names))


def report(res, cases, vals, seed, tier, base=0):
    seen = set()
    for idx, mask in enumerate(vals["Omask"]):
        if not mask:
            continue
        c = cases[idx]
        names = E.mask_names(mask, BITS)
        sig = signature(c, mask, names)
        if sig in seen:
            continue
        seen.add(sig)
        o = c["Obs"]
        res.violation(sig, "play %s (fault %s at %s): %s; exit %s after %d ms, %d process(es) left"
                      % (c["Name"], c["Fault"], c["FaultPos"], ", ".join(names), o["Exit"], o["WallMs"], len(o["Survivors"] or [])),
                      E.replay_obj(PID, c, base + idx, seed, tier, {"oracle_mask": mask, "violated": names}))
    if not res.violations and vals["Mfault"]:
        # the model is wrong about a play the property's oracle accepts (or that is a known finding)
        bad = [i for i in vals["Mfault"] if not vals["Omask"][i]]
        if bad:
            c = cases[bad[0]]
            res.violation(None, "the conductor model does not predict the final cleanup / status of play %s (fault %s) although the plain-meaning oracle passes: correspondence broken" % (c["Name"], c["Fault"]),
                          E.replay_obj(PID, c, base + bad[0], seed, tier, {"kind": "correspondence", "n_disagreements": len(bad)}),
                          no_input=True)


def run(tier, seed):
    res = vlib.Result(PID, tier, seed, level="proof")
    res.assumptions = ASSUMPTIONS
    ok, detail = vlib.proof_stage(res, "C07", THEOREMS, refuted=REFUTED)
    res.coverage["trusted_base"] = res.coverage.get("trusted_base", []) + E.TRUSTED_E2E
    if not ok:
        res.violation(None, "proof obligations of C07 broken: %s" % detail.get("broken"),
                      {"kind": "proof-obligation", "detail": detail}, no_input=True)
    got = evaluate(res, tier, seed)
    if got is None:
        return res.finish()
    cases, summary, vals, path = got
    res.coverage.update({
        "evaluations": summary["plays"],
        "distinct_nontrivial": summary["distinct_nontrivial"],
        "rule": "one play of the 3-scene script `abc ..........` (2 actors, 2 spotlights, 1 auditor) per (fault kind, position / instant): none; action fails at a/b/c; spotlight fails at 0/130/260 ms; spotlight ignores SIGHUP (leader / child / background child); cleanup fails 1st / 2nd time; audit foul with -S at a/b/c; expression error with / without -S; SIGINT / SIGTERM at 7 instants; SIGINT / SIGTERM while a 3 s action runs (cast with / without spotlights); a spotlight whose leader ignores SIGHUP with the play ended by SIGINT / SIGTERM; -S foul during a long action with a chatty spotlight; the real runScene / prompt under a quiescing stopper and on mood-only lines with a dead audition and a cancelled context (hooks); a no-actor play of mood-only scenes with 400 auditors fouled under -S; a command that never ends (sleep 300) while the play is stopped by SIGINT / SIGTERM / a failing peer / a failing spotlight / a foul, and a cleanup that never ends 1st / 2nd time (quick: a random subset of positions and instants, 2 of the never-ending ones); non-trivial = every injected fault; distinct by (fault, position)",
        "samples": summary["samples"],
        "distribution": summary["distribution"],
        "traces_validated_against_impl": summary["plays"],
        "cases_file": path,
        "max_wall_ms": max(c["Obs"]["WallMs"] for c in cases),
        "disagreements": {"model": len(vals["Mfault"]), "oracle": sum(1 for m in vals["Omask"] if m)},
    })
    res.coverage["stopper_refusal_cases"] = len(summary.get("stop_cases") or [])
    report_stop(res, summary, vals)
    report(res, cases, vals, seed, tier)
    return res.finish()


def replay(path):
    r = json.load(open(path))
    res = vlib.Result(PID, r.get("tier", "quick"), r.get("seed", 1))
    got = evaluate(res, r.get("tier", "quick"), r.get("seed", 1), only=r["index"])
    if got is None:
        return res.finish()
    cases, summary, vals, _ = got
    o = cases[0]["Obs"]
    print("replayed %s: exit=%s wall=%dms cleanups=%d survivors=%s oracle_mask=%s model_bad=%s" % (
        cases[0]["Name"], o["Exit"], o["WallMs"], len(o["Cleanups"] or []), o["Survivors"], vals["Omask"], vals["Mfault"]))
    report(res, cases, vals, r.get("seed", 1), r.get("tier", "quick"), base=r["index"])
    return 1 if res.violations or res.known else 0
