"""C11 — collected and computed variables hold exactly what the clauses say;
the array and scalar functions return the mathematically defined result
(DESIGN.md section 6, C11)."""
import concurrent.futures
import json
import os
import shutil
import tempfile

import vlib
from checks import audcommon

PID = "C11"
THEOREMS = [
    "c11_first_spec", "c11_last_spec", "c11_top_spec", "c11_bottom_spec",
    "c11_sort_desc_is_the_stable_descending_sort", "c11_sort_asc_is_the_stable_ascending_sort",
    "c11_any_split_into_periods", "c11_collected_never_nil",
    "c11_computes_latest", "c11_assignment_skipped_without_dependencies",
    "c11_computes_step", "c11_collects_step",
    "c11_assignment_sets_and_activates", "c11_visible_same_round", "c11_later_member_reads_it",
    "c11_not_visible_to_earlier", "c11_next_round_starts_from_it", "c11_round_is_prelude_then_visits",
    "c11_kept_across_periods",
    "c11_collected_over_any_rounds", "c11_computed_over_any_rounds", "c11_events_are_rounds",
    "c11_collected_variable_end_to_end", "c11_computed_variable_end_to_end",
    "c11_sum_spec", "c11_sum_is_the_sum", "c11_avg_spec", "c11_min_spec", "c11_max_spec",
    "c11_med_spec", "c11_qsort_sorts", "c11_numeric_functions_ignore_nil", "c11_empty_input",
    "c11_all_nil_input", "c11_numeric_functions_refuse_strings",
    "c11_count_partial", "c11_first_partial", "c11_last_partial", "c11_sorted_partial", "c11_vsort_sorts",
    "c11_abs_spec", "c11_floor_spec", "c11_ceil_spec", "c11_round_spec", "c11_scalar_functions_of_nil",
]
REFUTED = ["c11_count_refuted", "c11_first_refuted", "c11_last_refuted", "c11_sorted_refuted"]

KNOWN_NIL = "nil-element-in-array-argument"
CHAIN_BITS = [(1, "collected-variable-final-value-wrong"), (2, "collected-variable-observed-value-wrong"),
              (4, "variable-changed-without-assignment"), (32, "variable-changed-without-assignment"),
              (8, "audition-crashed"), (16, "audition-aborted-without-a-refused-value")]

QUERIES = [
    ("Mc", "bad_indices collect_model_bad collect_cases"),
    ("Oc", "bad_indices collect_oracle_bad collect_cases"),
    ("Mf", "bad_indices fn_model_bad fn_cases"),
    ("Of", "map fn_oracle_code fn_cases"),
    ("Me", "bad_indices expr_model_bad expr_cases"),
    ("Oe", "map expr_oracle_code expr_cases"),
    ("Ma", "bad_indices assign_model_bad assign_cases"),
    ("Oa", "bad_indices assign_oracle_bad assign_cases"),
    ("Mh", "bad_indices chain_model_bad chain_cases"),
    ("Oh", "map chain_oracle_code chain_cases"),
]

ASSUMPTIONS = [
    "float64 is modelled by exact rationals (Q): the generated values are small dyadic numbers on which the code's arithmetic is exact; avg and med (the inexact ones) are compared within 1e-9 relative; rounding, NaN, infinities and -0 are outside the model",
    "govaluate is modelled by Model/Expr.v for the generated expression subset (constants, variables, [actor signal], comparison, + - * /, function calls with the separator-built argument list incl. a single array argument spread and a single nil argument dropped)",
    "sort.Sort / sort.Float64s are represented by insertion sorts (Model/Functions.v vsort, qsort); sort.Sort is not stable, so the generator never puts a boolean and the number it converts to (0/1) into one `sorted` argument list",
    "+Inf / -Inf / NaN flowing through collects / computes are compared by the harness's Go reference (harness/c11/nonfinite.go), not in Coq; a non-finite RESULT of an array function on finite arguments is reported as a failure",
    "log and sqrt are not modelled, ndiff is judged by the oracle only, tuple values (a, b) are outside Model/Expr.v and judged by the Go reference harness/c11/tuples.go (irrational results); the property's 'scalar functions' are covered for abs, floor, ceil, round",
    "the end-to-end theorems (c11_collected_variable_end_to_end, c11_computed_variable_end_to_end) are about histories that run to their end without an evaluation error; for aborted histories the statement over arbitrary round sequences (c11_collected_over_any_rounds) applies up to the aborting round; 'the values its expression produced while its auditor was active' is the executable definition produced_rounds of Model/FunctionsSpec.v (dependency gates, activation incl. the closing round, declaration order)",
    "member names are distinct (the parser keys the audience by name); samples reach the audition only for signals with a sink (reproduced through the hook VerifSinks)",
]

RULE = ("(1a) value sequences of 0-30 values (a pool of 2-5 small dyadic numbers -> many ties, booleans, nil, in 1 of 5 sequences also strings, rarely arrays) fed one by one to the real collectFns[first|last|top|bottom] with N in 1..5, every intermediate array compared (and every array handed out earlier re-checked for modification); "
        "(1b) argument arrays of 0-12 such values (also with strings / nested arrays) to the real evalFunctions[count first last sorted sum avg average med median min max] and the scalar functions abs floor ceil round on [], [nil], [x], [bool], [x,y], [string] incl. .5 ties; "
        "(1c) expressions (function calls with 0-3 arguments among array variables, an empty array, numbers, [x s], nil-valued calls such as first(e), nested calls, arithmetic / comparison around them) through the real compileExpr + (*audition).evalExpr; "
        "(1d) the real processAssignments of an auditor with 1-3 computes/collects clauses called 3-14 times, before each call the input variables set (numbers, booleans, strings, arrays incl. the empty one, so that first(q)/max(q) are nil in the middle of the sequence) or left de-activated (dependency gate), 7 of 10 with input-only expressions (oracle: the real evaluator's value of each expression), the others with clauses over earlier targets; "
        "(1e) the clause-level tie: single collects clauses whose count is written with leading zeros (010, 0012, 09, 007, 08, 019, 0100 ... and random %0*d spellings of 1..20; every count in the other generated configurations is also written with leading zeros one time in three) must be accepted and keep the DECIMAL count of values (run N+4 times through the real processAssignments), a count of 0 / 00 must be refused, and no generated configuration may be refused by the parser; "
        "(1f) non-finite values as ordinary values, judged by the harness in Go (the model's rationals cannot hold them) against a reference written from the plain meaning: value sequences with +Inf/-Inf/NaN through the real collectFns; clause lists over 1 / q1, -1 / q1, q2 / q1, q1 (q1 = 0 or +Inf in some calls) plus count/max/min of the collected array through the real processAssignments, every call compared; audiences (`al audits throughout`, clauses over 1 / [x s], -1 / [x s], [y s] / [x s], a second member computing max/min/count of the array, an observer) through the real audition with zero samples: final values and the observations of every computes variable (NaN-free cases: first/last positional, top/bottom = sort of the extended reals + truncation, computes = latest value; cases with NaN pin what the unchanged code does: NaN inserted in front by top/bottom since >= / <= are false on it, every assignment of NaN observed since DeepEqual(NaN, NaN) is false); "
        "(1g) computed arrays: `computes v1 as ([x s], 2, 3)` (tuples of 2-6 elements built with the comma operator), variables extending them `(v1, 14)`, calls passing them with an extra argument `max(v1, 100)`, and a second member (declared after or before the first) reading them through sum/last/count/max/first, through the real audition; judged in Go against the plain meaning (values are immutable: final value and observations of every variable are those its own clause gives for the samples); the expression model has no tuple value; "
        "(1h) ndiff / normalized_difference on references of both signs, nil, wrong arity and non-numbers, judged by the oracle only (|x - y| / |y|; no statement for a zero reference); "
        "(2) audiences of 2-4 auditors (activation none/throughout/mood-based/signal-based) with 2-6 collects/computes clauses, each either over signals only or over variables defined earlier in the file by ANY member (so later members read earlier members' variables in the same round and earlier members read later members' variables one round late), an observer watching most variables, histories of 1-3 on-phases (mood red and x above the threshold) through the real audition via cmd.VerifAudition; "
        "plus the fixed corpus (witnesses of the refuted statements, past failures). "
        "distinct = by printed Coq term; non-trivial = collect: more values than N+1; function: >= 2 arguments; expression: >= 2 calls; processAssignments: >= 2 clauses and >= 5 calls; chain: >= 3 observations of computed/collected variables and >= 2 activation periods")


def eval_shard(args):
    tag, cases_v = args
    rc, cout, q, path = vlib.eval_cases(PID, tag, audcommon.HEADER % "Corr.C11", cases_v, QUERIES, timeout=3000)
    return rc, cout, {k: vlib.parse_nat_list(v) for k, v in q.items()}, path


def run_one(bins, tier, seed, shard, nshards):
    out = tempfile.mkdtemp(prefix="shk-c11-")
    try:
        rc, o = vlib.run([bins["c11"], "-seed", str(seed), "-tier", tier, "-out", out,
                          "-shard", str(shard), "-nshards", str(nshards)], timeout=3000)
        if rc != 0:
            return None, o
        return (open(os.path.join(out, "cases.v")).read(),
                json.load(open(os.path.join(out, "cases.json"))),
                json.load(open(os.path.join(out, "summary.json")))), o
    finally:
        shutil.rmtree(out, ignore_errors=True)


def chain_sigs(code):
    sigs = []
    for bit, name in CHAIN_BITS:
        if code & bit and name not in sigs:
            sigs.append(name)
    return sigs


def run(tier, seed):
    res = vlib.Result(PID, tier, seed, level="proof")
    res.assumptions = ASSUMPTIONS
    ok, detail = vlib.proof_stage(res, "C11", THEOREMS, refuted=REFUTED)
    if not ok:
        res.violation(None, "proof obligations of C11 broken: %s" % detail.get("broken"),
                      {"kind": "proof-obligation", "detail": detail}, no_input=True)
        return res.finish()
    bins, ok = audcommon.prepare(res, ["c11"])
    if not ok:
        return res.finish()
    nshards = 1 if tier == "quick" else 28
    workers = min(nshards, 14)
    with concurrent.futures.ThreadPoolExecutor(max_workers=workers) as ex:
        runs = list(ex.map(lambda i: run_one(bins, tier, seed, i, nshards), range(nshards)))
    for r, o in runs:
        if r is None:
            res.violation(None, "harness crashed", {"kind": "harness-crash", "output": o[-4000:]}, no_input=True)
            return res.finish()
    with concurrent.futures.ThreadPoolExecutor(max_workers=workers) as ex:
        evals = list(ex.map(eval_shard, [("%s%d" % (tier, i), r[0]) for i, (r, _) in enumerate(runs)]))

    totals = {"collect": 0, "fn": 0, "expr": 0, "assign": 0, "chain": 0}
    nontriv, stats = 0, {}
    n_model = dict.fromkeys(totals, 0)
    n_oracle = dict.fromkeys(totals, 0)
    seen = set()
    unexplained = []
    for shard, ((r, _), (rc, cout, vals, path)) in enumerate(zip(runs, evals)):
        cases_v, cases, summary = r
        if rc != 0 or any(vals.get(q) is None for q, _ in QUERIES):
            res.violation(None, "correspondence cases did not evaluate (shard %d)" % shard,
                          {"kind": "cases-eval", "output": cout[-6000:]}, no_input=True)
            return res.finish()
        for k in ("collect", "fn", "expr", "assign", "chain"):
            totals[k] += summary[k]
        nontriv += summary["distinct_nontrivial"]
        for k, v in summary["stats"].items():
            stats[k] = stats.get(k, 0) + v
        if shard == 0:
            res.coverage["samples"] = summary["samples"]

        def report(sig, text, obj):
            if sig in seen:
                return
            seen.add(sig)
            obj = dict(obj)
            obj.setdefault("kind", "failing-input")
            obj["shard"] = shard
            res.violation(sig, text, obj)

        # ---- oracle failures: failing inputs of the property itself
        bad = {"collect": set(vals["Oc"]), "fn": set(), "expr": set(), "assign": set(vals["Oa"]), "chain": set()}
        for i in vals["Oc"]:
            c = cases["collect"][i]
            sig = "collect-modifies-an-array-handed-out-earlier" if not c["AliasOK"] else "collect-%s-wrong-array" % c["Mode"]
            report(sig, "collectFns[%s] with N=%d does not hold the %s %d values of the sequence" % (c["Mode"], c["N"], c["Mode"], c["N"]),
                   {"input": c, "replay": "cmd.VerifC11Collect(mode, a, n, x) folded over Xs from the empty array"})
        for i, code in enumerate(vals["Of"]):
            if not code:
                continue
            bad["fn"].add(i)
            c = cases["fn"][i]
            if code == 1:
                report(KNOWN_NIL, "%s(%s) = %s: nil elements of the argument array are counted / returned" % (c["Name"], c["Args"], c["Val"]),
                       {"input": c, "replay": "cmd.VerifC11Func(name, args)"})
            else:
                report("function-%s-wrong-result" % c["Name"], "%s(%s) = %s (%s) is not the mathematically defined result" % (c["Name"], c["Args"], c["Val"], c["Kind"]),
                       {"input": c, "replay": "cmd.VerifC11Func(name, args)"})
        for i, code in enumerate(vals["Oe"]):
            if not code:
                continue
            bad["expr"].add(i)
            c = cases["expr"][i]
            if code == 1:
                report(KNOWN_NIL, "`%s` = %s: nil elements of the argument array are counted / returned" % (c["Src"], c["Val"]),
                       {"input": {"src": c["Src"], "env": c["Env"]}, "observed": c["Val"],
                        "replay": "cmd.VerifC11NewEvaluator().Eval(src, env)"})
            else:
                report("expression-wrong-result", "`%s` = %s (%s) is not the mathematically defined result" % (c["Src"], c["Val"], c["Kind"]),
                       {"input": {"src": c["Src"], "env": c["Env"]}, "observed": c["Val"], "result_kind": c["Kind"],
                        "replay": "cmd.VerifC11NewEvaluator().Eval(src, env)"})
        for i in vals["Oa"]:
            c = cases["assign"][i]
            report("assignments-leave-a-wrong-value",
                   "processAssignments: a computes variable is not the latest non-nil value / a collects variable not the first|last|top|bottom N of the values its expression took when its inputs were fresh",
                   {"config": c["Cfg"], "steps": c["Steps"], "values_of_the_expressions": c["Produced"],
                    "observed": [{"err": r["Err"], "panic": r["Panic"], "vals": r["Vals"]} for r in c["Results"]],
                    "replay": "cmd.VerifC11Assign(config, \"al\", [q1 q2], steps)"})
        for i, code in enumerate(vals["Oh"]):
            if not code:
                continue
            bad["chain"].add(i)
            c = cases["chain"][i]
            for sig in chain_sigs(code):
                report(sig, "collects/computes chain through the real audition: %s" % sig,
                       {"config": c["Cfg"], "events": c["Events"], "final_values": c["Result"]["Vals"],
                        "outputs": [o for o in c["Result"]["Outs"] if o["Kind"] != "judge"][:400],
                        "audit_err": c["Result"]["AuditErr"], "panic": c["Result"]["Panic"],
                        "oracle_bits": code, "produced_values": c["Specs"],
                        "replay": "cmd.VerifAudition(config, events, false, false)"})
        # ---- the clause-level tie: what the parser accepts, and the count it reads
        n_clause_bad = 0
        for c in cases.get("clause", []):
            if c["ExpectAccepted"] == c["Accepted"]:
                continue
            n_clause_bad += 1
            if c["ExpectAccepted"]:
                report("valid-collects-clause-refused",
                       "a configuration that is valid by the grammar (a count is any run of digits, read in decimal%s) is refused: %s"
                       % ((": `%s` is %d" % (c["Written"], c["Decimal"])) if c.get("Written") else "", c["Err"]),
                       {"config": c["Cfg"], "error": c["Err"], "count_as_written": c.get("Written"),
                        "replay": "cmd.VerifC11Assign(config, \"al\", nil, nil).ParseErr"})
            else:
                report("collects-clause-with-zero-count-accepted",
                       "`collects ... %s %s` is accepted although the count must be at least 1" % (c["Mode"], c["Written"]),
                       {"config": c["Cfg"], "replay": "cmd.VerifC11Assign(config, \"al\", nil, nil).ParseErr"})
        # ---- non-finite values as ordinary values (judged by the harness's Go reference)
        n_nf_bad = 0
        for c in cases.get("nonfinite", []):
            if c["Ok"]:
                continue
            n_nf_bad += 1
            if c["Family"] == "tuple":
                report("computed-array-changed-without-assignment",
                       "%s: a variable does not hold what its clause last gave it (values are immutable: `arr2 as (arr, 4)` stays [.. 4] whatever max(arr, 100) does)" % c["What"],
                       {"family": c["Family"], "input": c["Input"], "expected": c["Expected"], "observed": c["Observed"],
                        "replay": "cmd.VerifAudition(config, sample rounds + final, false, false)"})
                continue
            report("non-finite-value-not-kept-as-a-value" if not c["Pinned"] else "non-finite-value-nan-behaviour-changed",
                   "%s: +Inf / -Inf / NaN produced by an expression is a value like any other (first/last N keep it positionally, top/bottom N order it as the extended reals, a computes variable holds it as the latest value)" % c["What"],
                   {"family": c["Family"], "input": c["Input"], "expected": c["Expected"], "observed": c["Observed"],
                    "expectation_pins_nan_behaviour": c["Pinned"],
                    "replay": {"collect": "cmd.VerifC11Collect folded over the values", "assign": "cmd.VerifC11Assign(config, \"al\", [q1 q2], steps)",
                               "audition": "cmd.VerifAudition(config, sample rounds + final, false, false)"}[c["Family"]]})
        n_oracle["nonfinite"] = n_oracle.get("nonfinite", 0) + n_nf_bad
        totals["nonfinite"] = totals.get("nonfinite", 0) + summary.get("nonfinite", 0)
        n_oracle["clause"] = n_oracle.get("clause", 0) + n_clause_bad
        totals["clause"] = totals.get("clause", 0) + summary.get("clause", 0)
        for k in bad:
            n_oracle[k] += len(bad[k])
        # ---- model / implementation disagreements the oracle does not explain
        for key, q in (("collect", "Mc"), ("fn", "Mf"), ("expr", "Me"), ("assign", "Ma"), ("chain", "Mh")):
            n_model[key] += len(vals[q])
            for i in vals[q]:
                if i not in bad[key]:
                    unexplained.append((key, shard, i, cases[key][i]))

    res.coverage.update({
        "evaluations": sum(v for k, v in totals.items() if k != "clause"),
        "distinct_nontrivial": nontriv,
        "rule": RULE,
        "distribution": dict(totals, **{"stats": stats}),
        "traces_validated_against_impl": totals["chain"],
        "disagreements": {"model_vs_impl": n_model, "oracle_failures": n_oracle},
    })
    if not res.violations and unexplained:
        key, shard, i, c = unexplained[0]
        if key == "chain":
            c = {"config": c["Cfg"], "events": c["Events"], "final_values": c["Result"]["Vals"],
                 "outputs": c["Result"]["Outs"][:400], "audit_err": c["Result"]["AuditErr"]}
        res.violation(None, "model and implementation disagree on %d %s case(s) while the plain-meaning oracle passes: correspondence of Model/{Functions,Expr,Audit}.v broken" % (len(unexplained), key),
                      {"kind": "correspondence", "list": key, "shard": shard, "index": i,
                       "n_disagreements": len(unexplained), "first": c}, no_input=True)
    return res.finish()
