"""Shared driver code of the end-to-end ledger checks C04, C05, C07 (one
harness, harness/c04/main.go, serves the three; each check writes its own
evidence)."""
import json
import os
import shutil
import tempfile

import vlib

TRUSTED_E2E = [
    "the generated shell commands (date +%s%N ledger lines, counters, sleep) and bash/coreutils executing them",
    "CLOCK_REALTIME shared by `date`, the harness and the binary; /proc/<pid>/environ for the survivor scan",
    "the real parser+compiler through cmd.VerifParse (hook) supplying the compiled play the Coq side reasons about",
]


def run_harness(res, prop, tier, seed, only=None, timeout=3000):
    """Build, run the harness for `prop`, return (cases_v, cases, summary) or
    None after having recorded the breakage."""
    try:
        bins = vlib.build_bins(["c04", "shakespeare"])
    except vlib.BuildError as e:
        res.violation(None, "harness / binary does not build against the current tree",
                      {"kind": "correspondence-build", "what": e.what, "output": e.output[-4000:]}, no_input=True)
        return None
    out = tempfile.mkdtemp(prefix="shk-%s-" % prop)
    try:
        cmd = [bins["c04"], "-prop", prop, "-seed", str(seed), "-tier", tier, "-out", out,
               "-shakespeare", bins["shakespeare"], "-par", str(min(12, max(4, vlib.NCPU)))]
        if only is not None:
            cmd += ["-only", str(only)]
        rc, o = vlib.run(cmd, timeout=timeout)
        if rc != 0:
            res.violation(None, "harness crashed", {"kind": "harness-crash", "output": o[-4000:]}, no_input=True)
            return None
        cases_v = open(os.path.join(out, "cases.v")).read()
        cases = json.load(open(os.path.join(out, "cases.json")))
        summary = json.load(open(os.path.join(out, "summary.json")))
    finally:
        shutil.rmtree(out, ignore_errors=True)
    return cases_v, cases, summary


def replay_obj(pid, c, idx, seed, tier, extra=None):
    o = c["Obs"]
    d = {
        "kind": "failing-input",
        "play": c["Name"], "index": idx,
        "configuration": c["Cfg"], "flags": c.get("Flags"), "signal": c.get("Sig"), "signal_at_ms": c.get("SigAtMs"),
        "fault": c.get("Fault"), "fault_position": c.get("FaultPos"),
        "observed": {"exit": o["Exit"], "wall_ms": o["WallMs"], "exited_within_bound": o["Exited"],
                     "ledger": o["Ledger"], "cleanups": o["Cleanups"], "csv": o["Csv"],
                     "survivors": o["Survivors"], "output_tail": o["Output"][-1200:]},
        "replay": "cd /verif && ./check %s --replay <this file>   (re-runs play %d of seed %d, tier %s, through the real binary; "
                  "or by hand: write `configuration` to p.cfg with LEDGER pointing to a scratch file and run "
                  "shakespeare -o <abs dir> -q --disable-plots %s p.cfg)" % (pid, idx, seed, tier, " ".join(c.get("Flags") or [])),
    }
    if extra:
        d.update(extra)
    return d


def mask_names(mask, names):
    return [n for bit, n in names if mask & bit]
