"""C15 — the stopper drains tasks, then workers, then closers; refuses late work
(DESIGN.md section 6, C15)."""
import concurrent.futures
import json
import os
import shutil
import tempfile

import vlib

PID = "C15"
THEOREMS = [
    "c15_refused_never_runs", "c15_accepted_completes_before_stop_channel_closes",
    "c15_closers_exactly_once", "c15_workers_done_before_stopped", "c15_phase_order",
    "c15_sem_held_exactly_while_running", "c15_slot_interval", "c15_no_panic",
    "c15_no_lost_wakeup", "c15_release_never_blocks", "c15_driver_stays_reachable",
    "c15_stop_returns_partial", "c15_later_stop_returns",
    "c15_errored_submission_not_counted", "c15_errored_submission_keeps_count",
]
# the unrestricted reading "every worker, whenever registered" is false of the
# model (and of the code: summary.late_worker_replay): boundary of the
# WaitGroup contract, recorded, not a violation of what the theorem states
REFUTED = ["c15_all_workers_done_refuted"]
HEADER = "From Shk Require Import Base.Prelude Model.Stopper Corr.C15.\n"

CODES = {
    1: ("refused-task-ran", "a task whose start was refused ran"),
    2: ("task-body-after-stop-channel-closed", "a task body began or ended when ShouldStop was already closed (or after a Quiesce call returned)"),
    3: ("accepted-task-never-completed", "an accepted task had not run to completion although the stop channel closed / Quiesce returned"),
    4: ("phase-order-in-sample", "one sample of the three channels shows stopped without stop, or stop without quiesce"),
    5: ("not-stopped-after-stop-returned", "every Stop call made had returned and IsStopped was still open"),
    6: ("worker-outlives-stopped", "a worker registered before Stop's wait returned was still running when the stopper reported itself stopped"),
    7: ("closer-contract", "a closer was called twice, not at all, before the stop channel closed, before the workers were done, or after stopped"),
    8: ("semaphore-slot", "a limited task ran without holding its semaphore slot, or a slot stayed taken after its task was over or refused"),
    9: ("semaphore-slot-leaked", "a semaphore slot was still taken although NumTasks() was 0 and the task that took it had ended (returned or panicked)"),
    10: ("throttled-with-room", "RunLimitedAsyncTask returned ErrThrottled although fewer than cap calls could have held a slot"),
    11: ("task-count-not-restored", "NumTasks() is negative or counts more calls than can be between runPrelude and runPostlude: a submission that was refused / returned an error (or is over) is still counted"),
    13: ("stop-context-cancelled-before-drain", "a WithCancelOnStop context (whose own cancel function was not called) was cancelled while task bodies were still to begin or end: the stop cancellation was delivered before the tasks were drained"),
    14: ("context-not-cancelled", "ShouldQuiesce / ShouldStop was seen closed and a WithCancelOnQuiesce / WithCancelOnStop context read afterwards was not cancelled"),
    12: ("stop-did-not-return", "every task and worker body had been told to return and Stop had been called, but the stopper did not report itself stopped / a Stop or Quiesce call did not return"),
}

RULE = ("controlled: random operation sequences (RunTask -- every other one through RunTaskWithErr with a callback returning its own error --, RunAsyncTask and RunLimitedAsyncTask with wait true/false, each with the "
        "background context or a WithCancelOn* context that is live, already cancelled, or cancelled while the call waits for its slot, on 2 semaphores, a chosen running body returns or PANICS (Stopper built with OnPanic), "
        "RunWorker, a worker returns or panics, a task or worker body calls Stop itself before it returns (once a Stop call has been made), "
        "AddCloser, WithCancelOnQuiesce/Stop, call of a returned cancel function, Stop and Quiesce called with the background context "
        "or a WithCancelOn* context that is live, already cancelled or cancelled while they wait; several Stop/Quiesce per "
        "sequence), total length <= 25 (thorough 40) including a closing tail that releases everything and calls Stop; "
        "executed on the real Stopper with harness-controlled bodies, observables after every operation compared with the "
        "model, event history judged by the oracle.  non-trivial = a Stop or Quiesce was called while a task ran, a worker "
        "lived or a limited call waited; distinct by operation list and capacities.  free: 3-7 goroutines x 4-17 random API "
        "calls (about 1 body in 7 panics) with random pauses and NumTasks()==0 probes racing with 1-3 Stop and 0-1 Quiesce calls, "
        "built with -race, judged by the oracle only; one history in three is a 'storm' (128-511 WithCancelOnQuiesce contexts, 1-2 "
        "goroutines calling RunTask back to back from just before the first Stop/Quiesce until refused, bodies that linger when "
        "they find ShouldQuiesce closed: a call let in after quiescing was set slips past the drain and is seen running after stop), "
        "one ordinary history in four a 'flood' (3000-5999 WithCancelOnStop contexts and 1-2 workers that read 40 of them right after "
        "<-ShouldStop()); bodies that react to ShouldQuiesce / ShouldStop by calling Stop themselves; "
        "non-trivial = at least 20 events; distinct by event history.")


def _shard_eval(tier, kind, cases_v, name, queries, per):
    """Evaluate `queries` (list of (qname, expr)) over shards of the list
    definition `name`; index-valued results are re-based.  Returns
    (ok, {qname: [ints]}, output_of_failure, path)."""
    sp = vlib.split_list_def(cases_v, name)
    if sp is None:
        return False, {}, "no definition %s in cases.v" % name, ""
    head, items, tail = sp
    shards = [(off, items[off:off + per]) for off in range(0, max(len(items), 1), per)]

    def ev(arg):
        i, (off, its) = arg
        text = vlib.join_list_def(head, its, tail)
        rc, cout, q, path = vlib.eval_cases(PID, "%s_%s%d" % (tier, kind, i), HEADER, text, queries, timeout=3000)
        return rc, cout, {k: vlib.parse_nat_list(v) for k, v in q.items()}, path, off

    with concurrent.futures.ThreadPoolExecutor(max_workers=max(1, min(len(shards), vlib.NCPU))) as ex:
        results = list(ex.map(ev, enumerate(shards)))
    vals = {k: [] for k, _ in queries}
    for rc, cout, rv, path, off in results:
        if rc != 0 or any(v is None for v in rv.values()):
            return False, {}, cout, path
        for k, v in rv.items():
            if k.startswith("C"):      # codes: [index; code; index; code ...]
                vals[k] += [(off + v[j], v[j + 1]) for j in range(0, len(v) - 1, 2)]
            else:
                vals[k] += [off + x for x in v]
    return True, vals, "", results[0][3]


def _run_harness(binpath, args, timeout):
    out = tempfile.mkdtemp(prefix="shk-c15-")
    try:
        rc, o = vlib.run([binpath] + args + ["-out", out], timeout=timeout)
        data = {}
        for f in ("cases.v", "cases.json", "summary.json"):
            p = os.path.join(out, f)
            if os.path.exists(p):
                with open(p) as fh:
                    data[f] = fh.read()
        return rc, o, data
    finally:
        shutil.rmtree(out, ignore_errors=True)


def _report_oracle(res, kind, codes, cases, what_of):
    """One violation per distinct oracle code, on the shortest failing case."""
    by = {}
    for idx, code in codes:
        c = cases[idx]
        size = len(c.get("Ops") or c.get("Events") or [])
        if code not in by or size < by[code][0]:
            by[code] = (size, idx)
    for code, (_, idx) in sorted(by.items()):
        sig, text = CODES.get(code, ("oracle-%d" % code, "oracle code %d" % code))
        c = cases[idx]
        res.violation(sig, "%s: %s [%s case %d%s]" % (sig, text, kind, idx, what_of(c)),
                      {"kind": "failing-input", "mode": kind, "oracle_code": code, "expected": text,
                       "n_failing_cases": sum(1 for _, cc in codes if cc == code), "input": c,
                       "replay": "./check C15 --replay <this file>" if kind == "controlled" else
                                 "free-running history (schedule-dependent): re-run ./check C15 --tier %s --seed %s" % (res.tier, res.seed)})


def run(tier, seed):
    res = vlib.Result(PID, tier, seed, level="proof")
    res.assumptions = [
        "each region of stopper.go executed under s.mu, each channel operation, each WaitGroup operation is one atomic step of the model (sync.Mutex, channels and sync.WaitGroup/sync.Cond behave as documented; Cond.Wait re-checks in a loop)",
        "workers: only those registered before Stop's stop.Wait() returned are claimed to be waited for (WaitGroup contract); RunWorker racing with that Wait at counter zero is outside the model's claim and is not generated by the harness (sync reports it as WaitGroup misuse under -race)",
        "callbacks (task/worker bodies, closers) do not call back into the Stopper while the model has them atomic (closers run under s.mu); a panicking task/worker body is modelled (label LBodyPanic: the deferred <-sem, runPostlude / stop.Done run) for a Stopper built with OnPanic -- the handler call itself, a Stopper without handler (process dies), panicking closers and the panicking branch of Stop are not modelled",
        "controlled observations are taken after the real Stopper reached the state a bookkeeping twin in the harness predicts (polling, 20 s time-out) plus a 150 us grace period; what is compared with the Coq model is always the real observation",
        "ErrUnavailable vs context.Canceled when both select cases are ready is Go's choice: both accepted",
    ]
    # two C15 checks may run at once (against different trees: seedretest,
    # bentest): give the Print Assumptions probe a name of its own, as
    # vlib.eval_cases does for the case files, and remove it afterwards
    tag = "_p%d" % os.getpid()
    orig_pa = vlib.print_assumptions
    vlib.print_assumptions = lambda pid, module, theorems, tag_="": orig_pa(pid, module, theorems, tag=tag)
    try:
        ok, detail = vlib.proof_stage(res, "C15", THEOREMS, refuted=REFUTED)
    finally:
        vlib.print_assumptions = orig_pa
        import glob
        for f in glob.glob(os.path.join(vlib.COQ, "cases", "Assum_C15%s.*" % tag)) + \
                glob.glob(os.path.join(vlib.COQ, "cases", ".Assum_C15%s.*" % tag)):
            try:
                os.remove(f)
            except OSError:
                pass
    if not ok:
        res.violation(None, "proof obligations of C15 broken: %s" % detail.get("broken"),
                      {"kind": "proof-obligation", "detail": detail}, no_input=True)
        return res.finish()
    priv = tempfile.mkdtemp(prefix="shk-c15-bin-")
    try:
        return _run_with_bins(res, tier, seed, priv)
    finally:
        shutil.rmtree(priv, ignore_errors=True)


def _private_bins(priv):
    """Build (or fetch from the cache) both harness binaries for the current
    tree and copy them to a private directory at once: the shared cache is
    pruned by other checks running in parallel."""
    for attempt in range(3):
        bins = vlib.build_bins(["c15"])
        rbins = vlib.build_bins(["c15"], race=True)
        try:
            shutil.copy2(bins["c15"], os.path.join(priv, "c15"))
            shutil.copy2(rbins["c15"], os.path.join(priv, "c15-race"))
            return {"c15": os.path.join(priv, "c15")}, {"c15": os.path.join(priv, "c15-race")}
        except OSError:
            if attempt == 2:
                raise vlib.BuildError("cache", "built binaries vanished from the shared cache three times")
    return None


def _run_with_bins(res, tier, seed, priv):
    try:
        bins, rbins = _private_bins(priv)
    except vlib.BuildError as e:
        res.violation(None, "harness does not build against the current tree",
                      {"kind": "correspondence-build", "what": e.what, "output": e.output[-4000:]}, no_input=True)
        return res.finish()
    vlib.log("c15: binaries ready")

    # ---- controlled schedules
    hto = 900 if tier == "quick" else 4000
    rc, o, d = _run_harness(bins["c15"], ["-seed", str(seed), "-tier", tier, "-mode", "ctl"], hto)
    if rc != 0 or "cases.v" not in d:
        res.violation(None, "harness crashed (controlled mode)", {"kind": "harness-crash", "rc": rc, "output": o[-4000:]}, no_input=True)
        return res.finish()
    ctl_cases = json.loads(d["cases.json"])["ctl"]
    csum = json.loads(d["summary.json"])
    # ---- free-running histories under the race detector
    rrc, ro, rd = _run_harness(rbins["c15"], ["-seed", str(seed), "-tier", tier, "-mode", "free"], hto)
    free_cases = json.loads(rd["cases.json"])["free"] if "cases.json" in rd else []
    fsum = json.loads(rd["summary.json"]) if "summary.json" in rd else {}

    per_ctl = max(40, -(-len(ctl_cases) // vlib.NCPU))
    ok1, cv, cout1, path1 = _shard_eval(tier, "ctl", d["cases.v"], "ctl_cases",
                                        [("Mctl", "bad_indices ctl_model_bad ctl_cases"), ("Cctl", "codes ctl_code ctl_cases")], per_ctl)
    ok2, fv, cout2 = True, {"Cfree": []}, ""
    if "cases.v" in rd:
        per_free = max(10, -(-len(free_cases) // vlib.NCPU))
        ok2, fv, cout2, _ = _shard_eval(tier, "free", rd["cases.v"], "free_cases", [("Cfree", "codes free_code free_cases")], per_free)

    res.coverage.update({
        "evaluations": len(ctl_cases) + len(free_cases),
        "distinct_nontrivial": int(csum.get("distinct_nontrivial", 0)) + int(fsum.get("distinct_nontrivial", 0)),
        "rule": RULE,
        "samples": csum.get("samples", []) + [{"free_history_events": len(free_cases[0]["Events"]), "first_events": free_cases[0]["Events"][:12]}] if free_cases else csum.get("samples", []),
        "traces_validated_against_impl": len(ctl_cases),
        "controlled": {k: csum.get(k) for k in ("ctl", "planned", "ops", "max_ops", "racing", "settle_timeouts", "panics", "op_kinds")},
        "free": {k: fsum.get(k) for k in ("free", "planned", "events", "hangs", "panics")},
        "race_detector": {"exit": rrc, "data_race_reported": "DATA RACE" in ro},
        "late_worker_replay": csum.get("late_worker_replay"),
        "cases_file": path1,
    })
    res.notes.append("boundary, not claimed: RunWorker after Stop's stop.Wait() returned starts a worker that outlives 'stopped' "
                     "(model witness c15_all_workers_done_refuted; replay on the real Stopper: %s)" % json.dumps(csum.get("late_worker_replay")))

    # ---- verdicts.  1. the Stopper crashed, dead-locked or never stopped
    bad_ctl = [i for i, c in enumerate(ctl_cases) if c.get("Panics") or c.get("Stuck")]
    bad_free = [i for i, c in enumerate(free_cases) if c.get("Panics") or c.get("Hang")]
    if bad_ctl:
        i = min(bad_ctl, key=lambda k: len(ctl_cases[k]["Ops"]))
        c = ctl_cases[i]
        res.violation("stopper-panics-or-deadlocks",
                      "the Stopper panicked or dead-locked: %s%s after %s" % (c.get("Panics"), " (stuck in %s)" % c.get("StuckAt") if c.get("Stuck") else "", " ; ".join(c["Ops"])),
                      {"kind": "failing-input", "mode": "controlled", "n_failing_cases": len(bad_ctl), "input": c,
                       "expected": "no operation sequence makes the Stopper panic or hang (c15_no_panic, c15_no_lost_wakeup)"})
    elif bad_free:
        c = free_cases[bad_free[0]]
        res.violation("stopper-panics-or-deadlocks",
                      "free-running history: the Stopper panicked (%s) or never reported itself stopped (hang=%s)" % (c.get("Panics"), c.get("Hang")),
                      {"kind": "failing-input", "mode": "free", "n_failing_cases": len(bad_free), "input": c})
    # 1b. the OnPanic handler of a panicking limited task runs after the task gave back its slot and was uncounted
    hp = csum.get("handler_probe")
    res.coverage["handler_probe"] = hp
    if hp is not None and not res.violations and (hp.get("start_error") or not hp.get("ran") or hp.get("sem_len_in_handler") != 0
                                                  or hp.get("num_tasks_in_handler") != 0 or not hp.get("quiesce_from_handler_returned")):
        res.violation("slot-or-task-count-held-while-the-panic-handler-runs",
                      "a limited task on a one-slot semaphore panics: when the Stopper's OnPanic handler runs the body is over, yet the slot is still taken / the task still counted / a Quiesce from the handler does not return: %s" % json.dumps(hp),
                      {"kind": "failing-input", "mode": "probe", "input": hp,
                       "replay": "harness/c15 handlerProbe(): NewStopper(OnPanic(h)); RunLimitedAsyncTask(sem of capacity 1, body panics); h samples len(sem), NumTasks(), calls Quiesce",
                       "expected": "len(sem) = 0, NumTasks() = 0, Quiesce returns (c15 semaphore held exactly while running; tasks drained)"})
    # 2. the race detector
    if rrc != 0 or "DATA RACE" in ro:
        if "DATA RACE" in ro or "WaitGroup misuse" in ro or "WaitGroup is reused" in ro:
            res.violation("data-race", "the race detector reports a race inside a free-running history of Stopper calls",
                          {"kind": "failing-input", "mode": "free", "output": ro[-6000:],
                           "replay": "re-run ./check C15 --tier %s --seed %s (schedule-dependent)" % (tier, seed)})
        elif "cases.v" not in rd:
            res.violation(None, "harness crashed (free mode)", {"kind": "harness-crash", "rc": rrc, "output": ro[-4000:]}, no_input=True)
    if not ok1 or not ok2:
        res.violation(None, "correspondence cases did not evaluate",
                      {"kind": "cases-eval", "output": (cout1 or cout2)[-4000:]}, no_input=True)
        return res.finish()
    # 3. the plain-meaning oracle over the observed histories
    _report_oracle(res, "controlled", cv["Cctl"], ctl_cases, lambda c: ": " + " ; ".join(c["Ops"]))
    _report_oracle(res, "free", fv["Cfree"], free_cases, lambda c: ", %d events" % len(c["Events"]))
    res.coverage["disagreements"] = {"model": len(cv["Mctl"]), "oracle_controlled": len(cv["Cctl"]), "oracle_free": len(fv["Cfree"])}
    if not res.violations and not res.known and (csum.get("ctl", 0) < csum.get("planned", 0) or fsum.get("free", 0) < fsum.get("planned", 0)):
        res.violation(None, "the harness used up its time budget before running every case (%s/%s controlled, %s/%s free)" %
                      (csum.get("ctl"), csum.get("planned"), fsum.get("free"), fsum.get("planned")),
                      {"kind": "harness-budget"}, no_input=True)
    # 4. only model/implementation disagreement
    if not res.violations and not res.known and cv["Mctl"]:
        i = min(cv["Mctl"], key=lambda k: len(ctl_cases[k]["Ops"]))
        c = ctl_cases[i]
        res.violation(None, "model and real Stopper disagree on %d controlled cases (oracle passes): e.g. case %d: %s" % (len(cv["Mctl"]), i, " ; ".join(c["Ops"])),
                      {"kind": "correspondence", "n_disagreements": len(cv["Mctl"]), "input": c}, no_input=True)
    return res.finish()


def replay(path):
    """Re-run the operation sequence of a controlled replay file on the real
    Stopper (three times) and judge it again."""
    with open(path) as f:
        r = json.load(f)
    c = r.get("input") or {}
    if r.get("mode") != "controlled" or not c.get("OpsJ"):
        print("replaying %s by re-running tier %s seed %s" % (path, r.get("tier"), r.get("seed")))
        return run(r.get("tier", "quick"), int(r.get("seed", 1)))
    tmp = tempfile.mkdtemp(prefix="shk-c15r-")
    try:
        bins, _ = _private_bins(tmp)
        inp = os.path.join(tmp, "in.json")
        with open(inp, "w") as f:
            json.dump({"Caps": c["Caps"], "OpsJ": c["OpsJ"]}, f)
        rc, o, d = _run_harness(bins["c15"], ["-mode", "replay", "-in", inp], 600)
    finally:
        shutil.rmtree(tmp, ignore_errors=True)
    if rc != 0 or "cases.v" not in d:
        print("replay: harness crashed\n" + o[-2000:])
        return 1
    cases = json.loads(d["cases.json"])["ctl"]
    okv, cv, cout, _ = _shard_eval("replay", "ctl", d["cases.v"], "ctl_cases",
                                   [("Mctl", "bad_indices ctl_model_bad ctl_cases"), ("Cctl", "codes ctl_code ctl_cases")], 100)
    print("operations: " + " ; ".join(c["Ops"]))
    bad = False
    for i, cc in enumerate(cases):
        if cc.get("Panics") or cc.get("Stuck"):
            bad = True
            print("run %d: Stopper panicked / dead-locked: %s %s" % (i, cc.get("Panics"), cc.get("StuckAt")))
    if not okv:
        print("replay: cases did not evaluate\n" + cout[-2000:])
        return 1
    for idx, code in cv["Cctl"]:
        bad = True
        print("run %d: oracle: %s — %s" % (idx, CODES.get(code, ("?", "?"))[0], CODES.get(code, ("?", "?"))[1]))
    for idx in cv["Mctl"]:
        print("run %d: observables differ from the model" % idx)
    if bad:
        print("VIOLATION property=C15 replay=%s" % path)
        return 1
    print("OK property=C15 replay passes (%d runs%s)" % (len(cases), ", model disagreement" if cv["Mctl"] else ""))
    return 0
