#!/usr/bin/env python3
"""Regenerates MANIFEST.json from the registry below (run after adding a check)."""
import json
import os

ROOT = os.path.dirname(os.path.abspath(__file__))
ALL = ["C%02d" % i for i in range(1, 21)]

# pid -> (category, level text, level note, technique, design_ref)
CHECKS = {
 "C15": ("proof",
         "A transition-system model of stopper.go in which every goroutine is an explicit record and every label is exactly one mutex region (runPrelude, runPostlude with Broadcast, AddCloser, withCancel, Stop's first region, Quiesce's set-and-test and re-tests), one select case of RunLimitedAsyncTask, one channel or WaitGroup operation, or the begin/end of a callback; any number of concurrent Stop/Quiesce callers, arbitrary semaphore capacities; panics (double close, negative WaitGroup) explicit. An invariant with one preservation lemma per label (28) gives, for every label sequence: a refused task never runs; an accepted task completes before the stop channel closes; closers are called exactly once (before stopped, or at once when registered later); workers registered before stop.Wait() returned have ended before stopped closes; the phase order quiesce <= drained < stop < workers done < closers < stopped; the semaphore slot is held exactly while the limited task runs; no panic, no lost wake-up. The unrestricted worker clause is refuted with a witness (a RunWorker after Stop's wait returned: WaitGroup misuse, not reachable from the application). Tie: generated operation sequences replayed on the real Stopper (bodies blocked on harness channels; observables polled until they settle) and compared after every operation with the model (11 observables), plus an independent ordering oracle over logged event histories, including free-running histories under -race.",
         "Trusted: Coq kernel+VM, harness+hook. Assumed: atomicity of the mutex regions, sync/channel semantics, callbacks that do not re-enter the Stopper; Stop's panic branch and panicking callbacks are outside the model; no liveness theorem (only no-lost-wakeup and release-never-blocks).",
         "Rocq/Coq proof (invariant over all label sequences of an LTS) + controlled-schedule correspondence + ordering oracle under the race detector",
         "DESIGN.md section 6, C15"),
 "C10": ("proof",
         "A clause-level builder model of parseCfg/printCfg (Model/Config.v: 28 clause kinds, apply with every duplicate / definition-before-use check and the name-order slices, print in printCfg's order, render of the concrete text). Theorems by induction over every accepted clause list: every reachable state is well formed (c10_reachable_wf); for every reachable state that satisfies the decidable `printable` predicate, replaying the printed clauses from the empty configuration succeeds with an explicit canonical state that is the same play and prints the same text up to one observer's watches (c10_reload_partial); parameters are substituted once, first -D wins. The full reload statement is refuted with five witnesses (the known reload-failure shapes), each replayed on the real code. Tie: 1,500 (thorough 20,000) generated configurations — free layout, comments, continuations, several sections, parameters via -D/defaults, includes — loaded four ways through the real parser/printer; Go-side comparison of acceptance, printed text, exported configuration, steps and hash, and six Coq queries (model first load, model reload, oracle, hypothesis/invariant, rendered text byte for byte).",
         "Trusted: Coq kernel+VM, harness+hook. Outside the theorem: the lexical layer on the way in (line regexps, white space, continuations, includes), Go's regexp/govaluate/time libraries (oracles: theorems hold for all their values), variable watcher lists, and storyline well-formedness (C06, under its no-control-white-space assumption: story_printable is a hypothesis of the general theorem). Seven reload-failure shapes are known findings.",
         "Rocq/Coq proof (invariant of the construction + reload of print for printable states) + differential correspondence by vm_compute",
         "DESIGN.md section 6, C10"),
 "C09": ("proof",
         "Byte-level Coq models of readLine (continuations, EOF rules, include push/pop, depth limit), newSubReader's search, pos.wrapErr with all its slice/index operations, the section dispatch for the simple clauses, the edit splitter, preprocReplace and parseDefines, with Panic and OutOfFuel as real outcomes. Theorems for every file system, search path, -D list and clause-parser behaviour: the reader terminates within an explicit fuel bound (weight argument + depth limit), never indexes out of range, every diagnostic position names an existing file and line, a refused clause is reported at the first physical line of its logical line with the include chain equal to the reader stack, never more than ten readers. Tie: ~4,100 (thorough ~49,500) differential cases per run — grammar-derived texts, their mutations, arbitrary bytes, include graphs (chains, diamonds, cycles, directories, missing files) — through the real parser under a watchdog; any panic or timeout is a property failure; a corpus replays the four repaired defects first.",
         "Trusted: Coq kernel+VM, harness+hook. NOT transcribed: the regexp-dispatched clause parsers, checkIdent, validateStoryLine, compileV2 and govaluate (an arbitrary `judge` function in the model: every theorem holds for all judges); that they neither crash nor loop rests on the differential fuzzing only.",
         "Rocq/Coq proof (termination by a decreasing weight, invariants over reachable reader states) + differential fuzzing correspondence",
         "DESIGN.md section 6, C09"),
 "C20": ("proof",
         "preprocReplace is proved equal to a declarative leftmost, non-overlapping, single-pass expansion (values containing ~ are not re-expanded; an undefined name yields an error naming it); define precedence (first -D, else first `parameter`, else undefined); include is a splice (from an include clause on the reader delivers the included file's lines recursively, then the rest of the includer), searched next to the including file first and then in -I order, followed below ten readers and refused at ten — over the byte-level reader/preprocessor models shared with C09. Which fields of which clauses are substituted is checked on the real parser: ~p~ is planted in 40 fields under 7 definition modes with a metamorphic oracle (a substituted field reads exactly as if the winning value were written there; an untouched field behaves exactly as with p undefined). ~3,200 cases per quick run.",
         "Trusted: Coq kernel+VM, harness+hook. The per-field substitution list is established by the planted-parameter correspondence, not by a theorem (the clause parsers are not transcribed).",
         "Rocq/Coq proof (preprocessor = declarative expansion; reader stack = recursive inclusion) + differential and metamorphic correspondence",
         "DESIGN.md section 6, C20"),
 "C19": ("proof",
         "A transcription of subPlots/plot/assemble's range and audit.go's mood bookkeeping as lists of abstract gnuplot directives (Model/Plot.v) is proved equal to a filter-style statement of the property (Model/PlotSpec.v) for every cast, audience, mood list, act list and window, with one corollary per sentence of the statement (one time axis with the 5% margin, lanes = actors with data in cast order, boxes = members with data and without `only helps` in declaration order with one curve per watched variable with data then the audit rows, events on their own lanes, one band per non-clear mood period, one line per later act, zoomed copy iff the repeated act started). The theorem relates two descriptions of the same loops; the tie carries most of the detection value: the real assemble+plot+subPlots run on generated configurations and collected states, the .gp scripts are parsed strictly into directives and compared in Coq with the model and with a spec-only oracle (thorough adds end-to-end plays).",
         "Trusted: Coq kernel+VM, harness+hook, the .gp parser. float64 rounding and %f formatting are not modelled (time stamps on a 10 ms grid, off clipping boundaries); gnuplot itself is not run.",
         "Rocq/Coq proof (model = filter-style spec, by induction over the lists) + differential correspondence on parsed plot scripts",
         "DESIGN.md section 6, C19"),
 "C14": ("proof",
         "Protocol part: a translator (goaccess2v, go/types, offline) regenerates on every run the read/write sites of 22 tracked shared cells in pkg/cmd, the call graph and the synchronisation skeleton of conduct/run/the start functions (goroutine starts, WaitGroup patterns, channel senders and closes); a reflective checker whose soundness is proved once shows by vm_compute that any two conflicting accesses are ordered by happens-before, made by the same sequential thread, both atomic or both under the registry mutex, that every site lies in a classified function and that the component map is closed under static calls. This is a theorem about the ownership protocol for all interleavings OF THE MODEL, not about Go's memory model. Detector part: generated plays (concurrent lines, several spotlights, auditors with variables, repeats, failures, -S) run in-process under the Go race detector; a report or an in-play panic is a failing input.",
         "Trusted: Coq kernel+VM, the translator, the hand-written cell list, component map, base happens-before edges and the partition of sink.lastVal among spotlight readers. Real races are only exhibited by the detector on the schedules it sees. runConduct's one-minute hard-shutdown path is outside the model.",
         "Rocq/Coq proof over translator-extracted access sites (reflective happens-before check) + race-detector plays; labelled partial by nature",
         "DESIGN.md section 6, C14 and section 9"),
 "C17": ("proof",
         "25 theorems over Model/Retry.v: the back-off band (lo n <= retry_in n u <= hi n around min(I*M^n, Max), exact rationals, Go's truncating conversion), first attempt immediate, attempts counted and at most MaxRetries+1 for every label sequence mixing Next and NextCh, attempts never before the lower edge, Reset restores the fresh schedule, stopping when told, WithMaxAttempts (after fix 7eb790f): 0 <= calls <= n, at least one call when not stopped at start, nil iff a call succeeded. 'No attempt after close' is refuted with witnesses (Reset-then-close: known finding; the select race) and proved in its partial form. Tie: ~8,000 real retryIn samples with their exact jitter draws and ~330 real Next/NextCh/Reset/WithMaxAttempts runs per quick run, compared with the model and an independent oracle (only lower bounds on elapsed time are judged).",
         "Trusted: Coq kernel+VM, harness+hook. Assumed: float rounding (1 ns tolerance, magnitudes below 2^40 ns), int64 overflow, select/timer/channel semantics, single-goroutine use.",
         "Rocq/Coq proof (rational arithmetic, LTS invariants) + differential correspondence by vm_compute",
         "DESIGN.md section 6, C17"),
 "C11": ("proof",
         "45 theorems over Model/Functions.v (collectFns, evalFunctions) and the audition model: first/last/top/bottom N folds equal firstn/lastn/stable sorted prefixes of the non-nil values for every N and sequence (never a panic; an error exactly on strings/arrays), collected arrays never contain nil, a computes variable holds the latest non-nil value, assignments are visible to later members of the same round and not to earlier ones, values persist across activation periods, end-to-end statements over run_audition, and sum/avg/med/min/max/abs/floor/ceil/round equal their mathematical definitions over the non-nil elements. The letter 'over the non-nil elements' is refuted for count/first/last/sorted with a witness (known finding) and proved for nil-free arrays. Tie: real collectFns/evalFunctions/expression evaluator/processAssignments on generated inputs and chains of clauses through the real audition, compared in Coq with the models and with independent oracles; a fixed corpus replays the two array-aliasing defects repaired in eeee4b8/7774142.",
         "Trusted: Coq kernel+VM, harness+hook. float64 as exact rationals (avg/med compared within 1e-9); govaluate modelled for the generated subset; sort.Sort modelled by a stable insertion sort (generator avoids bool/number ties in one sorted() argument list); log/sqrt/ndiff not modelled.",
         "Rocq/Coq proof (induction over value sequences and rounds) + differential correspondence with independent oracles",
         "DESIGN.md section 6, C11"),
 "C04": ("proof",
         "Theorems over a timed model of the prompter (Model/Prompt.v: acts, scene groups with waitUntil, concurrent lines, sequential steps; arbitrary non-negative latencies at every action, scene start, barrier and act start): acts sequential, groups behind barriers, line order, never ahead of the tempo, recorded interval brackets the command's own interval — for all scripts, tempos, durations and latencies, by induction. Tie: generated plays through the real binary whose actions write a wall-clock ledger; the ledger, csv rows and exit status are checked in Coq to be a run of the timed model for SOME latencies >= 0 (inequalities that added delay can only help, so load cannot raise an alarm) and against plain-meaning oracles.",
         "Trusted: Coq kernel+VM, harness, real parser supplying the compiled play (cmd.VerifParse). Observed, not proved: wg.Wait, time.After, exec, wall clock. Two checker-completeness lemmas are exercised per case instead of proved.",
         "Rocq/Coq proof (induction over plays with arbitrary latencies) + end-to-end ledger correspondence by vm_compute",
         "DESIGN.md section 6, C04"),
 "C05": ("proof",
         "Theorems over the untimed prompter model (perform: repeat bookkeeping, failOk, timeouts) — a completed play performed exactly the prescribed groups (K repetitions, K = N for `repeat N times`), a non-tolerated failure is the last group and yields failure, tolerated failures change nothing — and over the conductor LTS (exit 0 implies the prompter completed, for every label sequence, after fix d415a46). Tie: generated plays x failing positions x spotlight behaviours through the real binary; exit status and the multiset of performed instances are compared in Coq with the model and the prescription.",
         "Trusted: Coq kernel+VM, harness. OS/runtime behaviour observed end-to-end. Quiesce (signals) excluded from the exit-0 theorem.",
         "Rocq/Coq proof (induction; LTS invariant) + end-to-end correspondence by vm_compute",
         "DESIGN.md section 6, C05"),
 "C07": ("proof",
         "The conductor is a finite LTS (four components x shutdown stages x cleanup phases x kill protocol; errors abstracted to nil/cancel/audit/other); invariants are established by a reflective reachability certificate (4719 states, closure soundness proved once): step bound, both cleanups exactly once and in order on all finish orders, no survivor in an interrupted command's process group (after fixes 5238de7, c7b3a08). Termination and no-scene-after-cancel are PARTIAL (hypothesis: commands end by themselves) with refutation witnesses for the known finding (redirected action/cleanup commands are not interruptible). Tie: single-fault plays through the real binary (action/spotlight/cleanup failing, hanging, ignoring SIGHUP, -S fouls, evaluation errors, SIGINT/SIGTERM at several instants): wall time to exit, cleanup marker counts, /proc scan for survivors, exit status.",
         "Trusted: Coq kernel+VM, harness. Process reaping, signal delivery and time bounds are OS behaviour, observed only. Known finding running-action-or-cleanup-not-interruptible is listed, not repaired.",
         "Rocq/Coq proof (reflective reachability certificate over a finite LTS) + end-to-end fault injection",
         "DESIGN.md section 6, C07"),
 "C08": ("proof",
         "Theorems over Model/Spotlight.v (detectSignals: per-parser match facts, time stamp by group in exact nanoseconds, typed value, delta against the previous parsed sample, grouping by time stamp) composed with the audition model's round and the collector's per-watcher fan-out: for every line sequence, signal kind, time-stamp group and number of observers/actors the rows of file (observer, actor, signal) are exactly one per matching line with parsable captures, in order, with the stated value and time; unparsable captures drop only that point; lines matching nothing leave no trace. Tie: generated roles and line streams through the real detectSignals, checkEvent and collectObservation (real CSV files), compared in Coq with the model and with a generator-side oracle that knows by construction what each line matches; thorough adds end-to-end plays.",
         "Trusted: Coq kernel+VM, harness+hook. Inputs, not modelled: Go regexp match/captures, time.Parse for rfc3339; strconv.ParseFloat and the ts_log shape are modelled and compared with the library on every generated string; float64 as exact rationals on values where the code's arithmetic is exact. Theorems assume the audition was not stopped by an evaluation error.",
         "Rocq/Coq proof + differential correspondence and independent oracle by vm_compute",
         "DESIGN.md section 6, C08"),
 "C12": ("proof",
         "Path algebra (Clean, Join, Abs, Rel, Dir), symlink resolution, the survival decision table of run()'s deferred functions and the time range are modelled (Model/Dirs.v) and proved: `latest` resolves to the run directory for every cwd and output directory (after fix f07bf0c), everything written lies under the run directory, artifacts survive iff fouled or -k, the run directory is erased iff --clear and no foul, Foul = (exit status != 0) when nothing fails after the play, the range contains every instant. Tie: ~1,400 path/link cases against the real filepath functions and prepareDirs, plus a covering array (thorough: the full 256-play matrix) of real CLI plays whose file tree, result.js and plot scripts are inspected.",
         "Trusted: Coq kernel+VM, harness+hook. Observed only: that nothing is written elsewhere, that artifact-tree and plot-script names exist. gnuplot is absent here (warning only). Known finding: unquoted upload command.",
         "Rocq/Coq proof (path algebra, decision table) + differential path cases + end-to-end flag matrix",
         "DESIGN.md section 6, C12"),
 "C13": ("proof",
         "Byte-level transcriptions of prepareScript, the cast parser (roles, extends, multi-actor expansion) and work directories, plus a five-instruction mini-shell that interprets the script prefix: at the point where the user command starts cwd = workDir, TMPDIR/HOME inside the run directory, every `with` variable set and exported, i = k for the k-th actor, output appended to <name>.log iff not a spotlight, independent of the caller's cwd/env — for every cast, N, role graph and script. Tie: the model's script text is compared byte-for-byte with ~3,600 real script files per run, and the scripts are executed by real bash (~1,100 executions, directly and through another actor's script, from a foreign cwd/env) with the observed state compared with the mini-shell's prediction and a plain-meaning oracle.",
         "Trusted: Coq kernel+VM, harness+hook. bash itself is outside Coq (validated by execution). Outside the claim: work directories / action names with shell-special characters, `with` values with quotes, `with` clauses overriding TMPDIR/HOME/i.",
         "Rocq/Coq proof over transcription + mini-shell, validated by byte-for-byte comparison and real bash executions",
         "DESIGN.md section 6, C13"),
 "C06": ("proof",
         "Theorems over a hand-written byte-level model (suffixes for cursors) of validateStoryLine, extractAction, combineActs, combineStoryLines, the storyline/edit branches and compileV2 show that validate, merge, edit and compile equal an independently written column denotation (columns, column-wise union in clause order, one timed group per column with before/after mood steps, act end at ncols x tempo) for all strings, scripts, scene tables and tempos, by induction without bounds. The model is tied to the current source on every run by ~4,800 (thorough ~170,000, three small scopes enumerated completely) differential cases through the real parseScript, compileV2, printSteps and combineActs (plus the -n -p CLI on a sample), with the denotation as oracle on the implementation's own output. The printed steps are modelled byte for byte (Model/StepsText.v) and read back by a proved reader (Model/StepsRead.v: duration text exact, printed text injective on acts, scene times, lines and moods, so comparing printed text loses nothing); edits are judged by an independent leftmost-first backtracking matcher (Model/Regex.v) for a corpus of patterns.",
         "Trusted: Coq kernel+VM, harness+hook. The regexp substitution of `edit` is a parameter of the theorems (generated cases use literal patterns, a corpus of regexes written twice — Go text and Model/Regex.v term — and a few whose substituted text the harness supplies). Index safety of the Go code and the exact printed text are covered by the correspondence only. Tabs/other white space inside clauses and negative tempos are outside the theorems' domain (still compared).",
         "Rocq/Coq proof (induction on byte strings and clause lists: refinement to a denotation) + differential correspondence by vm_compute",
         "DESIGN.md section 6, C06"),
 "C16": ("proof",
         "Round trip, rotation losslessness and the GC rule are proved in Coq for all entries, sequences, sizes, thresholds and clocks, about hand-written executable byte-level models of clog.go/file.go (formatter, a recogniser for the entry regexp, split/Decode with TrimSpace and time.Parse range checks; write/rotate/GC over an abstract directory). Every run ties the models to the current source by running the real Format/Decode pair, the real main and secondary loggers and the real gcOldFiles on ~1,400 (quick) / ~14,800 (thorough) generated cases; the model's output and an independent plain-meaning oracle are evaluated in Coq's VM. The stated round trip is refuted with a witness (goroutine 0 + file '12 a.go') replayed on the real code and listed as a known finding; what is proved carries the extra guards listed in Properties/C16.v, each replayed as a probe.",
         "Trusted: Coq kernel+VM, harness+hook. Assumed: time package conversions between civil fields and instants, bufio chunking (the model's split sees the whole input; tokens >= 64 KiB are outside), multi-byte runes matched by the regexp's '.', constant per-file header size (measured per run), GC right after a flush, distinct file stamps.",
         "Rocq/Coq proof (induction over entry lists and operation sequences) + differential correspondence and probes evaluated by vm_compute",
         "DESIGN.md section 6, C16"),
 "C03": ("proof",
         "Executable model (Model/Verdict.v) of parseInterpretation's effect, the collector's tallies, checkAuditViolations, the -S early exit and conduct's four-stage error funnel with ignCancel and the deferred audit re-check. Theorems: per (auditor, result) pair the last applicable clause decides for every clause sequence incl. the shorthand and members declared later; the verdict is non-nil iff the documented rule says so; for every interpretation and report stream -S yields the same verdict (stops early only when already fouled); conduct's four shutdown stages are modelled with an oracle for the choices of its select statements (one element per select; every behaviour of the scheduler is the behaviour under some oracle): for every oracle and all component error values each component's channel is read exactly once, an audit verdict, a cleanup failure and every component error that does not present itself as a cancellation reach the exit status, a non-zero status has a cause, the collector (which carries the verdict) is cancelled only after another component delivered an error, and a play whose commands do not fail exits by the verdict over ALL reports; the same statement about the pinned code (stages without the repair 19d275f) is refuted with a witness, as is the full funnel statement (a real cause hidden behind a trailing cancellation is dropped). Tie: 500 (thorough 10000) generated audiences with interpretation sections x histories through the real audition+collector functions without and with -S, compared in Coq with the model and with the documented rule computed from the implementation's own tallies and the generator's independent last-wins computation; 400 (10000) stage cases (oracle x component errors) through a second hand-written mirror of the stages and the real combineErrors/ignCancel/errors.Is; plus ~180 end-to-end plays of the real binary: one per single cause x {-S}, 120 runs of plays that end at once (the components then end in varying orders), audition errors while the prompter waits, and plays already fouled that are then told to end by SIGTERM/SIGHUP/SIGINT, checking exit status and result.js Foul.",
         "Trusted: Coq kernel+VM, harness+hook. Modelled: error values as cause lists with Is/Unwrap looking at the last element; which error values components produce, and that the real selects of conduct have the structure of the model's stages, is observed end-to-end only. Directory/upload failures are outside the model.",
         "Rocq/Coq proof (induction over clause lists / report streams; case analysis over finish orders) + differential correspondence + end-to-end exit-status plays",
         "DESIGN.md section 6, C03"),
 "C02": ("proof",
         "The audition round machine (checkEvent, checkEventForAuditor, processAssignments, checkExpect, checkActivationPeriodEnd, setAndActivateVar, processMoodChange, checkFinal) is an executable Gallina model (Model/Audit.v over an expression evaluator Model/Expr.v and the translated FSM tables). Theorems, for every configuration, auditor and event history of any length: the emitted outputs follow the period grammar (Start Report* Report_end Stop)* of Model/AuditSpec.v — reports only inside periods, each period judged by a fresh evaluator from the table's start state (independence), exactly one end-of-period judgement right before Stop; when the history ends with the end of the play every period is closed; the auditing flag follows the sampled activation condition; outside periods nothing is output or written. Proved by a simulation invariant between the model state and the grammar state, lifted through visits, rounds, mood changes and the event loop. Tied to the code on every run: 400 (thorough 8000) generated audiences x histories run through the real audition via a hook; every emitted report/observation/start/stop is compared per round with the model (vm_compute) and, independently of the model, with a period oracle (alternation, closure, NFA check that each period's codes are producible by a fresh evaluator, expected period boundaries for throughout/constant/mood/signal conditions) and an observation oracle (for auditors whose predicate is a plain comparison of one signal: the codes of each period are those of the modality run afresh over the observations read off the events alone).",
         "Trusted: Coq kernel+VM, harness+hook, generator's two printers (govaluate syntax / Coq AST) agreeing. Modelled not verified: govaluate semantics for the generated subset, float64 as exact rationals, buffered channel sends. Theorem c02_every_period_closed assumes no evaluation error aborted the audition.",
         "Rocq/Coq proof: simulation invariant (model state vs period grammar) by induction over visits/rounds/events; differential correspondence + independent period oracle by vm_compute",
         "DESIGN.md section 6, C02"),
 "C01": ("proof",
         "The transition tables of the predefined automata are translated to Coq on every run (dumped from the registry of a binary built from the current tree, hook VerifAutomataTables + harness/fsmdump; gofsm2v over go/ast cross-checks them against the literals of pred_fsm.go when it can render the file); a reflective, certificate-based automaton-equivalence checker (soundness proved once, Base/Dfa.v) shows by vm_compute that every registered table, composed with the hand-modelled report/reset logic of processFsmStateChange, is equivalent to a monitor that is proved (induction on the trace) to decide the modality's plain meaning — hence for observation sequences of every length: disappointment iff the meaning is violated, no crash, satisfaction at the end of a period without disappointment, and exactly the ten names are accepted. Through the round machine of Model/Audit.v (C02's subject) a further theorem says that what an auditor observes IS its predicate: the label of every report other than the end-of-period judgement is the predicate's value in that round, after the auditor's own assignments and only when its dependencies were just sampled. The hand-modelled glue is tied by running the real parseAuditWhen/startOfAuditPeriod/processFsmStateChange on all traces up to a length bound plus random long ones and raw label sequences, and by audition-level plays (several activation periods per play delimited by moods incl. the clear mood with predicates over moodt, by a signal with rounds that do not sample it, by the end of the play, with an aborting neighbour), compared in Coq with the model and with the meaning oracle. A failing obligation triggers a shortest-counterexample search over the product automaton, replayed on the real code.",
         "Trusted: Coq kernel+VM, the translator fsmdump (prints the run-time registry; gofsm2v refuses unknown constructs and is only a cross-check), the harness/hook. Modelled by hand: classification of states by name, reset after bad, panics on unknown labels/indices. Reading of 'eventually always' as false^i true^(j+1).",
         "Rocq/Coq proof: translator + reflective DFA equivalence (vm_compute) + monitor = meaning by induction; differential correspondence on the glue",
         "DESIGN.md section 6, C01"),
 "C18": ("proof",
         "Coq theorems over an executable model of ToUnixMicros/FromUnixMicros (nearest half-up for every instant, monotone, round trip; by lia) and of the Timer wrapper as an LTS with inner timer, channel slot, Read flag and pool (invariant for every label sequence: no operation blocks, at most one receive per Reset and not early, nothing after Stop, refinement to an abstract one-shot timer). Tied to the code on every run by a correspondence check: the real functions run on ~18k boundary/random instants (incl. both ends of the int64 range and the limits of what time.Unix(0, ns) can hold) and ~140 Timer op sequences (Reset with 1 ms, 1 h, 0 and negative durations), tick latencies measured against the duration asked for, evaluated against the model and the plain-meaning oracle inside Coq (vm_compute); three plays exercise the collector's flush Timer (silent first second, steady stream of events, flood of events).",
         "Trusted: Coq kernel+VM, harness and Coq-term printer; time.Time.Round/Unix and time.Timer semantics are modelled (exercised by the cases, not verified); int64 overflow outside the model; Timer used from one goroutine as its contract says.",
         "Rocq/Coq proof (lia, invariant induction, refinement) + differential correspondence evaluated by vm_compute",
         "DESIGN.md section 6, C18"),
}

import subprocess
try:
    HOOK_COMMITS = subprocess.check_output(["git", "-C", "/repo", "log", "--reverse", "--format=%h %s", "--grep=^verif hooks"],
                                           text=True).strip().split("\n")
except Exception:
    HOOK_COMMITS = []


def main():
    checks = []
    for pid in ALL:
        if pid not in CHECKS:
            continue
        cat, text, note, tech, ref = CHECKS[pid]
        # as-built descriptions maintained next to the checks override the texts above
        ov = os.path.join(os.path.dirname(os.path.abspath(__file__)), "manifest_texts", pid + ".json")
        if os.path.exists(ov):
            try:
                o = json.load(open(ov))
                text, note, tech = o.get("text", text), o.get("note", note), o.get("technique", tech)
            except ValueError:
                pass
        checks.append({
            "property_id": pid,
            "quick_cmd": "./check %s --tier quick" % pid,
            "thorough_cmd": "./check %s --tier thorough" % pid,
            "evidence_file": "/verif/evidence/%s.json" % pid,
            "replay_cmd_template": "./check %s --replay {path}" % pid,
            "engine": "coq-corr",
            "level_claimed": {"category": cat, "text": text, "design_ref": ref},
            "level_note": note,
            "technique": tech,
        })
    na = [{"property_id": p, "reason": "check not built yet in this round (planned, DESIGN.md section 6); nothing is claimed for it"}
          for p in ALL if p not in CHECKS]
    man = {
        "version": 1,
        "setup_cmd": "./setup.sh",
        "hooks": {
            "guard": "verif",
            "enable": "go build -tags verif (the driver copies /repo's working tree to a scratch directory, adds /verif/harness as sub-packages and builds there)",
            "baseline_off_cmd": "cd /repo && GOFLAGS=-mod=mod GOPROXY=off GOSUMDB=off go test -mod=mod -json -vet=off -count=1 -timeout 25m ./...",
            "source_commits": HOOK_COMMITS,
            "add_only": True,
        },
        "engines": [{
            "name": "coq-corr", "path": "/verif/check",
            "serves_properties": sorted(CHECKS),
            "kind_free_text": "Coq 8.16.1 development (/verif/coq) with per-run correspondence: Go harness runs the real code (built from /repo's working tree, -tags verif), observations are evaluated against the executable Gallina model and the property oracle by vm_compute; translators regenerate .v files from source where the code is data",
        }],
        "checks": checks,
        "notes": "See DESIGN.md. KNOWN_FINDINGS.json lists fixed and known defects.",
        "not_applicable": na,
    }
    with open(os.path.join(ROOT, "MANIFEST.json"), "w") as f:
        json.dump(man, f, indent=1)
    print("wrote MANIFEST.json with %d checks" % len(checks))


if __name__ == "__main__":
    main()
