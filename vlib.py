"""Shared machinery of the /verif checks (see DESIGN.md sections 1, 4, 5).

Everything a check needs that is not specific to one property lives here:
  * scratch build of /repo's *current working tree* with -tags verif
    (binaries cached under /verif/.cache/<tree hash>/bin, scratch copy removed
    at once);
  * the Coq project build (full .vo build through coq_makefile, under flock);
  * compilation of per-run Coq files (translator output, correspondence cases,
    Print Assumptions probes) with a direct coqc call;
  * forbidden-command grep over the development;
  * evidence / replay / known-finding handling and the VIOLATION protocol.
"""
import contextlib
import fcntl
import hashlib
import json
import os
import re
import shutil
import subprocess
import sys
import tempfile
import time

ROOT = os.path.dirname(os.path.abspath(__file__))
REPO = os.environ.get("VERIF_REPO", "/repo")
COQ = os.path.join(ROOT, "coq")
CACHE = os.path.join(ROOT, ".cache")
HARNESS = os.path.join(ROOT, "harness")
# VERIF_OUT redirects evidence and replays (used by tools/seedtest.py, seedretest.py and
# bentest.py so that runs against changed trees never overwrite the evidence of /repo itself)
OUT = os.environ.get("VERIF_OUT", ROOT)
EVIDENCE = os.path.join(OUT, "evidence")
REPLAYS = os.path.join(OUT, "replays")
CORPUS = os.path.join(ROOT, "corpus")
KNOWN = os.path.join(ROOT, "KNOWN_FINDINGS.json")
NCPU = os.cpu_count() or 4

GOENV = dict(os.environ)
GOENV.update({
    "GOFLAGS": "-mod=mod", "GOPROXY": "off", "GOSUMDB": "off",
    "GOTOOLCHAIN": "local", "CGO_ENABLED": os.environ.get("CGO_ENABLED", "1"),
})

ALLOWED_AXIOMS = set()  # the development needs none; see DESIGN.md section 2

FORBIDDEN = re.compile(
    r"\b(Admitted|admit|Axiom|Axioms|Parameter|Parameters|Conjecture|Conjectures|"
    r"Admit Obligations|Unset Guard Checking|Unset Positivity Checking|"
    r"Unset Universe Checking|bypass_check|native_compute|type-in-type|"
    r"impredicative-set)\b")


def log(*a):
    print(*a, file=sys.stderr, flush=True)


@contextlib.contextmanager
def flock(name):
    os.makedirs(CACHE, exist_ok=True)
    path = os.path.join(CACHE, name + ".lock")
    with open(path, "w") as f:
        fcntl.flock(f, fcntl.LOCK_EX)
        try:
            yield
        finally:
            fcntl.flock(f, fcntl.LOCK_UN)


def run(cmd, timeout=600, cwd=None, env=None, input=None):
    """Run a command under a timeout; return (rc, stdout+stderr)."""
    try:
        p = subprocess.run(cmd, cwd=cwd, env=env, input=input, timeout=timeout,
                           stdout=subprocess.PIPE, stderr=subprocess.STDOUT,
                           text=True, errors="replace")
        return p.returncode, p.stdout
    except subprocess.TimeoutExpired as e:
        out = e.stdout or ""
        if isinstance(out, bytes):
            out = out.decode("utf-8", "replace")
        return 124, out + "\n[timeout after %ss]" % timeout


# --------------------------------------------------------------------------
# tree hash and scratch build

_SRC_EXT = (".go", ".mod", ".sum", ".html", ".txt", ".sh", ".md")


def _iter_files(base, skip_dirs=(".git",)):
    for d, dirs, files in os.walk(base):
        dirs[:] = sorted(x for x in dirs if x not in skip_dirs)
        for f in sorted(files):
            yield os.path.join(d, f)


def tree_hash():
    h = hashlib.sha256()
    for base in (REPO, HARNESS):
        for p in _iter_files(base):
            if not p.endswith(_SRC_EXT):
                continue
            if "/testdata/" in p or "/examples/" in p or "/docs/" in p:
                continue
            try:
                with open(p, "rb") as f:
                    data = f.read()
            except OSError:
                continue
            h.update(os.path.relpath(p, base).encode())
            h.update(b"\0")
            h.update(hashlib.sha256(data).digest())
    return h.hexdigest()[:20]


class BuildError(Exception):
    def __init__(self, what, output):
        Exception.__init__(self, what)
        self.what = what
        self.output = output


def _prune_cache(keep):
    try:
        ents = [e for e in os.listdir(CACHE)
                if os.path.isdir(os.path.join(CACHE, e)) and re.fullmatch(r"[0-9a-f]{20}", e)]
    except OSError:
        return
    ents.sort(key=lambda e: os.path.getmtime(os.path.join(CACHE, e)), reverse=True)
    # never remove a cache directory that a running check may still be using:
    # only entries beyond the 40 newest AND older than 12 hours go
    now = time.time()
    for e in ents[40:]:
        if e != keep and now - os.path.getmtime(os.path.join(CACHE, e)) > 12 * 3600:
            shutil.rmtree(os.path.join(CACHE, e), ignore_errors=True)


def make_scratch():
    """Copy /repo's working tree (not .git) to a fresh temp directory, add the
    two git-ignored generated files pkg/cmd needs, and the harness sources as
    sub-packages of the module.  Caller removes the directory."""
    scratch = tempfile.mkdtemp(prefix="shk-scratch-")
    rc, out = run(["rsync", "-a", "--exclude", ".git", REPO + "/", scratch + "/"])
    if rc != 0:
        shutil.rmtree(scratch, ignore_errors=True)
        raise BuildError("rsync", out)
    if not os.path.exists(os.path.join(scratch, "pkg/cmd/report_html.go")):
        rc, out = run(["sh", "mkreport.sh"], cwd=scratch)
        if rc != 0:
            shutil.rmtree(scratch, ignore_errors=True)
            raise BuildError("mkreport.sh", out)
    vg = os.path.join(scratch, "pkg/cmd/version.go")
    if not os.path.exists(vg):
        with open(vg, "w") as f:
            f.write('// Generated code (verif scratch)\npackage cmd\n\n'
                    'const versionName = "verif scratch build"\n')
    dst = os.path.join(scratch, "verifharness")
    shutil.copytree(HARNESS, dst)
    return scratch


def build_bins(names, race=False):
    """Build harness mains (and 'shakespeare' = the real binary) from the
    current working tree.  Returns {name: path}.  Raises BuildError."""
    th = tree_hash()
    bindir = os.path.join(CACHE, th, "bin")
    suffix = "-race" if race else ""
    res = {n: os.path.join(bindir, n + suffix) for n in names}
    if all(os.path.exists(p) for p in res.values()):
        return res
    with flock("build"):
        missing = [n for n in names if not os.path.exists(res[n])]
        if not missing:
            return res
        os.makedirs(bindir, exist_ok=True)
        _prune_cache(th)
        scratch = make_scratch()
        try:
            for n in missing:
                pkg = "." if n == "shakespeare" else "./verifharness/" + n
                cmd = ["go", "build", "-tags", "verif"]
                if race:
                    cmd.append("-race")
                cmd += ["-o", res[n] + ".tmp", pkg]
                rc, out = run(cmd, cwd=scratch, env=GOENV, timeout=900)
                if rc != 0:
                    raise BuildError("go build %s" % n, out)
                os.rename(res[n] + ".tmp", res[n])
        finally:
            shutil.rmtree(scratch, ignore_errors=True)
    return res


# --------------------------------------------------------------------------
# Coq

def _v_files():
    out = []
    for p in _iter_files(os.path.join(COQ, "theories")):
        if p.endswith(".v"):
            out.append(os.path.relpath(p, COQ))
    return out


def grep_forbidden():
    """Return list of 'file:line: text' for forbidden commands in the
    development (comments stripped naively: (* ... *) on one line)."""
    bad = []
    for rel in _v_files():
        with open(os.path.join(COQ, rel), errors="replace") as f:
            txt = f.read()
        # strip comments (nested-aware)
        res, depth, i = [], 0, 0
        while i < len(txt):
            if txt.startswith("(*", i):
                depth += 1
                i += 2
            elif txt.startswith("*)", i) and depth > 0:
                depth -= 1
                i += 2
            else:
                if depth == 0 or txt[i] == "\n":
                    res.append(txt[i])
                i += 1
        for n, line in enumerate("".join(res).split("\n"), 1):
            if FORBIDDEN.search(line):
                bad.append("%s:%d: %s" % (rel, n, line.strip()))
    return bad


def coq_make(clean=False, timeout=3000):
    """Full .vo build of the library.  Returns (ok, log)."""
    with flock("coq"):
        files = _v_files()
        proj = "-Q theories Shk\n-arg -w -arg -notation-overridden,-deprecated-hint-without-locality,-deprecated-instance-without-locality\n" + "\n".join(files) + "\n"
        pp = os.path.join(COQ, "_CoqProject")
        old = open(pp).read() if os.path.exists(pp) else None
        if old != proj or not os.path.exists(os.path.join(COQ, "Makefile")):
            with open(pp, "w") as f:
                f.write(proj)
            rc, out = run(["coq_makefile", "-f", "_CoqProject", "-o", "Makefile"], cwd=COQ)
            if rc != 0:
                return False, out
        if clean:
            run(["make", "clean"], cwd=COQ, timeout=300)
        # every coqc under a time and address-space limit: one runaway file
        # must not starve the other properties' checks
        rc, out = run(["bash", "-c", "ulimit -v 24000000; exec make -k -j%d COQC='timeout 1200 coqc'" % NCPU],
                      cwd=COQ, timeout=timeout)
        return rc == 0, out


def vo_up_to_date(rel_v):
    """Is theories/<...>.vo built and newer than all its dependencies?
    (make -q on the target; run under the coq lock)."""
    with flock("coq"):
        rc, _ = run(["make", "-q", rel_v[:-2] + ".vo"], cwd=COQ, timeout=120)
    return rc == 0


_GEN_DIR = [None]


def gen_dir():
    """Directory of the files translated from the source on this run
    (FsmTables.v, AccessSites.v and their obligations), one per source tree:
    coq/gen/<tree hash>.  Runs against different trees (seeded changes checked
    in parallel) therefore never see each other's translation; runs against the
    same tree share it (write_if_changed + a lock per file)."""
    if _GEN_DIR[0] is None:
        d = os.path.join(COQ, "gen", tree_hash())
        os.makedirs(d, exist_ok=True)
        _sweep_gen(os.path.join(COQ, "gen"), keep=d)
        _GEN_DIR[0] = d
    return _GEN_DIR[0]


def _sweep_gen(base, keep, max_age=6 * 3600):
    now = time.time()
    try:
        for fn in os.listdir(base):
            p = os.path.join(base, fn)
            if p == keep:
                continue
            try:
                if now - os.path.getmtime(p) > max_age:
                    if os.path.isdir(p):
                        shutil.rmtree(p, ignore_errors=True)
                    else:
                        os.remove(p)
            except OSError:
                pass
    except OSError:
        pass


def coqc(path, timeout=600, extra_q=()):
    """Compile one per-run file (in coq/gen/<tree> or coq/cases) against the
    built library.  Returns (rc, output)."""
    cmd = ["coqc", "-Q", os.path.join(COQ, "theories"), "Shk",
           "-Q", gen_dir(), "ShkGen",
           "-w", "-notation-overridden,-deprecated-hint-without-locality"]
    cmd += list(extra_q) + [path]
    return run(cmd, cwd=os.path.dirname(path), timeout=timeout)


def write_if_changed(path, text):
    os.makedirs(os.path.dirname(path), exist_ok=True)
    try:
        if open(path).read() == text:
            return False
    except OSError:
        pass
    with open(path, "w") as f:
        f.write(text)
    return True


def print_assumptions(pid, module, theorems, tag=""):
    """Compile a probe that Requires Shk.Properties.<module> and prints the
    assumptions of each theorem.  Returns {thm: [axioms]} or None for a theorem
    that does not exist / does not compile; plus raw output."""
    d = os.path.join(COQ, "cases")
    os.makedirs(d, exist_ok=True)
    path = os.path.join(d, "Assum_%s%s_p%d.v" % (pid, tag, os.getpid()))
    lines = ["Require Import Shk.Properties.%s." % module]
    for t in theorems:
        lines.append('Goal True. idtac "@@BEGIN %s". Abort.' % t)
        lines.append("Print Assumptions %s." % t)
        lines.append('Goal True. idtac "@@END %s". Abort.' % t)
    with open(path, "w") as f:
        f.write("\n".join(lines) + "\n")
    rc, out = coqc(path, timeout=300)
    for ext in (".v", ".vo", ".glob", ".vok", ".vos"):
        try:
            os.remove(path[:-2] + ext)
        except OSError:
            pass
    try:
        os.remove(os.path.join(d, "." + os.path.basename(path)[:-2] + ".aux"))
    except OSError:
        pass
    res = {}
    for t in theorems:
        m = re.search(r"@@BEGIN %s\n(.*?)@@END %s" % (re.escape(t), re.escape(t)), out, re.S)
        if not m:
            res[t] = None
            continue
        body = m.group(1).strip()
        if body.startswith("Closed under the global context"):
            res[t] = []
        else:
            axs = []
            for ln in body.split("\n"):
                mm = re.match(r"^([A-Za-z_][\w.']*)\s*:", ln)
                if mm:
                    axs.append(mm.group(1))
            res[t] = axs if axs else ["<unparsed>: " + body[:200]]
    return res, rc, out


def eval_cases(pid, tag, header, cases_text, queries, timeout=900):
    """Write coq/cases/Cases_<pid>_<tag>.v = header + cases_text + one
    `Definition Q := Eval vm_compute in <expr>. Print Q.` per query, compile,
    and return {query_name: raw text of the printed value} (None if absent)."""
    d = os.path.join(COQ, "cases")
    os.makedirs(d, exist_ok=True)
    # the process id keeps concurrent runs (of the same property, e.g. against
    # different trees) from overwriting each other's files
    path = os.path.join(d, "Cases_%s_%s_p%d.v" % (pid, tag, os.getpid()))
    _sweep_cases(d)
    parts = [header, cases_text]
    for q, expr in queries:
        parts.append('Goal True. idtac "@@BEGIN %s". Abort.' % q)
        parts.append("Definition %s := Eval vm_compute in (%s).\nPrint %s." % (q, expr, q))
        parts.append('Goal True. idtac "@@END %s". Abort.' % q)
    with open(path, "w") as f:
        f.write("\n".join(parts) + "\n")
    rc, out = coqc(path, timeout=timeout)
    for ext in (".vo", ".vok", ".vos", ".glob"):
        try:
            os.remove(path[:-2] + ext)
        except OSError:
            pass
    try:
        os.remove(os.path.join(d, "." + os.path.basename(path)[:-2] + ".aux"))
    except OSError:
        pass
    res = {}
    for q, _ in queries:
        m = re.search(r"@@BEGIN %s\n(.*?)@@END %s" % (q, q), out, re.S)
        res[q] = m.group(1) if m else None
    return rc, out, res, path


def split_list_def(text, name):
    """Find `Definition <name> : <T> := [\n  a;\n  b\n]<scope>.` (the shape
    vh.ListNL writes) in text.  Returns (head, items, tail) where head is
    `Definition <name> : <T> := `, items the element strings and tail the
    closing scope annotation + '.', or None."""
    m = re.search(r"Definition %s : [^\n]*? := \[\n  " % re.escape(name), text)
    if not m:
        return None
    start = m.end()
    end = text.index("\n]", start)
    tail_end = text.index(".\n", end)
    items = text[start:end].split(";\n  ")
    head = text[m.start():m.end() - len("[\n  ")]
    return head, items, text[end + 2:tail_end + 1]


def join_list_def(head, items, tail):
    return head + "[\n  " + ";\n  ".join(items) + "\n]" + tail + "\n"


def _sweep_cases(d, max_age=2 * 3600):
    """Remove case files left by earlier runs (they can be large)."""
    now = time.time()
    try:
        for fn in os.listdir(d):
            p = os.path.join(d, fn)
            if fn.startswith(("Cases_", ".Cases_")) and now - os.path.getmtime(p) > max_age:
                try:
                    os.remove(p)
                except OSError:
                    pass
    except OSError:
        pass


def parse_nat_list(txt):
    """Parse 'Q = [1; 2; 3]%N : list N' (possibly wrapped) into ints; None if
    it does not look like a list value."""
    if txt is None:
        return None
    s = " ".join(txt.split())
    m = re.search(r"=\s*(\[.*\]|nil)\s*(%\w+)?\s*:", s)
    if not m:
        return None
    body = m.group(1)
    if body == "nil":
        return []
    return [int(x) for x in re.findall(r"-?\d+", re.sub(r"%\w+", "", body))]


# --------------------------------------------------------------------------
# Coq term printers used by the Python side

def coq_bytes(b):
    if isinstance(b, str):
        b = b.encode()
    return "[" + "; ".join("x%02x" % c for c in b) + "]"


def coq_Z(n):
    return "(%d)%%Z" % n


def coq_list(items):
    return "[" + "; ".join(items) + "]"


def coq_bool(b):
    return "true" if b else "false"


# --------------------------------------------------------------------------
# known findings, replays, evidence

def load_known():
    try:
        with open(KNOWN) as f:
            return json.load(f)
    except OSError:
        return {"findings": []}


def known_match(pid, signature):
    """Return the entry of kind 'known' matching (pid, signature), if any.
    'fixed' entries never match (they suppress nothing)."""
    for e in load_known().get("findings", []):
        if e.get("property") == pid and e.get("kind") == "known" and e.get("signature") == signature:
            return e
    return None


def write_replay(pid, name, obj):
    d = os.path.join(REPLAYS, pid)
    os.makedirs(d, exist_ok=True)
    path = os.path.join(d, name + ".json")
    with open(path, "w") as f:
        json.dump(obj, f, indent=1, sort_keys=True, default=str)
    return path


class Result:
    """Accumulates what one run of one check found; prints the protocol lines
    and writes the evidence."""

    def __init__(self, pid, tier, seed, level="proof"):
        self.pid, self.tier, self.seed, self.level = pid, tier, seed, level
        self.t0 = time.time()
        self.violations = []     # (replay_path, text, no_input)
        self.known = []          # text
        self.coverage = {}
        self.assumptions = []
        self.notes = []

    def violation(self, signature, what, replay_obj, no_input=False):
        """Report a failing input (or a broken obligation when no_input).  If
        (pid, signature) is a listed known finding it is downgraded."""
        k = known_match(self.pid, signature) if signature else None
        if k is not None and not no_input:
            txt = "%s [%s]" % (k.get("what", what), signature)
            if txt not in self.known:
                self.known.append(txt)
            return False
        n = len(self.violations) + 1
        replay_obj = dict(replay_obj)
        replay_obj.setdefault("property", self.pid)
        replay_obj.setdefault("signature", signature)
        replay_obj.setdefault("what", what)
        replay_obj.setdefault("seed", self.seed)
        replay_obj.setdefault("tier", self.tier)
        path = write_replay(self.pid, "%s-%d" % (self.tier, n), replay_obj)
        self.violations.append((path, what, no_input))
        return True

    def finish(self):
        cov = dict(self.coverage)
        ev = {
            "property_id": self.pid, "tier": self.tier, "seed": self.seed,
            "level": self.level, "coverage": cov,
            "assumptions": self.assumptions,
            "wall_s": round(time.time() - self.t0, 2),
            "violations": len(self.violations),
        }
        if self.known:
            ev["known_findings_seen"] = self.known
        if self.notes:
            ev["notes"] = self.notes
        os.makedirs(EVIDENCE, exist_ok=True)
        with open(os.path.join(EVIDENCE, self.pid + ".json"), "w") as f:
            json.dump(ev, f, indent=1, default=str)
        for k in self.known:
            print("KNOWN-FINDING: property=%s %s" % (self.pid, k))
        for path, what, no_input in self.violations:
            log("violation: " + what)
            print("VIOLATION property=%s replay=%s%s" %
                  (self.pid, path, " no-failing-input-found" if no_input else ""))
        if not self.violations:
            print("OK property=%s tier=%s wall=%.1fs" % (self.pid, self.tier, ev["wall_s"]))
        sys.stdout.flush()
        return 1 if self.violations else 0


# --------------------------------------------------------------------------
# the part of a check every property shares: library build + obligations

TRUSTED_BASE_COMMON = [
    "Coq 8.16.1 kernel incl. its vm_compute VM (no native_compute)",
    "Print Assumptions output parsed by vlib.print_assumptions; allowed axioms: none",
    "Go harness + //go:build verif hooks exposing unexported functions unchanged",
    "Coq term printer of the harness and the `mismatches`/`oracle` functions in theories/Corr",
]


def proof_stage(res, module, theorems, refuted=()):
    """Build the library, grep for forbidden commands, check every theorem of
    Properties/<module>.v compiled and is axiom-free.  Fills the proof keys of
    res.coverage.  Returns (ok, detail).  ok=False means a proof obligation is
    broken (caller then searches for a failing input)."""
    bad = grep_forbidden()
    mk_ok, out = coq_make()
    # the whole library must build for a clean bill, but a check is only
    # *broken* by its own property file (and what it depends on) not building
    ok = vo_up_to_date("theories/Properties/%s.v" % module)
    detail = {"make_ok": mk_ok, "property_vo_up_to_date": ok}
    ass, rc, aout = ({}, 1, "")
    if ok:
        ass, rc, aout = print_assumptions(res.pid, module, list(theorems) + list(refuted))
    discharged, broken = 0, []
    for t in theorems:
        a = ass.get(t)
        if a is None:
            broken.append(t + ": not compiled")
        elif [x for x in a if x not in ALLOWED_AXIOMS]:
            broken.append(t + ": depends on " + ", ".join(a))
        else:
            discharged += 1
    for t in refuted:
        if ass.get(t) is None or ass.get(t):
            broken.append(t + ": refutation not compiled / not axiom-free")
    if bad:
        broken.append("forbidden commands: " + "; ".join(bad[:5]))
    res.coverage.update({
        "obligations": len(theorems),
        "discharged": discharged,
        "theorems": list(theorems),
        "refuted_statements_with_witness": list(refuted),
        "print_assumptions": {t: ("Closed under the global context" if ass.get(t) == [] else ass.get(t))
                              for t in list(theorems) + list(refuted)},
        "checker_cmd": "cd /verif/coq && coq_makefile -f _CoqProject -o Makefile && make -j16  (full .vo build) ; coqc probe with Print Assumptions per theorem",
        "trusted_base": list(TRUSTED_BASE_COMMON),
    })
    detail["broken"] = broken
    if ok and not broken and res.tier == "thorough" and os.environ.get("VERIF_NO_COQCHK") != "1":
        coqchk(res, module)
    if not ok:
        tail = "\n".join(out.strip().split("\n")[-40:])
        detail["make_log_tail"] = tail
        # which files failed?
        detail["failed_files"] = re.findall(r"File \"\./([^\"]+)\", line", out)
    return (ok and not broken), detail


def coqchk(res, module, timeout=3000):
    """Thorough tier: re-check Properties/<module>.vo and everything it depends
    on with the independent checker, and record the axioms it lists."""
    rc, out = run(["coqchk", "-silent", "-o", "-Q", "theories", "Shk", "Shk.Properties.%s" % module],
                  cwd=COQ, timeout=timeout)
    m = re.search(r"\* Axioms:(.*?)\n\s*\n\* Constants", out, re.S)
    axioms = " ".join(m.group(1).split()) if m else "<unparsed>"
    res.coverage["coqchk"] = {"exit": rc, "axioms": axioms,
                              "cmd": "coqchk -silent -o -Q theories Shk Shk.Properties.%s" % module}
    if rc != 0 or axioms != "<none>":
        res.violation(None, "coqchk does not accept Properties/%s.vo axiom-free: exit %s, axioms %s" % (module, rc, axioms),
                      {"kind": "proof-obligation", "coqchk_output": out[-3000:]}, no_input=True)
        return False
    return True


def std_args(argv=None):
    import argparse
    ap = argparse.ArgumentParser()
    ap.add_argument("pid")
    ap.add_argument("--tier", default=os.environ.get("VERIF_TIER", "quick"))
    ap.add_argument("--seed", type=int, default=int(os.environ.get("VERIF_SEED", "1")))
    ap.add_argument("--replay", default=None)
    return ap.parse_args(argv)
