(** Shared prelude: imports, the [Outcome] type of DESIGN.md section 3, and
    small list utilities used by the correspondence functions.  No proofs of
    properties here. *)
From Coq Require Export List ZArith NArith Bool Lia Arith.
From Coq Require Export Strings.Byte.
Export ListNotations.

(** Outcome of a modelled Go computation.  [Panic] and [OutOfFuel] are real
    outcomes of the models, never totalised away. *)
Inductive Outcome (A : Type) : Type :=
| Ok (a : A)
| Err (code : N)        (* a diagnostic; the code is a small enum per model *)
| Panic
| OutOfFuel.
Arguments Ok {A} a.
Arguments Err {A} code.
Arguments Panic {A}.
Arguments OutOfFuel {A}.

Definition obind {A B} (o : Outcome A) (f : A -> Outcome B) : Outcome B :=
  match o with
  | Ok a => f a
  | Err c => Err c
  | Panic => Panic
  | OutOfFuel => OutOfFuel
  end.

(** Tail-recursive index collection: positions (from 0) of the cases on which
    [bad] holds.  Tail recursive because the VM's stack is the limit on long
    case lists (DESIGN.md section 4). *)
Fixpoint bad_indices_aux {A} (bad : A -> bool) (l : list A) (i : N) (acc : list N) : list N :=
  match l with
  | [] => rev' acc
  | x :: tl => bad_indices_aux bad tl (N.succ i) (if bad x then i :: acc else acc)
  end.
Definition bad_indices {A} (bad : A -> bool) (l : list A) : list N :=
  bad_indices_aux bad l 0%N [].

Definition byte_eqb (a b : byte) : bool := Byte.eqb a b.

Fixpoint bytes_eqb (a b : list byte) : bool :=
  match a, b with
  | [], [] => true
  | x :: a', y :: b' => Byte.eqb x y && bytes_eqb a' b'
  | _, _ => false
  end.

Fixpoint list_eqb {A} (eqb : A -> A -> bool) (a b : list A) : bool :=
  match a, b with
  | [], [] => true
  | x :: a', y :: b' => eqb x y && list_eqb eqb a' b'
  | _, _ => false
  end.

Lemma list_eqb_eq {A} (eqb : A -> A -> bool) :
  (forall x y, eqb x y = true <-> x = y) ->
  forall a b, list_eqb eqb a b = true <-> a = b.
Proof.
  intros H a; induction a as [|x a IH]; intros [|y b]; cbn; try (split; congruence).
  rewrite andb_true_iff, H, IH. split; [intros [-> ->]; reflexivity | intros E; inversion E; auto].
Qed.

Lemma byte_eqb_eq x y : Byte.eqb x y = true <-> x = y.
Proof. split; [apply Byte.byte_dec_bl | apply Byte.byte_dec_lb]. Qed.

Lemma bytes_eqb_eq a b : bytes_eqb a b = true <-> a = b.
Proof.
  revert b; induction a as [|x a IH]; intros [|y b]; cbn; try (split; congruence).
  rewrite andb_true_iff, IH, byte_eqb_eq.
  split; [intros [-> ->]; reflexivity | intros E; inversion E; auto].
Qed.
