(** Deterministic machines over the alphabet {true,false} with an
    end-of-word output, and a certificate-based equivalence checker.

    [explore] is an *untrusted* fuelled exploration that proposes a set [R] of
    state pairs; only [cert_ok R] is trusted: it contains the initial pair, is
    closed under both letters, and outputs agree on every pair.  Soundness is
    an induction on the word, so too little fuel can only make an obligation
    fail, never pass wrongly. *)
From Shk Require Import Base.Prelude.

Section Dfa.
  Variables SA SB Out : Type.
  Variable eqA : SA -> SA -> bool.
  Variable eqB : SB -> SB -> bool.
  Variable eqO : Out -> Out -> bool.
  Hypothesis eqA_sound : forall x y, eqA x y = true -> x = y.
  Hypothesis eqB_sound : forall x y, eqB x y = true -> x = y.
  Hypothesis eqO_sound : forall x y, eqO x y = true -> x = y.

  Variable initA : SA.
  Variable deltaA : SA -> bool -> SA.
  Variable outA : SA -> Out.
  Variable initB : SB.
  Variable deltaB : SB -> bool -> SB.
  Variable outB : SB -> Out.

  Definition runA (w : list bool) : Out := outA (fold_left deltaA w initA).
  Definition runB (w : list bool) : Out := outB (fold_left deltaB w initB).

  Definition pair_eqb (p q : SA * SB) : bool := eqA (fst p) (fst q) && eqB (snd p) (snd q).
  Definition pair_in (p : SA * SB) (R : list (SA * SB)) : bool := existsb (pair_eqb p) R.

  Lemma pair_in_In p R : pair_in p R = true -> In p R.
  Proof.
    unfold pair_in. rewrite existsb_exists. intros [q [Hq He]].
    unfold pair_eqb in He. apply andb_true_iff in He. destruct He as [Ha Hb].
    apply eqA_sound in Ha. apply eqB_sound in Hb.
    destruct p, q; cbn in *; subst; assumption.
  Qed.

  Definition pair_ok (R : list (SA * SB)) (p : SA * SB) : bool :=
    eqO (outA (fst p)) (outB (snd p)) &&
    pair_in (deltaA (fst p) true, deltaB (snd p) true) R &&
    pair_in (deltaA (fst p) false, deltaB (snd p) false) R.

  Definition cert_ok (R : list (SA * SB)) : bool :=
    pair_in (initA, initB) R && forallb (pair_ok R) R.

  Lemma cert_closed R : cert_ok R = true ->
    forall w a b, In (a, b) R ->
      outA (fold_left deltaA w a) = outB (fold_left deltaB w b).
  Proof.
    intros Hc. apply andb_true_iff in Hc. destruct Hc as [_ Hall].
    rewrite forallb_forall in Hall.
    induction w as [|x w IH]; intros a b Hin; cbn [fold_left].
    - specialize (Hall _ Hin). unfold pair_ok in Hall. cbn [fst snd] in Hall.
      apply andb_true_iff in Hall. destruct Hall as [Hall _].
      apply andb_true_iff in Hall. destruct Hall as [Ho _].
      apply eqO_sound; assumption.
    - apply IH. specialize (Hall _ Hin). unfold pair_ok in Hall. cbn [fst snd] in Hall.
      apply andb_true_iff in Hall. destruct Hall as [Hall Hf].
      apply andb_true_iff in Hall. destruct Hall as [_ Ht].
      destruct x; apply pair_in_In; assumption.
  Qed.

  Theorem cert_sound R : cert_ok R = true -> forall w, runA w = runB w.
  Proof.
    intros Hc w. unfold runA, runB. apply (cert_closed R Hc).
    apply andb_true_iff in Hc. destruct Hc as [Hi _]. apply pair_in_In; assumption.
  Qed.

  (** Untrusted exploration: worklist closure of the initial pair. *)
  Fixpoint explore (fuel : nat) (todo seen : list (SA * SB)) : list (SA * SB) :=
    match fuel with
    | O => seen
    | S fuel' =>
        match todo with
        | [] => seen
        | p :: todo' =>
            if pair_in p seen then explore fuel' todo' seen
            else explore fuel'
                   ((deltaA (fst p) true, deltaB (snd p) true) ::
                    (deltaA (fst p) false, deltaB (snd p) false) :: todo')
                   (p :: seen)
        end
    end.

  Definition equiv_check (fuel : nat) : bool :=
    cert_ok (explore fuel [(initA, initB)] []).

  Theorem equiv_check_sound fuel : equiv_check fuel = true -> forall w, runA w = runB w.
  Proof. apply cert_sound. Qed.

  (** Shortest-counterexample search (used only by the failing-input search;
      nothing is proved about it: a returned word is re-checked by evaluating
      both machines and by replaying it on the implementation). *)
  Fixpoint find_diff (fuel : nat) (todo : list (list bool * SA * SB)) (seen : list (SA * SB))
    : option (list bool) :=
    match fuel with
    | O => None
    | S fuel' =>
        match todo with
        | [] => None
        | (w, a, b) :: todo' =>
            if negb (eqO (outA a) (outB b)) then Some (rev w)
            else if pair_in (a, b) seen then find_diff fuel' todo' seen
            else find_diff fuel'
                   (todo' ++ [(true :: w, deltaA a true, deltaB b true);
                              (false :: w, deltaA a false, deltaB b false)])
                   ((a, b) :: seen)
        end
    end.
  Definition counterexample (fuel : nat) : option (list bool) :=
    find_diff fuel [([], initA, initB)] [].
End Dfa.
