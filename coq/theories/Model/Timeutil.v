(** Model of pkg/crdb/timeutil/{time.go,timer.go} (property C18).

    An instant is Go's [time.Time] reduced to what [Unix()] and [Nanosecond()]
    expose: whole seconds since the Unix epoch (floor) and 0 <= nsec < 10^9.
    int64 overflow is outside the model (DESIGN.md section 3): all arithmetic
    is over [Z]; the theorems carry the guard [0 <= nsec < 10^9] only.

    Executable definitions only; proofs are in Proofs/TimeutilProofs.v. *)
From Shk Require Import Base.Prelude.
Open Scope Z_scope.

Definition instant := (Z * Z)%type.            (* (sec, nsec) *)
Definition wf_instant (t : instant) : Prop := 0 <= snd t < 1000000000.
Definition ns_of (t : instant) : Z := fst t * 1000000000 + snd t.

(** [time.Time.Round(time.Microsecond)]: Go computes r = nsec mod 1000 (the
    fast path of [div] for d < 1s dividing 1s), rounds down if r+r < d and up
    otherwise; [Add] carries into the seconds. *)
Definition round_micro (t : instant) : instant :=
  let '(s, n) := t in
  let r := n mod 1000 in
  if r + r <? 1000 then (s, n - r)
  else let n' := n + 1000 - r in
       if n' >=? 1000000000 then (s + 1, n' - 1000000000) else (s, n').

(** [ToUnixMicros]: [t = t.Round(us); t.Unix()*1e6 + t.Nanosecond()/1e3]
    (Go's [/] truncates; the operand is non-negative). *)
Definition to_micros (t : instant) : Z :=
  let '(s, n) := round_micro t in s * 1000000 + Z.quot n 1000.

(** [time.Unix(sec, nsec)] normalisation followed by [FromUnixMicros]'s
    truncated [/] and [%]. *)
Definition go_unix (sec nsec : Z) : instant :=
  if (nsec <? 0) || (nsec >=? 1000000000) then
    let n := Z.quot nsec 1000000000 in
    let sec := sec + n in
    let nsec := nsec - n * 1000000000 in
    if nsec <? 0 then (sec - 1, nsec + 1000000000) else (sec, nsec)
  else (sec, nsec).

Definition from_micros (us : Z) : instant :=
  go_unix (Z.quot us 1000000) (Z.rem us 1000000 * 1000).

(** The plain-meaning specification: the number of microseconds nearest to the
    instant, ties rounded up. *)
Definition nearest_micros (t : instant) : Z := (ns_of t + 500) / 1000.

(** * The Timer wrapper (timer.go) as a labelled transition system.

    A Go [time.Timer] (pre-1.23 channel semantics, selected by `go 1.12` in
    go.mod) is: armed-with-deadline or not, plus a one-slot channel.  The
    wrapper adds the [Read] flag, the lazily created inner timer and the pool
    of stopped inner timers. *)
Record inner := { armed : bool; deadline : Z; full : bool }.

Record tstate := {
  now : Z;
  tm : option inner;        (* t.timer; None before the first Reset / after Stop *)
  readf : bool;             (* t.Read *)
  pool : list inner;        (* timeTimerPool *)
  (* ghost fields, written only, never read by the transitions' guards *)
  g_reset_at : Z;           (* instant of the last Reset *)
  g_d : Z;                  (* its duration *)
  g_recvs : nat;            (* receives since the last Reset *)
  g_stopped_ok : bool;      (* the last wrapper operation was a Stop that returned true *)
}.

Definition t_init : tstate :=
  {| now := 0; tm := None; readf := false; pool := []; g_reset_at := 0; g_d := 0;
     g_recvs := 0; g_stopped_ok := false |}.

Inductive label :=
| LReset (d : Z) (pick : option nat)  (* pick: what sync.Pool.Get returns when t.timer = nil *)
| LTick (dt : Z)                      (* time passes *)
| LFire                               (* the runtime fires the wrapper's inner timer *)
| LFirePool (i : nat)                 (* the runtime fires a pooled timer (if it were armed) *)
| LRecv                               (* user: <-t.C; t.Read = true *)
| LStop.                              (* user: t.Stop() *)

Inductive obs := ONone | OStop (ok : bool) | ORecv (at_ : Z).

Inductive step_res :=
| Next (s : tstate) (o : obs)
| NotEnabled
| Blocks.          (* the operation would block for ever on an empty channel *)

Fixpoint remove_nth {A} (n : nat) (l : list A) : list A :=
  match n, l with
  | _, [] => []
  | O, _ :: tl => tl
  | S n', x :: tl => x :: remove_nth n' tl
  end.

Definition inner_fire (i : inner) : inner :=
  (* sendTime does a non-blocking send: a full channel drops the tick *)
  {| armed := false; deadline := deadline i; full := true |}.

Definition upd s tm' readf' pool' :=
  {| now := now s; tm := tm'; readf := readf'; pool := pool';
     g_reset_at := g_reset_at s; g_d := g_d s; g_recvs := g_recvs s;
     g_stopped_ok := false |}.

Definition mark_reset s d :=
  {| now := now s; tm := tm s; readf := readf s; pool := pool s;
     g_reset_at := now s; g_d := d; g_recvs := 0; g_stopped_ok := false |}.

Definition step (s : tstate) (l : label) : step_res :=
  match l with
  | LTick dt => if dt <? 0 then NotEnabled else
      Next {| now := now s + dt; tm := tm s; readf := readf s; pool := pool s;
              g_reset_at := g_reset_at s; g_d := g_d s; g_recvs := g_recvs s;
              g_stopped_ok := g_stopped_ok s |} ONone
  | LFire =>
      match tm s with
      | Some i => if armed i && (deadline i <=? now s)
                  then Next {| now := now s; tm := Some (inner_fire i); readf := readf s;
                               pool := pool s; g_reset_at := g_reset_at s; g_d := g_d s;
                               g_recvs := g_recvs s; g_stopped_ok := g_stopped_ok s |} ONone
                  else NotEnabled
      | None => NotEnabled
      end
  | LFirePool k =>
      match nth_error (pool s) k with
      | Some i => if armed i && (deadline i <=? now s)
                  then Next {| now := now s; tm := tm s; readf := readf s;
                               pool := firstn k (pool s) ++ inner_fire i :: skipn (S k) (pool s);
                               g_reset_at := g_reset_at s; g_d := g_d s;
                               g_recvs := g_recvs s; g_stopped_ok := g_stopped_ok s |} ONone
                  else NotEnabled
      | None => NotEnabled
      end
  | LRecv =>
      match tm s with
      | Some i => if full i
                  then Next {| now := now s;
                               tm := Some {| armed := armed i; deadline := deadline i; full := false |};
                               readf := true; pool := pool s;
                               g_reset_at := g_reset_at s; g_d := g_d s;
                               g_recvs := S (g_recvs s); g_stopped_ok := false |} (ORecv (now s))
                  else NotEnabled         (* the receive waits; nothing happens *)
      | None => NotEnabled                 (* t.C is nil: waits for ever, by contract not used *)
      end
  | LReset d pick =>
      if d <? 0 then NotEnabled else
      match tm s with
      | None =>
          (* t.timer == nil: take a pooled timer and Reset it, or create one *)
          match pick with
          | None =>
              Next (mark_reset (upd s (Some {| armed := true; deadline := now s + d; full := false |})
                                    (readf s) (pool s)) d) ONone
          | Some k =>
              match nth_error (pool s) k with
              | Some i =>
                  Next (mark_reset (upd s (Some {| armed := true; deadline := now s + d; full := full i |})
                                        (readf s) (remove_nth k (pool s))) d) ONone
              | None => NotEnabled
              end
          end
      | Some i =>
          (* if !t.timer.Stop() && !t.Read { <-t.C } ; t.timer.Reset(d); t.Read = false *)
          let stopped := armed i in
          if negb stopped && negb (readf s) && negb (full i) then Blocks
          else
            let full' := if negb stopped && negb (readf s) then false else full i in
            Next (mark_reset (upd s (Some {| armed := true; deadline := now s + d; full := full' |})
                                  false (pool s)) d) ONone
      end
  | LStop =>
      match tm s with
      | None => Next {| now := now s; tm := None; readf := false; pool := pool s;
                        g_reset_at := g_reset_at s; g_d := g_d s; g_recvs := g_recvs s;
                        g_stopped_ok := false |} (OStop false)
      | Some i =>
          let res := armed i in
          let i' := {| armed := false; deadline := deadline i; full := full i |} in
          Next {| now := now s; tm := None; readf := false;
                  pool := if res then i' :: pool s else pool s;
                  g_reset_at := g_reset_at s; g_d := g_d s; g_recvs := g_recvs s;
                  g_stopped_ok := res |} (OStop res)
      end
  end.

(** Running a label list; stops at the first label that is not enabled or
    blocks (the result records which). *)
Inductive run_res := RDone (s : tstate) (os : list obs) | RNotEnabled (n : nat) | RBlocks (n : nat).

Fixpoint run_aux (s : tstate) (ls : list label) (n : nat) (acc : list obs) : run_res :=
  match ls with
  | [] => RDone s (rev acc)
  | l :: tl => match step s l with
               | Next s' o => run_aux s' tl (S n) (o :: acc)
               | NotEnabled => RNotEnabled n
               | Blocks => RBlocks n
               end
  end.
Definition run (ls : list label) : run_res := run_aux t_init ls 0 [].

(** Reachability by any label sequence. *)
Inductive reachable : tstate -> Prop :=
| reach_init : reachable t_init
| reach_step s l s' o : reachable s -> step s l = Next s' o -> reachable s'.
