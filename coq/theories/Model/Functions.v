(** Model of pkg/cmd/functions.go: the collectFns (first/last/top/bottom N)
    and the array / scalar functions of evalFunctions.  Definitions only. *)
From Shk Require Import Base.Prelude Model.Value.
From Coq Require Import Qround Qabs.
Open Scope Q_scope.

Inductive amode := ASingle | AFirst | ALast | ATop | ABottom.

(** Result of a collect function: the new array, an error (the array is then
    left unchanged and the audition aborts), or a Go panic (type assertion
    a[i].(float64) on a non-number). *)
Inductive cres := COk (a : list value) | CErr | CPanic.

(** The insertion loop of top N / bottom N: copy the leading elements that
    compare [>=] (resp. [<=]) with [x], then [x], then the rest. *)
Fixpoint insert_by (keep : Q -> Q -> bool) (a : list value) (x : Q) : option (list value) :=
  match a with
  | [] => Some [VNum x]
  | VNum y :: tl => if keep y x
                    then match insert_by keep tl x with
                         | Some r => Some (VNum y :: r)
                         | None => None
                         end
                    else Some (VNum x :: a)
  | _ :: _ => None        (* a[i].(float64) panics *)
  end.

Definition qge (y x : Q) : bool := Qle_bool x y.
Definition qle (y x : Q) : bool := Qle_bool y x.

Definition collect (m : amode) (a : list value) (n : nat) (x : value) : cres :=
  match m with
  | ASingle => COk a
  | AFirst => if is_nil x || Nat.leb n (List.length a) then COk a else COk (a ++ [x])
  | ALast => if is_nil x then COk a
             else COk ((if Nat.leb n (List.length a) then tl a else a) ++ [x])
  | ATop | ABottom =>
      if is_nil x then COk a else
      match scalar_of x with
      | None => CErr
      | Some v =>
          match insert_by (match m with ATop => qge | _ => qle end) a v with
          | Some r => COk (firstn n r)
          | None => CPanic
          end
      end
  end.

(** * evalFunctions *)

Definition non_nil (l : list value) : list value := filter (fun v => negb (is_nil v)) l.

Fixpoint scalars (l : list value) : option (list Q) :=
  match l with
  | [] => Some []
  | v :: tl => if is_nil v then scalars tl else
               match scalar_of v, scalars tl with
               | Some q, Some r => Some (q :: r)
               | _, _ => None
               end
  end.

Definition qsum (l : list Q) : Q := fold_left Qplus l 0.
Definition qmin_list (l : list Q) : option Q :=
  match l with [] => None | x :: tl => Some (fold_left (fun m y => if Qlt_le_dec y m then y else m) tl x) end.
Definition qmax_list (l : list Q) : option Q :=
  match l with [] => None | x :: tl => Some (fold_left (fun m y => if Qlt_le_dec m y then y else m) tl x) end.

Fixpoint qinsert (x : Q) (l : list Q) : list Q :=
  match l with
  | [] => [x]
  | y :: tl => if Qle_bool x y then x :: l else y :: qinsert x tl
  end.
Definition qsort (l : list Q) : list Q := fold_right qinsert [] l.

Definition qmedian (l : list Q) : option Q :=
  let s := qsort l in
  let n := List.length s in
  match n with
  | O => None
  | _ => if Nat.odd n then nth_error s ((n - 1) / 2)
         else match nth_error s (n / 2 - 1), nth_error s (n / 2) with
              | Some a, Some b => Some ((a + b) / 2)
              | _, _ => None
              end
  end.

(** sortArray's order: nils, then scalars (bools as 0/1) by value, then
    strings, then anything else.  [vless x y] is Less. *)
Definition vrank (v : value) : nat :=
  match v with VNil => 0 | VNum _ | VBool _ => 1 | VStr _ => 2 | VArr _ => 3 end.
Definition vless (x y : value) : bool :=
  match x, y with
  | VNil, _ => negb (is_nil y)
  | (VNum _ | VBool _), _ =>
      match scalar_of x, scalar_of y with
      | Some a, Some b => negb (Qle_bool b a)
      | _, _ => Nat.ltb (vrank x) (vrank y)
      end
  | VStr a, VStr b => match String.compare a b with Lt => true | _ => false end
  | _, _ => Nat.ltb (vrank x) (vrank y)
  end.
Fixpoint vinsert (x : value) (l : list value) : list value :=
  match l with
  | [] => [x]
  | y :: tl => if vless y x then y :: vinsert x tl else x :: l
  end.
Definition vsort (l : list value) : list value := fold_right vinsert [] l.

Inductive fres := FOk (v : value) | FErr | FUnknown.

Definition num_or_nil (o : option Q) : fres :=
  match o with Some q => FOk (VNum q) | None => FOk VNil end.

Definition qfloor (q : Q) : Q := inject_Z (Qfloor q).
Definition qceil (q : Q) : Q := inject_Z (Qceiling q).
(** math.Round: half away from zero. *)
Definition qround (q : Q) : Q :=
  if Qle_bool 0 q then inject_Z (Qfloor (q + (1 # 2))) else inject_Z (Qceiling (q - (1 # 2))).

Definition scalar_fn (f : Q -> Q) (args : list value) : fres :=
  match args with
  | [] => FOk VNil
  | [VNil] => FOk VNil
  | [VNum x] => FOk (VNum (f x))
  | _ => FErr
  end.

Definition apply_fn (name : string) (args : list value) : fres :=
  if String.eqb name "count" then FOk (VNum (inject_Z (Z.of_nat (List.length args))))
  else if String.eqb name "first" then FOk (match args with [] => VNil | x :: _ => x end)
  else if String.eqb name "last" then FOk (last args VNil)
  else if String.eqb name "sorted" then FOk (match args with [] => VNil | _ => VArr (vsort args) end)
  else if String.eqb name "sum" then
    match scalars args with
    | None => FErr
    | Some [] => FOk VNil
    | Some l => FOk (VNum (qsum l))
    end
  else if String.eqb name "avg" || String.eqb name "average" then
    match scalars args with
    | None => FErr
    | Some [] => FOk VNil
    | Some l => FOk (VNum (qsum l / inject_Z (Z.of_nat (List.length l))))
    end
  else if String.eqb name "med" || String.eqb name "median" then
    match scalars args with
    | None => FErr
    | Some l => num_or_nil (qmedian l)
    end
  else if String.eqb name "min" then
    match scalars args with None => FErr | Some l => num_or_nil (qmin_list l) end
  else if String.eqb name "max" then
    match scalars args with None => FErr | Some l => num_or_nil (qmax_list l) end
  else if String.eqb name "abs" then scalar_fn Qabs args
  else if String.eqb name "floor" then scalar_fn qfloor args
  else if String.eqb name "ceil" then scalar_fn qceil args
  else if String.eqb name "round" then scalar_fn qround args
  else FUnknown.
