(** The plain-meaning specification of activation periods (C02) as a checker
    over the sequence of outputs an audition emits: for one auditor, outputs
    must follow the grammar

       ( Start  Report*  [Report_end]  Stop )*

    where reports occur only inside a period, each period is judged by a
    FRESH evaluator (the result codes are those of the table run from its
    start state over the labels observed in that period alone), an auditor
    with an `expects` gets exactly one end-of-period judgement, immediately
    before the period's Stop, and nothing of the auditor's appears outside
    periods.  Written without reference to the round machine. *)
From Shk Require Import Base.Prelude Model.Value Model.Functions Model.Expr Model.Fsm Model.Audit.
Open Scope list_scope.

Inductive pstate := PClosed | POpen (q : nat) (ended : bool).

Definition start_of (tbl : option fsm_table) : nat :=
  match tbl with Some t => f_start t | None => 0 end.

Definition trace_step (a : string) (tbl : option fsm_table) (p : pstate) (o : out) : option pstate :=
  match o with
  | OObs _ _ _ => Some p
  | OStart b =>
      if String.eqb a b then
        match p with PClosed => Some (POpen (start_of tbl) false) | _ => None end
      else Some p
  | OStop b =>
      if String.eqb a b then
        match p with
        | POpen _ ended => if match tbl with Some _ => ended | None => true end then Some PClosed else None
        | PClosed => None
        end
      else Some p
  | OReport b l code =>
      if String.eqb a b then
        match p, tbl with
        | POpen q false, Some t =>
            if String.eqb l "err" then (if Z.eqb code 1 then Some p else None)
            else match fsm_report t q l with
                 | Some (q', c) => if Z.eqb c code then Some (POpen q' (String.eqb l "end")) else None
                 | None => None
                 end
        | _, _ => None
        end
      else Some p
  end.

Fixpoint trace_run (a : string) (tbl : option fsm_table) (p : pstate) (os : list out) : option pstate :=
  match os with
  | [] => Some p
  | o :: tl => match trace_step a tbl p o with
               | Some p' => trace_run a tbl p' tl
               | None => None
               end
  end.

(** The outputs of a whole audition are well-formed for auditor [a], and the
    last period is closed. *)
Definition periods_well_formed (a : string) (tbl : option fsm_table) (rounds : list (list out)) : Prop :=
  exists p, trace_run a tbl PClosed (List.concat rounds) = Some p.
Definition all_periods_closed (a : string) (tbl : option fsm_table) (rounds : list (list out)) : Prop :=
  trace_run a tbl PClosed (List.concat rounds) = Some PClosed.

Definition is_final_event (e : event) : bool := match e with EFinal _ => true | _ => false end.

(** The history ends with the end of the play. *)
Fixpoint ends_final (es : list event) : bool :=
  match es with
  | [] => false
  | [e] => is_final_event e
  | _ :: tl => ends_final tl
  end.
