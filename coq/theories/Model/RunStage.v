(** Model of the last part of [config.run] (pkg/cmd/run.go): what happens
    to the play's error between [runConduct] and the exit status — the plot
    scripts, the removal of the artifacts, result.js, index.html, the upload
    and `--clear`, in the order the function body and its deferred closures
    execute them, each folded into the returned error with [combineErrors].

    An error is the list of the elements of the errorCollection ([] = nil);
    an element is either something the play itself returned (flagged when it
    is the "interrupted by a signal" error, which [isError] looks for among
    ALL elements) or the failure of one of the directory / upload operations.
    Which operations fail is an arbitrary function of the operation (the file
    system and the upload command are outside the model).

    Executable definitions only; proofs are in Proofs/RunStageProofs.v. *)
From Shk Require Import Base.Prelude.
Open Scope list_scope.

Inductive dop := DPlot | DRmArtifacts | DWriteResult | DWriteHtml | DUpload | DRmAll.
Definition dop_eqb (a b : dop) : bool :=
  match a, b with
  | DPlot, DPlot | DRmArtifacts, DRmArtifacts | DWriteResult, DWriteResult
  | DWriteHtml, DWriteHtml | DUpload, DUpload | DRmAll, DRmAll => true
  | _, _ => false
  end.

Inductive relem := RPlay (interrupted : bool) | ROp (d : dop).
Definition rerr := list relem.

Record rflags := { f_clear : bool;        (* --clear: cfg.removeAll *)
                   f_keep : bool;         (* -k: cfg.keepArtifacts *)
                   f_noplot : bool }.     (* --disable-plots: cfg.skipPlot *)

Definition is_nil (e : rerr) : bool := match e with [] => true | _ => false end.
Definition op_err (fails : dop -> bool) (d : dop) : rerr := if fails d then [ROp d] else [].
(** isError(err, errInterrupted): the error itself or any element of the collection *)
Definition is_interrupted (e : rerr) : bool :=
  existsb (fun c => match c with RPlay true => true | _ => false end) e.

(** Returns the error [run] returns and the operations executed, in order. *)
Definition run_stage (f : rflags) (fails : dop -> bool) (play : rerr) : rerr * list dop :=
  (* body: err = combineErrors(err, plotErr) unless skipPlot *)
  let e1 := if f_noplot f then play else play ++ op_err fails DPlot in
  let x1 := if f_noplot f then [] else [DPlot] in
  (* last deferred closure (runs first): artifacts, result.js, index.html *)
  let rm := is_nil e1 && negb (f_clear f) && negb (f_keep f) in
  let e2 := if rm then op_err fails DRmArtifacts else e1 in      (* err = os.RemoveAll(...) *)
  let x2 := if rm then [DRmArtifacts] else [] in
  let e3 := (e2 ++ op_err fails DWriteResult) ++ op_err fails DWriteHtml in
  (* upload closure: unless interrupted by a signal *)
  let up := is_nil e3 || negb (is_interrupted e3) in
  let e4 := if up then e3 ++ op_err fails DUpload else e3 in
  let x4 := if up then [DUpload] else [] in
  (* first deferred closure (runs last): --clear upon no error *)
  let cl := is_nil e4 && f_clear f in
  let e5 := if cl then op_err fails DRmAll else e4 in            (* err = os.RemoveAll(cfg.dataDir) *)
  let x5 := if cl then [DRmAll] else [] in
  (e5, x1 ++ x2 ++ [DWriteResult; DWriteHtml] ++ x4 ++ x5).

Definition run_exit_nonzero (f : rflags) (fails : dop -> bool) (play : rerr) : bool :=
  negb (is_nil (fst (run_stage f fails play))).
