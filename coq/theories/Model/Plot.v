(** C19 — executable model of the plot generator of pkg/cmd/plot.go
    ([plot] :18-79, [subPlots] :81-336), of the time range / repeat section
    computed by [assemble] (pkg/cmd/result.go:102-208) and of the mood
    bookkeeping of the audition (pkg/cmd/audit.go:253-287) that produces the
    mood periods the plotter draws.

    The gnuplot script is modelled as a list of abstract [directive]s, one per
    logical line (group of lines) the Go code prints; the harness parses the
    real .gp text into the same type (anything it does not recognise becomes
    [DUnknown]).  Loops are transcribed as structural recursions carrying the
    Go counters ([plotNum], [sigNum], [numObj]); the independent, filter-style
    description is in Model/PlotSpec.v.  No proofs here.

    Times are integers in microseconds ([Z]); the x range is kept in
    twentieths of a microsecond so that the 5 % margin is exact.  float64
    rounding and the [%f] formatting are not modelled (the harness generates
    times for which they are exact and never on a clipping boundary). *)
From Shk Require Import Base.Prelude.
From Coq Require Import String.
Local Open Scope list_scope.
Local Open Scope Z_scope.

Definition str := list byte.
Definition bs (s : string) : str := list_byte_of_string s.
Definition nl : str := [x0a].

(** A time stamp that may be infinite (moodPeriod.startTime / endTime are
    tested with math.IsInf by the plotter). *)
Inductive xtime := NegInf | Fin (us : Z) | PosInf.

(** * What was collected (the state the plotter reads) *)

(** cfg.actors in cfg.actorNames order, with actor.hasData. *)
Record actor := { a_name : str; a_has : bool }.

(** One entry of observer.obsVarNames with its collectedSignal. *)
Record wvar := { w_actor : str; w_sig : str; w_events : bool; w_has : bool }.

(** One audience member, in cfg.audienceNames order. *)
Record member := {
  m_name : str;
  m_ylabel : str;
  m_noplot : bool;                 (* observer.disablePlot: `only helps` *)
  m_has : bool;                    (* observer.hasData *)
  m_vars : list wvar;              (* obsVarNames order *)
  m_assigns : bool;                (* len(auditor.assignments) > 0 *)
  m_active : str;                  (* auditor.activeCond.src *)
  m_expects : option (str * str);  (* expectFsm.name, expectExpr.src *)
  m_audit_has : bool               (* auditor.hasData *)
}.

Record mperiod := { p_start : xtime; p_end : xtime; p_mood : str }.

(** (ts, actNum) *)
Definition actchange := (Z * Z)%type.

Record collected := {
  c_actors : list actor;
  c_members : list member;
  c_moods : list mperiod;          (* auditionResults.moodPeriods *)
  c_acts : list actchange;         (* auditionResults.actChanges *)
  c_appmax : Z                     (* ap.maxTime when plotting (after assemble) *)
}.

(** * The script *)
Inductive xbound := BGraph0 | BGraph1 | BFirst (us : Z).

Inductive cstyle :=
| SLine                            (* using 1:2 with linespoints *)
| SEvent (y ytitle : Z)            (* using 1:(y+$3):2 with labels ... ; title "... (around y=ytitle)" *)
| SFace                            (* audit faces, axes x1y2 *)
| SVerdict.                        (* audit verdict points, axes x1y2 *)

Inductive directive :=
| DHeader                          (* two comment lines, set termoption noenhanced *)
| DMultiplot (n : Z)               (* set multiplot layout n,1 *)
| DMarginsFaces                    (* lmargin, rmargin, the faces array *)
| DXRange (lo20 hi20 : Z)          (* set xrange [lo:hi], in 1/20 us *)
| DXTics (step minor : Z)          (* set xtics out step; set mxtics minor *)
| DArrow (ts : Z)                  (* vertical line at ts *)
| DActionBox (ymax : Z)            (* title 'actions', yrange [0:ymax], ytics, ylabel, y2range, key, grid *)
| DNothing                         (* plot .5 t 'nothingness!' *)
| DPlot                            (* plot \ *)
| DLane (name : str) (y : Z) (cont : bool)      (* the three curves of an actor's lane *)
| DRect (idx : Z) (xs xe : xbound) (mood : str) (* set object idx rectangle ... fc "mood" *)
| DGroup (title : str) (evmax : option Z) (ylabel : str)
                                   (* set title; Some k: yrange [0:k], grid ytics, ytics 1;
                                      None: yrange [*:*], grid noytics, ytics auto; set ylabel *)
| DCurve (file : str) (style : cstyle) (title : str) (cont : bool)
| DUnsetObject (idx : Z)
| DUnsetArrow
| DUnsetMultiplot
| DUnknown (line : str).

(** ** First loop of subPlots (:114-181): the plot groups *)
Record curve := { k_file : str; k_style : cstyle; k_title : str }.
Record pgroup := { g_title : str; g_ylabel : str; g_plots : list curve; g_nev : Z }.

Definition csv_file (obs act sig : str) : str :=
  bs "../csv/" ++ obs ++ bs "." ++ act ++ bs "." ++ sig ++ bs ".csv".
Definition audit_file (obs : str) : str := bs "../csv/audit-" ++ obs ++ bs ".csv".
Definition curve_title (act sig : str) : str := act ++ bs " " ++ sig.

(** :138-166, carrying [sigNum]; returns the curves and numEvents. *)
Fixpoint var_plots (obs : str) (vars : list wvar) (sigNum : Z) : list curve * Z :=
  match vars with
  | [] => ([], 0)
  | v :: tl =>
      if negb (w_has v) then var_plots obs tl sigNum
      else if w_events v then
        let '(r, n) := var_plots obs tl (sigNum + 1) in
        ({| k_file := csv_file obs (w_actor v) (w_sig v); k_style := SEvent sigNum sigNum;
            k_title := curve_title (w_actor v) (w_sig v) |} :: r, n + 1)
      else
        let '(r, n) := var_plots obs tl sigNum in
        ({| k_file := csv_file obs (w_actor v) (w_sig v); k_style := SLine;
            k_title := curve_title (w_actor v) (w_sig v) |} :: r, n)
  end.

Definition is_auditor (m : member) : bool :=
  match m_expects m with Some _ => true | None => m_assigns m end.

(** :121-135 *)
Definition group_title (m : member) : str :=
  bs "observer " ++ m_name m ++
  (if is_auditor m then
     (match m_active m with
      | [] => nl ++ bs "audits, throughout"
      | src => if bytes_eqb src (bs "true") then nl ++ bs "audits, throughout"
               else nl ++ bs "audits, only when " ++ src
      end) ++
     match m_expects m with
     | Some (f, e) => nl ++ bs "expects " ++ f ++ bs ": " ++ e
     | None => []
     end
   else []).

(** :168-178 *)
Definition audit_plots (m : member) : list curve :=
  if m_audit_has m then
    [ {| k_file := audit_file (m_name m); k_style := SFace; k_title := [] |};
      {| k_file := audit_file (m_name m); k_style := SVerdict; k_title := [] |} ]
  else [].

Definition mk_group (m : member) : pgroup :=
  let '(pls, nev) := var_plots (m_name m) (m_vars m) 1 in
  {| g_title := group_title m; g_ylabel := m_ylabel m;
     g_plots := pls ++ audit_plots m; g_nev := nev |}.

Fixpoint plot_groups (ms : list member) : list pgroup :=
  match ms with
  | [] => []
  | m :: tl =>
      if negb (m_has m) || m_noplot m then plot_groups tl   (* continue *)
      else mk_group m :: plot_groups tl
  end.

(** ** The writer (:186-331) *)

(** :228-234 — i starts at 1: the first act change draws nothing. *)
Fixpoint arrows_from (lo20 : Z) (acts : list actchange) : list directive :=
  match acts with
  | [] => []
  | (ts, _) :: tl =>
      if 20 * ts <? lo20 then arrows_from lo20 tl      (* continue *)
      else DArrow ts :: arrows_from lo20 tl
  end.
Definition arrows (lo20 : Z) (acts : list actchange) : list directive :=
  match acts with [] => [] | _ :: tl => arrows_from lo20 tl end.

(** :238-243 *)
Fixpoint num_active (l : list actor) : Z :=
  match l with
  | [] => 0
  | a :: tl => if a_has a then 1 + num_active tl else num_active tl
  end.

(** :255-273, carrying [plotNum]. *)
Fixpoint lanes (l : list actor) (plotNum numActive : Z) : list directive :=
  match l with
  | [] => []
  | a :: tl =>
      if negb (a_has a) then lanes tl plotNum numActive
      else DLane (a_name a) plotNum (plotNum <? numActive) :: lanes tl (plotNum + 1) numActive
  end.

Definition action_box (l : list actor) : list directive :=
  let n := num_active l in
  DActionBox (n + 1) ::
  (if n =? 0 then [DNothing] else DPlot :: lanes l 1 n).

(** comparisons of a possibly infinite time stamp with a finite bound given
    in 1/20 us (float64 comparison semantics for infinities) *)
Definition xt_ge (t : xtime) (b20 : Z) : bool :=
  match t with NegInf => false | PosInf => true | Fin us => b20 <=? 20 * us end.
Definition xt_le (t : xtime) (b20 : Z) : bool :=
  match t with NegInf => true | PosInf => false | Fin us => 20 * us <=? b20 end.

(** :284-299, carrying [numObj]; returns the directives and numObj. *)
Fixpoint rects (lo20 hi20 : Z) (ps : list mperiod) (numObj : Z) : list directive * Z :=
  match ps with
  | [] => ([], numObj)
  | p :: tl =>
      if xt_ge (p_start p) hi20 || xt_le (p_end p) lo20 then rects lo20 hi20 tl numObj
      else
        let xs := match p_start p with
                  | Fin us => if lo20 <=? 20 * us then BFirst us else BGraph0
                  | _ => BGraph0
                  end in
        let xe := match p_end p with
                  | Fin us => if 20 * us <=? hi20 then BFirst us else BGraph1
                  | _ => BGraph1
                  end in
        let '(r, n) := rects lo20 hi20 tl (numObj + 1) in
        (DRect (numObj + 1) xs xe (p_mood p) :: r, n)
  end.

(** :315-321 *)
Fixpoint curves_out (pls : list curve) : list directive :=
  match pls with
  | [] => []
  | c :: tl =>
      DCurve (k_file c) (k_style c) (k_title c) (match tl with [] => false | _ => true end)
      :: curves_out tl
  end.

(** :302-322 *)
Definition group_out (g : pgroup) : list directive :=
  DGroup (g_title g) (if 0 <? g_nev g then Some (g_nev g + 1) else None) (g_ylabel g)
  :: DPlot :: curves_out (g_plots g).

(** :325-327 *)
Fixpoint unset_objects (n : nat) (i : Z) : list directive :=
  match n with
  | O => []
  | S n' => DUnsetObject (i + 1) :: unset_objects n' (i + 1)
  end.

(** subPlots: the script for the window [minT, maxT] (microseconds). *)
Definition plot_script (d : collected) (minT maxT : Z) : list directive :=
  let dur := maxT - minT in
  let lo20 := 20 * minT - dur in
  let hi20 := 20 * maxT + dur in
  let groups := plot_groups (c_members d) in
  let '(rs, numObj) := rects lo20 hi20 (c_moods d) 0 in
  [DHeader; DMultiplot (Z.of_nat (List.length groups) + 1); DMarginsFaces;
   DXRange lo20 hi20;
   if c_appmax d <? 10000000 then DXTics 1 2 else DXTics 5 5]
  ++ arrows lo20 (c_acts d)
  ++ action_box (c_actors d)
  ++ rs
  ++ flat_map group_out groups
  ++ unset_objects (Z.to_nat numObj) 0
  ++ [DUnsetArrow; DUnsetMultiplot].

(** The return value of subPlots. *)
Definition num_plots (d : collected) : Z := Z.of_nat (List.length (plot_groups (c_members d))) + 1.

(** * assemble: time range and repeat section (result.go:102-128, 174-201) *)

(** The collected range: [None] when expandTimeRange was never called
    (minTime = +Inf, maxTime = -Inf), else both bounds, finite. *)
Definition assemble_range (raw : option (Z * Z)) : Z * Z :=
  let '(mn, mx) := match raw with None => (0, 0) | Some r => r end in  (* :104-106 *)
  let '(mn, mx) := if mx <? mn then (mx, mn) else (mn, mx) in           (* :108-110 *)
  let mn := if 0 <? mn then 0 else mn in                                (* :118-120 *)
  let mx := if mx <? 0 then 1000000 else mx in                          (* :122-124 *)
  let mx := if mx <? mn + 1000000 then mn + 1000000 else mx in          (* :126-128 *)
  (mn, mx).

(** :174-190 — (beforeLastTs, repeatTs), [None] = -Inf. *)
Fixpoint repeat_scan (r : Z) (acts : list actchange) (st : option Z * option Z) : option Z * option Z :=
  match acts with
  | [] => st
  | (ts, n) :: tl => repeat_scan r tl (if n =? r then (snd st, Some ts) else st)
  end.

Definition repeat_start (repeatActNum : Z) (acts : list actchange) : option Z :=
  let '(before, last) := if 0 <? repeatActNum then repeat_scan repeatActNum acts (None, None)
                         else (None, None) in
  match before with Some b => Some b | None => last end.

(** * plot (:18-79): which scripts are written *)
Inductive rdirective :=
| RTerm (kind : Z) (h : Z)          (* 0 pdf: size 7,h; 1 svg: size 600,h; 2 dumb: size w,h *)
| ROut (last : bool) (ext : Z)      (* set output '[last]plot.{pdf,svg,txt}' *)
| RLoad (last : bool)               (* load '[last]plot.gp' *)
| RXTicsNoMirror
| RHeader
| RUnknown (line : str).

Definition runme (numPlots textH : Z) (hasRepeat : bool) : list rdirective :=
  let section ext := [ROut false ext; RLoad false] ++ (if hasRepeat then [ROut true ext; RLoad true] else []) in
  [RHeader; RTerm 0 (2 * numPlots)] ++ section 0
  ++ [RTerm 1 (200 * numPlots)] ++ section 1
  ++ [RTerm 2 (textH * numPlots); ROut false 2; RXTicsNoMirror; RLoad false]
  ++ (if hasRepeat then [ROut true 2; RLoad true] else []).

Record plot_out := {
  o_min : Z; o_max : Z; o_repeat : option Z;
  o_main : list directive;
  o_last : option (list directive);
  o_run : list rdirective
}.

(** run.go:197-229: assemble, then plot.  [d]'s [c_appmax] is overwritten with
    the assembled maximum, as assemble stores it in ap.maxTime. *)
Definition plot_all (d : collected) (raw : option (Z * Z)) (repeatActNum textH : Z) : plot_out :=
  let '(mn, mx) := assemble_range raw in
  let d' := {| c_actors := c_actors d; c_members := c_members d; c_moods := c_moods d;
               c_acts := c_acts d; c_appmax := mx |} in
  let rp := repeat_start repeatActNum (c_acts d) in
  {| o_min := mn; o_max := mx; o_repeat := rp;
     o_main := plot_script d' mn mx;
     o_last := match rp with Some s => Some (plot_script d' s mx) | None => None end;
     o_run := runme (num_plots d') textH (match rp with Some _ => true | None => false end) |}.

(** * Mood bookkeeping of the audition (audit.go:253-287) *)
Definition clear : str := bs "clear".
Definition is_clear (m : str) : bool := bytes_eqb m clear.

Record mstate := { ms_cur : str; ms_start : xtime; ms_rec : list mperiod }.
Definition ms_init : mstate := {| ms_cur := clear; ms_start := NegInf; ms_rec := [] |}.

(** collectAndAuditMood :273-287 (+ processMoodChange's state update :303-304) *)
Definition mood_step (s : mstate) (e : Z * str) : mstate :=
  let '(ts, mood) := e in
  if bytes_eqb mood (ms_cur s) then s
  else {| ms_cur := mood; ms_start := Fin ts;
          ms_rec := if is_clear (ms_cur s) then ms_rec s
                    else ms_rec s ++ [{| p_start := ms_start s; p_end := Fin ts; p_mood := ms_cur s |}] |}.

(** checkFinal :253-266 *)
Definition mood_final (s : mstate) (elapsed : Z) : list mperiod :=
  if is_clear (ms_cur s) then ms_rec s
  else ms_rec s ++ [{| p_start := ms_start s; p_end := Fin elapsed; p_mood := ms_cur s |}].

Definition mood_book (evs : list (Z * str)) (elapsed : Z) : list mperiod :=
  mood_final (fold_left mood_step evs ms_init) elapsed.
