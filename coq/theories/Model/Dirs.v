(** C12 — model of where a run writes (pkg/cmd/config.go prepareDirs), of
    what survives the end of the play (the deferred functions of run() in
    pkg/cmd/run.go) and of the time range of result.js (pkg/cmd/result.go
    assemble).  Paths are (absolute?, components); the functions of
    path/filepath the code uses (Clean, Join, Abs, Base, Dir) and the kernel's
    resolution of a symbolic link are *modelled* here, and exercised against
    the real ones by the correspondence cases, not verified.
    The first part (byte strings, fields, paths) is shared with Model/Script.v
    (C13).  No proofs here. *)
From Shk Require Import Base.Prelude.
From Coq Require Import Strings.String.

Definition bytes := list byte.
Definition bs (s : string) : bytes := list_byte_of_string s.
Arguments bs s%string.

(** * Fields of a byte string *)

(** Non-empty fields separated by the bytes on which [sep] holds. *)
Fixpoint fields_aux (sep : byte -> bool) (cur : bytes) (l : bytes) : list bytes :=
  match l with
  | [] => match cur with [] => [] | _ => [rev cur] end
  | c :: tl =>
      if sep c then match cur with [] => fields_aux sep [] tl | _ => rev cur :: fields_aux sep [] tl end
      else fields_aux sep (c :: cur) tl
  end.
Definition fields (sep : byte -> bool) (l : bytes) : list bytes := fields_aux sep [] l.

Definition is_slash (c : byte) : bool := Byte.eqb c x2f.

(** * Paths *)
Record path := { p_abs : bool; p_comps : list bytes }.

Definition path_of_bytes (b : bytes) : path :=
  {| p_abs := match b with c :: _ => is_slash c | [] => false end; p_comps := fields is_slash b |}.

Definition dot : bytes := [x2e].
Definition dotdot : bytes := [x2e; x2e].

(** filepath.Clean on components: "." dropped; ".." removes the component
    before it unless that is itself a kept "..", is dropped at the root, and is
    kept at the start of a relative path.  [st] is the reversed result so
    far. *)
Fixpoint clean_aux (abs : bool) (st : list bytes) (cs : list bytes) : list bytes :=
  match cs with
  | [] => rev st
  | c :: tl =>
      if bytes_eqb c dot then clean_aux abs st tl
      else if bytes_eqb c dotdot then
        match st with
        | [] => if abs then clean_aux abs [] tl else clean_aux abs [dotdot] tl
        | t :: st' => if bytes_eqb t dotdot then clean_aux abs (dotdot :: st) tl else clean_aux abs st' tl
        end
      else clean_aux abs (c :: st) tl
  end.
Definition clean (p : path) : path := {| p_abs := p_abs p; p_comps := clean_aux (p_abs p) [] (p_comps p) |}.

(** filepath.Join of two elements, the first of which is not empty. *)
Definition join (a b : path) : path := clean {| p_abs := p_abs a; p_comps := p_comps a ++ p_comps b |}.
Definition join1 (a : path) (c : bytes) : path := join a {| p_abs := false; p_comps := [c] |}.

(** filepath.Abs: a relative path is joined to the current directory. *)
Definition abs_path (cwd p : path) : path := if p_abs p then clean p else join cwd p.

(** filepath.Dir / filepath.Base of a clean path. *)
Definition dir (p : path) : path := {| p_abs := p_abs p; p_comps := removelast (p_comps p) |}.
Definition base (p : path) : option bytes :=
  match rev (p_comps p) with c :: _ => Some c | [] => None end.

Fixpoint join_slash (cs : list bytes) : bytes :=
  match cs with
  | [] => []
  | [c] => c
  | c :: tl => c ++ x2f :: join_slash tl
  end.
(** How a path prints (Clean's result for a clean path). *)
Definition bytes_of_path (p : path) : bytes :=
  if p_abs p then x2f :: join_slash (p_comps p)
  else match p_comps p with [] => dot | _ => join_slash (p_comps p) end.

Definition path_eqb (a b : path) : bool := Bool.eqb (p_abs a) (p_abs b) && list_eqb bytes_eqb (p_comps a) (p_comps b).

(** [inside d p]: the clean absolute path [p] is [d] or lies below it. *)
Fixpoint prefix_comps (a b : list bytes) : bool :=
  match a, b with
  | [], _ => true
  | x :: a', y :: b' => bytes_eqb x y && prefix_comps a' b'
  | _ :: _, [] => false
  end.
Definition inside (d p : path) : bool :=
  Bool.eqb (p_abs d) (p_abs p) && prefix_comps (p_comps d) (p_comps p).
Definition strictly_inside (d p : path) : bool :=
  inside d p && (List.length (p_comps d) <? List.length (p_comps p))%nat.

(** * prepareDirs (pkg/cmd/config.go) *)

(** The sub-directory named after the date; prepareDirs skips "" and ".". *)
Definition use_sub (subDir : bytes) : bool :=
  match subDir with [] => false | _ => negb (bytes_eqb subDir dot) end.

(** filepath.Rel on two paths: both are cleaned; one absolute and the other
    not is an error; the common leading components are dropped; what is left
    of the base (which must not start with "..") becomes as many "..", followed
    by what is left of the target.  Equal paths give "." (no components). *)
Fixpoint strip_common (a b : list bytes) : list bytes * list bytes :=
  match a, b with
  | x :: a', y :: b' => if bytes_eqb x y then strip_common a' b' else (a, b)
  | _, _ => (a, b)
  end.
Definition rel_path (base targ : path) : option path :=
  let b := clean base in
  let t := clean targ in
  if negb (Bool.eqb (p_abs b) (p_abs t)) then None else
  let '(rb, rt) := strip_common (p_comps b) (p_comps t) in
  if existsb (bytes_eqb dotdot) rb then None
  else Some {| p_abs := false; p_comps := map (fun _ => dotdot) rb ++ rt |}.

Record dirs := {
  d_run : path;        (* thisDataDir: where everything of the run goes (cfg.dataDir afterwards) *)
  d_alias : path;      (* <output-dir>/latest *)
  d_target : path;     (* the text written into the link *)
  d_target_rel : bool; (* filepath.Rel succeeded (otherwise the text is thisDataDir as is) *)
}.

(** [dataDir] is the -o argument as given (not cleaned: prepareDirs only
    passes it through filepath.Join).  The link's text is the run directory
    relative to the directory that contains the link (since the fix of the
    dangling `latest`: before, it was thisDataDir itself, i.e. relative to the
    current directory). *)
Definition prepare_dirs (dataDir : path) (subDir : bytes) : dirs :=
  let this := if use_sub subDir then join1 dataDir subDir else dataDir in
  let alias := join1 dataDir (bs "latest") in
  let r := rel_path (dir alias) this in
  {| d_run := this;
     d_alias := alias;
     d_target := match r with Some t => t | None => this end;
     d_target_rel := match r with Some _ => true | None => false end |}.

(** What the kernel does with a symbolic link at [link] whose text is
    [target], for a process whose current directory is [cwd]: an absolute
    target stands for itself, a relative one is taken from the directory that
    contains the link.  (No other link on the way: ".." is resolved
    lexically.) *)
Definition resolve_link (cwd link target : path) : path :=
  if p_abs target then clean target else join (dir (abs_path cwd link)) target.

Definition latest_resolves_to (cwd : path) (d : dirs) : path := resolve_link cwd (d_alias d) (d_target d).

(** * What a run writes (the filepath.Join(cfg.dataDir, ...) sites of
    config.go, commands.go, collector.go, run.go, plot.go, result.go,
    report.go, upload.go) *)
Record run_names := {
  n_actors : list (bytes * list bytes);    (* actor, names of its scripts and files it logs to *)
  n_csv : list bytes;
  n_logs : list bytes;
  n_plots : list bytes;
}.

Definition artifacts_dir (run : path) : path := join1 run (bs "artifacts").

Definition actor_files (run : path) (a : bytes * list bytes) : list path :=
  let wd := join1 (artifacts_dir run) (fst a) in
  let actions := join1 wd (bs "actions") in
  wd :: actions ::
  map (fun n => join1 actions (n ++ bs ".sh")) (snd a) ++
  map (fun n => join1 wd (n ++ bs ".log")) (snd a).

Definition written (run : path) (ns : run_names) : list path :=
  run :: artifacts_dir run ::
  flat_map (actor_files run) (n_actors ns) ++
  join1 run (bs "csv") :: map (join1 (join1 run (bs "csv"))) (n_csv ns) ++
  join1 run (bs "logs") :: map (join1 (join1 run (bs "logs"))) (n_logs ns) ++
  join1 run (bs "plots") :: map (join1 (join1 run (bs "plots"))) (n_plots ns) ++
  [join1 run (bs "result.js"); join1 run (bs "index.html"); join1 run (bs "upload.log")].

(** * The end of run() (pkg/cmd/run.go): the deferred functions, last
    registered first *)
Record flags := {
  f_keep : bool;            (* -k *)
  f_clear : bool;           (* --clear given (with that value) *)
  f_clear_given : bool;     (* --clear appears on the command line *)
  f_upload : bool;          (* --upload-url given *)
  f_skip_plot : bool;       (* --disable-plots *)
}.

(** initArgs: an upload URL implies --clear unless --clear was given. *)
Definition remove_all (f : flags) : bool :=
  if f_upload f && negb (f_clear_given f) then true else f_clear f.

(** What can go wrong after the play, besides the play itself. *)
Record mishaps := {
  m_plot : bool;            (* ap.plot returns an error *)
  m_write : bool;           (* removing artifacts / result.js / index.html fails *)
  m_upload : bool;          (* the upload fails *)
}.
Definition no_mishap : mishaps := {| m_plot := false; m_write := false; m_upload := false |}.

Record ending := {
  e_foul_flag : bool;           (* Result.Foul *)
  e_artifacts_removed : bool;   (* the os.RemoveAll(artifactsDir) ran *)
  e_rundir_removed : bool;      (* the os.RemoveAll(dataDir) ran *)
  e_exit_nonzero : bool;        (* run() returns an error *)
}.

(** [fouled]: runConduct returned an error. *)
Definition run_end (f : flags) (fouled : bool) (m : mishaps) : ending :=
  (* result := ap.assemble(ctx, err) *)
  let foul := fouled in
  (* if !cfg.skipPlot { err = combineErrors(err, ap.plot(...)) } *)
  let err1 := fouled || (negb (f_skip_plot f) && m_plot m) in
  (* last deferred: artifacts, collectArtifacts, result.js, index.html *)
  let rm_art := negb err1 && negb (remove_all f) && negb (f_keep f) in
  let err2 := err1 || m_write m in
  (* then: upload *)
  let err3 := err2 || (f_upload f && m_upload m) in
  (* then: --clear *)
  let rm_all := negb err3 && remove_all f in
  {| e_foul_flag := foul; e_artifacts_removed := rm_art; e_rundir_removed := rm_all; e_exit_nonzero := err3 |}.

Definition rundir_survives (e : ending) : bool := negb (e_rundir_removed e).
Definition artifacts_survive (e : ending) : bool := negb (e_rundir_removed e) && negb (e_artifacts_removed e).

(** * The time range of result.js (pkg/cmd/app.go expandTimeRange,
    pkg/cmd/result.go assemble).  Times are integers in some unit of which
    [unit] make a second; [None] is the initial (+Inf, -Inf). *)
Definition expand_range (r : option (Z * Z)) (t : Z) : option (Z * Z) :=
  match r with
  | None => Some (t, t)
  | Some (lo, hi) => Some (if (t <? lo)%Z then t else lo, if (hi <? t)%Z then t else hi)
  end.

Definition assemble_range (unit : Z) (instants : list Z) : Z * Z :=
  let r := fold_left expand_range instants None in
  let '(lo, hi) := match r with Some x => x | None => (0, 0)%Z end in
  let '(lo, hi) := if (hi <? lo)%Z then (hi, lo) else (lo, hi) in
  let lo := if (0 <? lo)%Z then 0%Z else lo in
  let hi := if (hi <? 0)%Z then unit else hi in
  let hi := if (hi <? lo + unit)%Z then (lo + unit)%Z else hi in
  (lo, hi).

(** * Refreshing <output-dir>/latest when an earlier run left one behind
    (prepareDirs: os.Remove(alias), an error unless IsNotExist; then
    os.Symlink, whose failure is only a warning).  os.Remove removes a
    symbolic link itself, whether or not its target still exists. *)
Inductive alias_state :=
| ANone                      (* nothing there *)
| ALink (text : path)        (* a symbolic link, dangling or not *)
| AOther.                    (* something os.Remove refuses (a non-empty directory) *)

Definition remove_alias (s : alias_state) : option alias_state :=
  match s with
  | AOther => None           (* prepareDirs returns the error *)
  | _ => Some ANone
  end.
Definition make_link (s : alias_state) (t : path) : alias_state :=
  match s with
  | ANone => ALink t
  | _ => s                   (* EEXIST: a warning, the old entry stays *)
  end.
Definition refresh_alias (before : alias_state) (d : dirs) : option alias_state :=
  option_map (fun s => make_link s (d_target d)) (remove_alias before).

(** * The artifact tree of result.js and the files that are there afterwards
    (pkg/cmd/result.go collectArtifactsRec; pkg/cmd/run.go
    removeNonUploadableFiles, which runs after result.js is written). *)

(** Editor temporary files: `#name#` and `name~`. *)
Definition first_is (b : byte) (l : bytes) : bool := match l with c :: _ => Byte.eqb c b | [] => false end.
Definition last_is (b : byte) (l : bytes) : bool := first_is b (rev l).
Definition editor_temp (name : bytes) : bool :=
  (first_is x23 name && last_is x23 name) || last_is x7e name.

Inductive fkind := KReg | KSym | KOther.     (* regular file; symbolic link; fifo, socket, device *)
Inductive node :=
| NFile (name : bytes) (k : fkind)
| NDir (name : bytes) (children : list node).

Definition uploadable (k : fkind) : bool := match k with KOther => false | _ => true end.

(** The files (paths relative to the run directory) that collectArtifactsRec
    puts in the tree: regular files and symbolic links whose name is not an
    editor temporary.  ([skip_other = false] is the code before fix 7f842c1,
    which listed files of any kind.)  A directory with such a name is not
    listed itself, but filepath.Walk still descends into it (the callback
    returns nil, not SkipDir), so the files below it are listed all the same
    (in the parent's list): as far as *files* go its name does not matter. *)
Fixpoint listed_files_gen (skip_other : bool) (pre : list bytes) (n : node) : list (list bytes) :=
  match n with
  | NFile nm k =>
      if editor_temp nm then []
      else if skip_other && negb (uploadable k) then []
      else [pre ++ [nm]]
  | NDir nm cs => flat_map (listed_files_gen skip_other (pre ++ [nm])) cs
  end.
Definition listed_files := listed_files_gen true.

(** The files removeNonUploadableFiles leaves: it removes what is neither a
    regular file nor a symbolic link, and editor temporaries; directories are
    never removed (nor skipped). *)
Fixpoint surviving_files (pre : list bytes) (n : node) : list (list bytes) :=
  match n with
  | NFile nm k => if uploadable k && negb (editor_temp nm) then [pre ++ [nm]] else []
  | NDir nm cs => flat_map (surviving_files (pre ++ [nm])) cs
  end.

(** For the content of the run directory (the root itself is not named). *)
Definition listed_in (cs : list node) : list (list bytes) := flat_map (listed_files []) cs.
Definition listed_in_pinned (cs : list node) : list (list bytes) := flat_map (listed_files_gen false []) cs.
Definition surviving_in (cs : list node) : list (list bytes) := flat_map (surviving_files []) cs.

(** * Several runs into one output directory.
    prepareDirs creates the run directory with os.Mkdir (not MkdirAll): a run
    whose id is taken is refused ("file exists").  The alias is refreshed by
    whoever starts; the end of a run (run(): --clear erases the run's own
    directory) does not touch the alias. *)
Record od_state := {
  od_alias : alias_state;
  od_runs : list bytes;             (* run directories that exist *)
}.
Definition run_link (id : bytes) : path := {| p_abs := false; p_comps := [id] |}.
Definition mem_id (id : bytes) (l : list bytes) : bool := existsb (bytes_eqb id) l.
Definition start_run (id : bytes) (st : od_state) : option od_state :=
  if mem_id id (od_runs st) then None                      (* Mkdir: file exists *)
  else match remove_alias (od_alias st) with
       | None => None
       | Some a => Some {| od_alias := make_link a (run_link id); od_runs := id :: od_runs st |}
       end.
Definition end_run (id : bytes) (erased : bool) (st : od_state) : od_state :=
  {| od_alias := od_alias st;
     od_runs := if erased then filter (fun x => negb (bytes_eqb id x)) (od_runs st) else od_runs st |}.
(** Does the alias lead to an existing run directory, and which? *)
Definition alias_leads_to (st : od_state) : option bytes :=
  match od_alias st with
  | ALink {| p_abs := false; p_comps := [id] |} => if mem_id id (od_runs st) then Some id else None
  | _ => None
  end.
