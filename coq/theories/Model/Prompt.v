(** The prompter (pkg/cmd/prompt.go) as
    (a) a TIMED function: given the compiled play, a duration and arbitrary
        non-negative latencies for every action instance / scene start, the
        start and end instants (Z nanoseconds) of everything it runs;
    (b) an UNTIMED function [perform]: which action instances are performed and
        whether the prompter reports a failure, given an oracle for the result
        of every action instance, the [failOk] marks and the repeat
        bookkeeping of [prompt] (repeatActNum, repeatCount, numRepeats and the
        repeat-timeout observation).
    No proofs here (Proofs/PromptProofs.v). *)
From Shk Require Import Base.Prelude.
Open Scope Z_scope.

(** * The compiled play (compile.go: scene / scriptLine / step) *)
Inductive stepk :=
| SDo (action : N) (failOk : bool)      (* stepDo *)
| SAmb (mood : N).                      (* stepAmbiance: a mood change *)
Record line := mkLine { l_actor : N; l_steps : list stepk }.
Record scene := mkScene { waitUntil : Z; s_lines : list line }.
Definition act := list scene.
Definition play := list act.

(** * (a) The timed prompter *)

(** What the environment (OS scheduler, Go runtime, the command itself)
    chooses for one action instance: the latency between [actStart :=
    timeutil.Now()] and the instant the command itself records as its start,
    the time the command takes by its own clock, and the latency between the
    command's own end and [actEnd := timeutil.Now()]. *)
Record atime := mkAtime { a_spawn : Z; a_dur : Z; a_reap : Z }.

(** ... for one scene: the latency of the scene start (timer, select, the
    narration), for every line and step the latency before the step begins
    (task start, collector hand-over of the previous step), the action times,
    and the latency of the barrier ([wg.Wait] returning, error collection). *)
Record sctime := mkSctime {
  sc_lat : Z;
  sc_gap : nat -> nat -> Z;          (* line, step *)
  sc_act : nat -> nat -> atime;      (* line, step *)
  sc_join : Z }.

(** ... for the play: per act instance the latency before [actStart], per act
    instance and scene index the scene's times. *)
Record ptime := mkPtime { p_actlat : nat -> Z; p_scene : nat -> nat -> sctime }.

Definition atime_ok (t : atime) : Prop := 0 <= a_spawn t /\ 0 <= a_dur t /\ 0 <= a_reap t.
Definition sctime_ok (t : sctime) : Prop :=
  0 <= sc_lat t /\ 0 <= sc_join t /\ (forall l k, 0 <= sc_gap t l k) /\ (forall l k, atime_ok (sc_act t l k)).
Definition ptime_ok (t : ptime) : Prop :=
  (forall a, 0 <= p_actlat t a) /\ (forall a i, sctime_ok (p_scene t a i)).

(** One performed action, as the prompter and the command see it.
    [e_gstart]/[e_gend] are [actStart]/[actEnd] of [runAction] (what the CSV
    row records: start = gstart - epoch, duration = gend - gstart);
    [e_cstart]/[e_cend] are what the command itself experienced. *)
Record ev := mkEv {
  e_act : nat; e_scene : nat; e_line : nat; e_step : nat;
  e_actor : N; e_action : N;
  e_act_start : Z;      (* actStart of the act instance this belongs to *)
  e_wait : Z;           (* waitUntil of its scene *)
  e_gstart : Z; e_cstart : Z; e_cend : Z; e_gend : Z }.

(** runLine: the steps of one line, one after the other. *)
Fixpoint run_steps (gap : nat -> Z) (tm : nat -> atime) (mk : nat -> N -> Z -> Z -> Z -> Z -> ev)
         (now : Z) (k : nat) (steps : list stepk) : list ev * Z :=
  match steps with
  | [] => ([], now)
  | SAmb _ :: tl => run_steps gap tm mk (now + gap k) (S k) tl
  | SDo a _ :: tl =>
      let gs := now + gap k in
      let cs := gs + a_spawn (tm k) in
      let ce := cs + a_dur (tm k) in
      let ge := ce + a_reap (tm k) in
      let '(evs, t) := run_steps gap tm mk ge (S k) tl in
      (mk k a gs cs ce ge :: evs, t)
  end.

(** runScene: every line starts at the scene time; the scene ends when the
    last line has ended (wg.Wait). *)
Fixpoint run_lines (st : sctime) (mk : nat -> N -> nat -> N -> Z -> Z -> Z -> Z -> ev)
         (t0 : Z) (l : nat) (lines : list line) : list ev * Z :=
  match lines with
  | [] => ([], t0)
  | ln :: tl =>
      let '(evs, t) := run_steps (sc_gap st l) (sc_act st l) (mk l (l_actor ln)) t0 O (l_steps ln) in
      let '(evs', t') := run_lines st mk t0 (S l) tl in
      (evs ++ evs', Z.max t t')
  end.

(** One iteration of the scene loop of [prompt]: wait until
    [actStart + waitUntil] (if that is in the future), then run the scene. *)
Definition run_scene (st : sctime) (a i : nat) (act_start now : Z) (sc : scene) : list ev * Z :=
  let t0 := Z.max now (act_start + waitUntil sc) + sc_lat st in
  let mk := fun l actor k action gs cs ce ge =>
              mkEv a i l k actor action act_start (waitUntil sc) gs cs ce ge in
  let '(evs, t) := run_lines st mk t0 O (s_lines sc) in
  (evs, t + sc_join st).

Fixpoint run_scenes (tm : nat -> sctime) (a : nat) (act_start now : Z) (i : nat) (scs : list scene)
  : list ev * Z :=
  match scs with
  | [] => ([], now)
  | sc :: tl =>
      let '(evs, t) := run_scene (tm i) a i act_start now sc in
      let '(evs', t') := run_scenes tm a act_start t (S i) tl in
      (evs ++ evs', t')
  end.

(** The act loop, over the list of act instances actually performed (the
    unrolling of the repeat clauses is the business of the untimed model). *)
Fixpoint run_acts (tm : ptime) (now : Z) (a : nat) (acts : list act) : list ev * Z :=
  match acts with
  | [] => ([], now)
  | ac :: tl =>
      let act_start := now + p_actlat tm a in
      let '(evs, t) := run_scenes (p_scene tm a) a act_start act_start O ac in
      let '(evs', t') := run_acts tm t (S a) tl in
      (evs ++ evs', t')
  end.

Definition timed_play (tm : ptime) (t_begin : Z) (acts : list act) : list ev :=
  fst (run_acts tm t_begin O acts).

(** * (b) The untimed prompter *)

(** Result of one action instance as [runLine] sees it: [resOk]; not ok (the
    command failed, or was interrupted); or the command could not be executed
    at all ([runAction] returns an error, no report). *)
Inductive ares := AOk | AFail | AErr.

(** iteration (numRepeats), act index, scene index, line index, step index *)
Definition uoracle := nat -> nat -> nat -> nat -> nat -> ares.

Record inst := mkInst {
  i_iter : nat; i_act : nat; i_scene : nat; i_line : nat; i_step : nat;
  i_actor : N; i_action : N; i_failok : bool }.

(** runLine.  Returns the performed instances and whether the line reported
    an error. *)
Fixpoint perform_line (o : nat -> ares) (mk : nat -> N -> bool -> inst) (k : nat) (steps : list stepk)
  : list inst * bool :=
  match steps with
  | [] => ([], false)
  | SAmb _ :: tl => perform_line o mk (S k) tl
  | SDo a fo :: tl =>
      match o k with
      | AErr => ([], true)                              (* not executed: error, whatever failOk says *)
      | AOk => let '(p, e) := perform_line o mk (S k) tl in (mk k a fo :: p, e)
      | AFail =>
          if fo then let '(p, e) := perform_line o mk (S k) tl in (mk k a fo :: p, e)
          else ([mk k a fo], true)
      end
  end.

(** runScene: all lines are started; the scene reports an error iff some line does. *)
Fixpoint perform_lines (o : nat -> nat -> ares) (mk : nat -> N -> nat -> N -> bool -> inst) (l : nat) (lines : list line)
  : list inst * bool :=
  match lines with
  | [] => ([], false)
  | ln :: tl =>
      let '(p, e) := perform_line (o l) (mk l (l_actor ln)) O (l_steps ln) in
      let '(p', e') := perform_lines o mk (S l) tl in
      (p ++ p', e || e')
  end.

Definition perform_scene (o : uoracle) (it a i : nat) (sc : scene) : list inst * bool :=
  perform_lines (o it a i)
    (fun l actor k action fo => mkInst it a i l k actor action fo) O (s_lines sc).

(** A group = what one scene (one column of the storyline) performed. *)
Definition group := list inst.

(** The scene loop of one act: stops after the first scene that reports an error. *)
Fixpoint perform_scenes (o : uoracle) (it a : nat) (i : nat) (scs : list scene) : list group * bool :=
  match scs with
  | [] => ([], false)
  | sc :: tl =>
      let '(g, e) := perform_scene o it a i sc in
      if e then ([g], true)
      else let '(gs, e') := perform_scenes o it a (S i) tl in (g :: gs, e')
  end.

(** Acts [a, a+1, ...] one after the other. *)
Fixpoint perform_acts (o : uoracle) (it : nat) (a : nat) (acts : list act) : list group * bool :=
  match acts with
  | [] => ([], false)
  | ac :: tl =>
      let '(gs, e) := perform_scenes o it a O ac in
      if e then (gs, true)
      else let '(gs', e') := perform_acts o it (S a) tl in (gs ++ gs', e')
  end.

(** The repeat specification as [prompt] reads it. *)
Record repeat_spec := mkRepeat {
  repeatActNum : nat;       (* 0 = no repeat; else 1-based index of the first repeated act *)
  repeatCount : Z }.        (* <= 0: no maximum (repeat always) *)

(** [tmo n] = the observation [repeatTimeout >= 0 && now - repeatStart >
    repeatTimeout] made at the end of the last act when numRepeats = n. *)
Definition do_repeat (r : repeat_spec) (tmo : nat -> bool) (nr : nat) : bool :=
  negb ((0 <? repeatCount r) && (repeatCount r <=? Z.of_nat nr + 1)) && negb (tmo nr).

Inductive pstatus := PCompleted | PFailed.

(** The end-of-last-act bookkeeping, iterated: [nr] = numRepeats.  Fuelled:
    `repeat always` without a time limit never ends. *)
Fixpoint repeat_loop (fuel : nat) (o : uoracle) (r : repeat_spec) (tmo : nat -> bool) (p : play) (nr : nat)
  : Outcome (list group * pstatus) :=
  match fuel with
  | O => OutOfFuel
  | S f =>
      if do_repeat r tmo nr then
        match skipn (repeatActNum r - 1) p with
        | [] => Ok ([], PCompleted)           (* j = repeatActNum-1 >= len(play): the loop ends *)
        | racts =>
            let '(gs, e) := perform_acts o (S nr) (repeatActNum r - 1) racts in
            if e then Ok (gs, PFailed)
            else match repeat_loop f o r tmo p (S nr) with
                 | Ok (gs', st) => Ok (gs ++ gs', st)
                 | other => other
                 end
        end
      else Ok ([], PCompleted)
  end.

(** prompt. *)
Definition perform (fuel : nat) (p : play) (r : repeat_spec) (tmo : nat -> bool) (o : uoracle)
  : Outcome (list group * pstatus) :=
  let '(gs, e) := perform_acts o O O p in
  if e then Ok (gs, PFailed)
  else match p, repeatActNum r with
       | [], _ | _, O => Ok (gs, PCompleted)
       | _, _ =>
           match repeat_loop fuel o r tmo p O with
           | Ok (gs', st) => Ok (gs ++ gs', st)
           | other => other
           end
       end.

(** * What the script prescribes *)

Fixpoint line_insts (mk : nat -> N -> bool -> inst) (k : nat) (steps : list stepk) : list inst :=
  match steps with
  | [] => []
  | SAmb _ :: tl => line_insts mk (S k) tl
  | SDo a fo :: tl => mk k a fo :: line_insts mk (S k) tl
  end.

Fixpoint lines_insts (mk : nat -> N -> nat -> N -> bool -> inst) (l : nat) (lines : list line) : list inst :=
  match lines with
  | [] => []
  | ln :: tl => line_insts (mk l (l_actor ln)) O (l_steps ln) ++ lines_insts mk (S l) tl
  end.

Definition scene_insts (it a i : nat) (sc : scene) : group :=
  lines_insts (fun l actor k action fo => mkInst it a i l k actor action fo) O (s_lines sc).

Fixpoint scenes_groups (it a i : nat) (scs : list scene) : list group :=
  match scs with
  | [] => []
  | sc :: tl => scene_insts it a i sc :: scenes_groups it a (S i) tl
  end.

Fixpoint acts_groups (it a : nat) (acts : list act) : list group :=
  match acts with
  | [] => []
  | ac :: tl => scenes_groups it a O ac ++ acts_groups it (S a) tl
  end.

(** Iterations [it, it+1, ..., it+n-1] of the repeated part. *)
Fixpoint repeated_groups (p : play) (ran : nat) (it n : nat) : list group :=
  match n with
  | O => []
  | S n' => acts_groups it (ran - 1) (skipn (ran - 1) p) ++ repeated_groups p ran (S it) n'
  end.

(** Every act once, then the acts from [repeatActNum] on another [K-1] times:
    the repeated acts are played [K] times in total. *)
Definition prescribed (p : play) (r : repeat_spec) (K : nat) : list group :=
  acts_groups O O p ++ repeated_groups p (repeatActNum r) 1 (K - 1).

(** * runScene's barrier: the WaitGroup accounting

    [runScene] does [wg.Add(1)] before it hands each line to
    [runAsyncTask]; the task calls [wg.Done] when the line has ended; if the
    stopper REFUSES to start the task (it is quiescing: a termination signal
    arrived after the prompter last looked at the stopper) the refusal branch
    calls [wg.Done] itself and sends the error to [errCh].  The deferred
    [wg.Wait] returns when the counter is zero.  [refusal_done] = does the
    refusal branch call [wg.Done] (it does in the code). *)
Inductive launch := LStarted | LRefused.
Inductive wlabel := WLaunch (o : launch) | WTaskEnd.
Record wgstate := mkWg {
  wg_count : Z;          (* the WaitGroup counter *)
  wg_running : nat;      (* line tasks started and not yet ended *)
  wg_launched : nat;     (* lines handed to runAsyncTask so far *)
  wg_reported : nat }.   (* values sent to errCh (capacity: number of lines + 1) *)
Definition wg_init : wgstate := mkWg 0 0 0 0.

Definition wstep (refusal_done : bool) (s : wgstate) (l : wlabel) : option wgstate :=
  match l with
  | WLaunch LStarted => Some (mkWg (wg_count s + 1) (S (wg_running s)) (S (wg_launched s)) (wg_reported s))
  | WLaunch LRefused =>
      Some (mkWg (wg_count s + 1 - (if refusal_done then 1 else 0)) (wg_running s) (S (wg_launched s)) (S (wg_reported s)))
  | WTaskEnd =>
      match wg_running s with
      | O => None
      | S n => Some (mkWg (wg_count s - 1) n (wg_launched s) (S (wg_reported s)))
      end
  end.

Fixpoint wrun (refusal_done : bool) (s : wgstate) (ls : list wlabel) : option wgstate :=
  match ls with
  | [] => Some s
  | l :: tl => match wstep refusal_done s l with Some s' => wrun refusal_done s' tl | None => None end
  end.

(** * runScene's errCh: the deferred collectErrors always has something to read

    [collectErrors] (deferred, run after [wg.Wait]) first receives ONE value
    from errCh, blocking.  Every line contributes its value before anything of
    that line can fail: a mood-only line (no actor) sends nil BEFORE it hands
    the mood change to the audition and the collector — which fails only when
    the prompter is cancelled while blocked there, and then [runScene] returns
    early —; an actor line sends through its task (before wg.Wait returns) or
    through the refusal branch; an empty scene sends nil after the loop.
    [report_first] = does a mood-only line send before the mood change (it
    does in the code). *)
Inductive sline := SLMood (fails : bool) | SLActor (o : launch).

Fixpoint errch_values (report_first : bool) (ls : list sline) : nat :=
  match ls with
  | [] => O
  | SLMood fails :: tl =>
      if fails then (if report_first then 1%nat else O)          (* early return *)
      else S (errch_values report_first tl)
  | SLActor _ :: tl => S (errch_values report_first tl)
  end.

(** number of values in errCh when collectErrors starts to read *)
Definition errch_at_collect (report_first : bool) (ls : list sline) : nat :=
  match ls with [] => 1%nat | _ => errch_values report_first ls end.
