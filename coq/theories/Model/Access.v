(** C14 — the ownership protocol that keeps the components of a play free of
    data races: the shared cells the property names, the components (threads
    of the play), which component runs which function, and the happens-before
    skeleton of run / runConduct / conduct.

    What is hand-written here and what is extracted from the source on every
    run: the access sites, the static call graph, the pointer aliases and the
    synchronisation skeleton come from harness/goaccess2v (coq/gen/
    AccessSites.v); this file fixes (1) the cells, (2) the components and
    their happens-before order, each base edge with the Go mechanism that
    creates it, (3) the map function -> components, (4) the skeleton facts the
    edges rely on.  [full_check] (Proofs/AccessProofs.v) ties the two.

    This is a model of the protocol, not of Go's memory model: "for all
    interleavings" means for all interleavings of the model, in which the
    components below run concurrently unless ordered by [hb]. *)
From Shk Require Import Base.Prelude.
From Coq Require Import String Ascii.
Open Scope string_scope.

Inductive kind := R | W.
Inductive sync := Plain | Atomic | Locked | Msg.

(** [Msg]: a write to a field of a message (an event object handed from one
    component to others over a channel) after it was built.

    one syntactic access of a tracked field: the cell ("struct.field"), read
    or write, how it is synchronised at the site itself (sync/atomic call;
    inside a function that starts with r.Lock(); defer r.Unlock()), the
    function (or function literal) that contains it and its position *)
Record site := mk_site { s_cell : string; s_kind : kind; s_sync : sync; s_func : string; s_pos : string }.

(** * Components *)
Inductive comp :=
| Init           (* before main: package-level variable initialisers and init() *)
| Setup          (* main goroutine: Run / cfg.run before runConduct (parsing, prepareDirs, newApp) *)
| MainWait       (* main goroutine inside runConduct, while the play runs *)
| CondPre        (* conduct goroutine before startAudition: openDoors, first runCleanup, makeTheater *)
| CondMid        (* conduct between startAudition and wgcol.Wait(): the shutdown stages *)
| CondPost       (* conduct after wgcol.Wait(): the deferred checkAuditViolations, last runCleanup *)
| Audition       (* au.audit *)
| Collector      (* col.collect *)
| SpotMgr        (* spm.manageSpotlights *)
| SpotReader     (* one per actor with a spotlight: spm.spotlight, its consumer, detectSignals *)
| Prompter       (* pr.prompt *)
| Line           (* one per concurrent script line: pr.runLine *)
| CleanupWorker  (* one per actor, inside each runCleanup *)
| Post           (* main goroutine after runConduct: assemble, plot, writeResult, upload *)
| Resize         (* handleResize *)
| Any.           (* helpers callable from every goroutine at any time *)

Definition all_comps : list comp :=
  [Init; Setup; MainWait; CondPre; CondMid; CondPost; Audition; Collector; SpotMgr; SpotReader; Prompter; Line;
   CleanupWorker; Post; Resize; Any].

Definition comp_eqb (a b : comp) : bool :=
  match a, b with
  | Init, Init | Setup, Setup | MainWait, MainWait | CondPre, CondPre | CondMid, CondMid | CondPost, CondPost
  | Audition, Audition | Collector, Collector | SpotMgr, SpotMgr | SpotReader, SpotReader
  | Prompter, Prompter | Line, Line | CleanupWorker, CleanupWorker | Post, Post | Resize, Resize
  | Any, Any => true
  | _, _ => false
  end.

(** components of which several instances run concurrently *)
Definition multi (c : comp) : bool :=
  match c with SpotReader | Line | CleanupWorker | Any => true | _ => false end.

(** * Cells *)
Definition cells : list string :=
  ["app.minTime"; "app.maxTime"; "app.startTime"; "app.terminalWidth";
   "auditionResults.moodPeriods"; "auditionResults.actChanges"; "auditionResults.numRepeats";
   "actor.hasData"; "observer.hasData"; "collectedSignal.hasData"; "auditor.hasData";
   "sink.lastVal";
   "collectorState.errors"; "collectorState.badCounts"; "collectorState.goodCounts";
   "auditionState.curMood"; "auditionState.curMoodStart"; "auditionState.curVals";
   "auditor.name"; "config.dataDir"; "actor.workDir";
   "workerRegistry.mu.workers"; "workerRegistry.mu.numWorkers"].

(** cells of which each instance of a multi-instance component has its own:
    detectSignals reaches a sink only through the sinks of the actor whose
    spotlight it reads (a.sinks[rp.name], a = the reader's actor).  This
    partition is an assumption of the model; the translator does not check it. *)
Definition partitioned (cell : string) (c : comp) : bool :=
  match c with SpotReader => String.eqb cell "sink.lastVal" | _ => false end.

(** * Happens-before between components: base edges, each created by the
    named mechanism (checked present in the source through [expected_skeleton]) *)
Definition base_edges : list (comp * comp) :=
  [ (Init, Setup);            (* package initialisation completes before main starts *)
    (Init, Any);              (* ... hence before any helper can be called *)
    (Setup, MainWait);        (* program order in cfg.run: prepareDirs, newApp before runConduct *)
    (Setup, Resize);          (* go ap.handleResize in prepareTerm (newApp) *)
    (Setup, CondPre);         (* runWorker(go) in runConduct starts conduct *)
    (Setup, CleanupWorker);
    (CondPre, CondMid);       (* program order in conduct *)
    (CondMid, CondPost);      (* program order in conduct *)
    (CondPre, Audition);      (* startAudition: wg.Add, runWorker(go) after makeTheater *)
    (CondPre, Collector);     (* startCollector *)
    (CondPre, SpotMgr);       (* startSpotlights *)
    (CondPre, Prompter);      (* startPrompter *)
    (SpotMgr, SpotReader);    (* runWorker(go) in manageSpotlights *)
    (Prompter, Line);         (* runAsyncTask(go) in runScene *)
    (Prompter, CondPost);     (* wg.Done in startPrompter's worker -> wgPrompt.Wait() *)
    (Line, CondPost);         (* defer wg.Done in the task -> deferred wg.Wait() of runScene, before prompt returns *)
    (SpotMgr, CondPost);      (* wgspot.Wait() *)
    (SpotReader, CondPost);   (* defer wg.Done -> deferred wg.Wait() of manageSpotlights -> wgspot.Wait() *)
    (Audition, CondPost);     (* wgau.Wait() *)
    (Collector, CondPost);    (* wgcol.Wait() *)
    (CondPost, Post);         (* errChan send + close in runConduct's worker -> `<-errChan` before runConduct returns *)
    (CleanupWorker, Post);    (* deferred wg.Wait() of runForAllActors, inside conduct *)
    (MainWait, Post) ].       (* program order in cfg.run *)

Fixpoint reach (fuel : nat) (a b : comp) : bool :=
  match fuel with
  | O => false
  | S fuel' =>
      (* if-then-else, not &&: the VM evaluates arguments eagerly *)
      existsb (fun e => if comp_eqb (fst e) a then (if comp_eqb (snd e) b then true else reach fuel' (snd e) b) else false) base_edges
  end.

(** the transitive closure of the base edges *)
Definition hbb (a b : comp) : bool := reach 16 a b.

(** * Which component runs which function.  A function literal is named
    <function>$<kind><n> (n-th literal of that kind in the function: spawn =
    handed to runWorker / runAsyncTask / go, deferred, inline = called on the
    spot, value = stored or passed as a callback); conduct and run are split
    into @pre / @mid / @post at startAudition .. wgcol.Wait(), resp. at the
    runConduct call. *)
Definition comp_map : list (string * list comp) :=
  [ (* before main *)
    ("<init>", [Init]);
    (* main goroutine before the play *)
    ("Run", [Setup]); ("config.initArgs", [Setup]); ("config.run@pre", [Setup]);
    ("config.prepareDirs", [Setup]); ("actor.prepareActionCommands", [Setup]); ("actor.prepareScript", [Setup]);
    ("config.parseActors$value1", [Setup]); ("config.parseAudience", [Setup]);
    ("config.addOrGetAudienceMember", [Setup]); ("newApp", [Setup]); ("config.setupLogging", [Setup]);
    ("config.printCfg", [Setup; Post]); ("auditor.fmtFoul", [Setup; Post]);
    ("config.actorArtifactDirName", [Setup; Post]); ("config.artifactsDir", [Setup; Post]);
    ("config.run@mid", [MainWait]);
    (* main goroutine after the play *)
    ("config.run@post", [Post]); ("config.run$deferred1", [Post]); ("config.run$deferred2", [Post]);
    ("config.run$deferred3", [Post]); ("config.run$deferred4", [Post]);
    ("app.assemble", [Post]); ("app.plot", [Post]); ("app.plot$inline1", [Post]);
    ("app.subPlots", [Post]); ("app.subPlots$inline1", [Post]); ("app.maybeRunGnuplot", [Post]);
    ("app.collectArtifacts", [Post]); ("app.collectArtifactsRec", [Post]); ("app.collectArtifactsRec$value1", [Post]);
    ("app.removeNonUploadableFiles", [Post]); ("app.removeNonUploadableFiles$value1", [Post]);
    ("app.tryUpload", [Post]); ("app.writeHtml", [Post]); ("app.writeResult", [Post]);
    (* the conductor *)
    ("app.conduct@pre", [CondPre]); ("app.openDoors", [CondPre]); ("app.makeTheater", [CondPre]);
    ("makeAuditionState", [CondPre]); ("makeCollectorState", [CondPre]);
    ("app.conduct@mid", [CondMid]);
    ("app.conduct@post", [CondPost]); ("app.conduct$deferred1", [CondPost]); ("app.conduct$deferred2", [CondPost]);
    ("app.conduct$deferred3", [CondPost]);
    (* the collector *)
    ("collector.startCollector$spawn1", [Collector]); ("collector.collect", [Collector]);
    ("collector.collect$deferred1", [Collector]); ("collector.collect$deferred2", [Collector]);
    ("collector.collectActionReport", [Collector]); ("collector.collectAuditionReport", [Collector]);
    ("collector.collectMoodChange", [Collector]); ("collector.collectObservation", [Collector]);
    ("collector.processAuditResult", [Collector]);
    ("collector.checkAuditViolations", [Collector; CondPost]);
    ("collector.isPlayFouledByDisappointment", [Collector; CondPost]);
    ("collector.isPlayFouledBySatisfaction", [Collector; CondPost]);
    ("app.expandTimeRange", [Collector; Post]); ("app.getTimeRange", [Collector; Post]);
    (* the audition *)
    ("audition.startAudition$spawn1", [Audition]); ("audition.audit", [Audition]); ("audition.audit$deferred1", [Audition]);
    ("audition.checkEvent", [Audition]); ("audition.checkEventForAuditor", [Audition]); ("audition.checkFinal", [Audition]);
    ("audition.collectAndAuditActChange", [Audition]); ("audition.collectAndAuditMood", [Audition]);
    ("audition.processAssignments", [Audition]); ("audition.processMoodChange", [Audition]);
    (* the audit loop's variable store (curVals): never handed to another component *)
    ("audition.setAndActivateVar", [Audition]); ("audition.evalExpr", [Audition]); ("audition.evalBool", [Audition]);
    ("audition.checkExpect", [Audition]); ("audition.processFsmStateChange", [Audition]);
    ("audition.checkActivationPeriodEnd", [Audition]);
    (* the prompter and its lines *)
    ("prompter.startPrompter$spawn1", [Prompter]); ("prompter.prompt", [Prompter]); ("prompter.runScene", [Prompter]);
    ("prompter.signalActChange", [Prompter]); ("prompter.runMoodChange", [Prompter; Line]);
    ("prompter.runScene$spawn1", [Line]); ("prompter.runLine", [Line]); ("actor.runAction", [Line]);
    (* the spotlights *)
    ("spotMgr.manageSpotlights$spawn1", [SpotReader]); ("spotMgr.spotlight", [SpotReader]);
    ("spotMgr.spotlight$value1", [SpotReader]); ("spotMgr.detectSignals", [SpotReader]);
    (* commands *)
    ("actor.runActorCommandWithConsumer", [Line; CleanupWorker; SpotReader]);
    ("actor.makeShCmd", [Line; CleanupWorker; SpotReader]);
    ("actor.runActorCommand", [Line; CleanupWorker]); ("app.runForAllActors$spawn1", [CleanupWorker]);
    (* the clock of the play: read by everything that runs after openDoors *)
    ("app.epoch", [Audition; Prompter; Line; SpotReader; Post]);
    (* helpers callable from anywhere: their tracked accesses are atomic or under the registry mutex *)
    ("app.judge", [Any]); ("app.witness", [Any]); ("app.setTerminalSize", [Any]);
    ("workerRegistry.addWorker", [Any]); ("workerRegistry.delWorker", [Any]); ("workerRegistry.String", [Any]) ].

Fixpoint comps_of_in (m : list (string * list comp)) (f : string) : list comp :=
  match m with
  | [] => []
  | (g, cs) :: tl => if String.eqb g f then cs else comps_of_in tl f
  end.
Definition comps_of (f : string) : list comp := comps_of_in comp_map f.

(** * Classification by inheritance.  A function that [comp_map] does not
    list runs only when it is called: if it is never used as a value nor
    started with `go` ([esc], extracted by the translator) and every one of its
    callers in the package is classified, it runs in (at most) the union of its
    callers' components.  A function with no caller, with an unclassified
    caller or one that escapes stays unclassified.  [infer] computes that; the
    checker does not trust it but re-checks the closure ([inherit_ok]). *)
Definition callers (calls : list (string * string)) (f : string) : list string :=
  map fst (filter (fun e => String.eqb (snd e) f) calls).

Definition mem_comp (c : comp) (l : list comp) : bool := existsb (comp_eqb c) l.
Fixpoint dedup (l : list comp) : list comp :=
  match l with
  | [] => []
  | x :: tl => if mem_comp x tl then dedup tl else x :: dedup tl
  end.
Definition is_nil {A} (l : list A) : bool := match l with [] => true | _ => false end.
Definition mem_str (x : string) (l : list string) : bool := existsb (String.eqb x) l.

Fixpoint infer (fuel : nat) (calls : list (string * string)) (esc : list string) (f : string) : list comp :=
  match comps_of f with
  | c :: cs => c :: cs
  | [] =>
      match fuel with
      | O => []
      | S n =>
          if mem_str f esc then []
          else
            let parts := map (infer n calls esc) (callers calls f) in
            if is_nil parts then []
            else if existsb is_nil parts then []
            else dedup (List.concat parts)
      end
  end.

(** the classification the checker uses *)
Definition cls (calls : list (string * string)) (esc : list string) (f : string) : list comp :=
  infer 8 calls esc f.

(** the unlisted functions the sites lie in, and their unlisted callers, upwards *)
Fixpoint up (fuel : nat) (calls : list (string * string)) (fs : list string) : list string :=
  match fuel with
  | O => fs
  | S n =>
      let new := filter (fun c => is_nil (comps_of c)) (flat_map (callers calls) fs) in
      match new with [] => fs | _ => fs ++ up n calls new end
  end.

(** * The synchronisation skeleton the base edges rely on, as extracted from
    the source by the translator (see the skel functions of harness/goaccess2v) *)
Definition expected_skeleton : list string :=
  ["conduct: call openDoors; call runCleanup; call makeTheater; call startAudition(wgau); call startCollector(wgcol); call startSpotlights(wgspot); call startPrompter(wgPrompt); wait wgPrompt; wait wgspot; wait wgau; recv colErrCh; wait wgcol";
   "startAudition: Add; runWorker{defer Done}";
   "startCollector: Add; runWorker{defer Done}";
   "startSpotlights: Add; runWorker{defer Done}";
   "startPrompter: Add; runWorker{defer Done}";
   "runScene: defer Wait; Add; runAsyncTask{defer Done}";
   "manageSpotlights: defer Wait; Add; runWorker{defer Done}";
   "runForAllActors: defer Wait; Add; runWorker{defer Done}";
   "runConduct: worker{send errChan conduct; defer close errChan}; return recv errChan";
   "run: prepareDirs < newApp < runConduct < assemble < plot";
   "consumer: loop; go{consumer; close readerDone}; recv readerDone";
   (* the channel protocol: auditCh (prompter and spotlights -> audition) and
      collCh (prompter and audition -> collector) have several senders and are
      never closed — the audition ends on the terminate{} event of the
      spotlight supervisor or on cancellation, the collector on the audition's
      terminate{} or on cancellation; termCh is closed by its only owner, the
      prompter's worker; each error channel by its single sender.  (Closing
      auditCh in startSpotlights made a prompter still running after a
      spotlight failure panic with "send on closed channel": fixed in 27a1a66.) *)
   "closes: actor.runActorCommandWithConsumer:readerDone; app.close:endCh; app.runConduct:errChan; audition.startAudition:errCh; collectErrors:errCh; collector.startCollector:errCh; prompter.startPrompter:errCh; prompter.startPrompter:termCh; runReaderAsync:lines; spotMgr.startSpotlights:errCh";
   "senders: auditCh <- prompter.reportMoodEvent, prompter.signalActChange, spotMgr.detectSignals, spotMgr.signalAuditTermination; collCh <- audition.collectEvent, audition.sendCollectorEvent, audition.signalCollectorTermination, prompter.reportCollectorEvent";
   (* the registry mutex is the one in the shared registry, never a copy *)
   "methods locking a copy (value receiver on a type holding a mutex): "].

(** the only pointer to a cell the protocol allows *)
Definition expected_aliases : list (string * string) :=
  [("prompter.numRepeats", "auditionResults.numRepeats")].

(** * Messages.  The event objects the components hand to each other over
    auditCh / collCh are shared by pointer: the prompter even hands the SAME
    *moodChange first to the audition and then to the collector.  The
    discipline: a message is built and completed by the component that
    produces it, before the send; whoever receives it only reads.  The
    translator lists every write to a message field outside its composite
    literal (sync [Msg]); each must lie in a function run only by producers
    of that message.  (A producer writing after its own send is not excluded
    by this rule; none of the listed sites does.) *)
Definition producers : list (string * list comp) :=
  [ ("actChange", [Prompter]);            (* prompter.signalActChange *)
    ("actionReport", [Line]);             (* actor.runAction, completed by prompter.runLine *)
    ("auditableValue", [SpotReader]);     (* spotMgr.detectSignals *)
    ("auditionReport", [Audition]);       (* audition.checkExpect / checkActivationPeriodEnd / processFsmStateChange *)
    ("moodChange", [Prompter; Line]);     (* prompter.runMoodChange, from the prompter and from lines *)
    ("observation", [Audition]);          (* audition.collectEvent *)
    ("sigEvent", [SpotReader]) ].         (* spotMgr.detectSignals *)

(** "moodChange.ts" -> "moodChange" *)
Fixpoint struct_of (s : string) : string :=
  match s with
  | EmptyString => EmptyString
  | String c tl => if Ascii.eqb c "."%char then EmptyString else String c (struct_of tl)
  end.

Definition producers_of (cell : string) : list comp := comps_of_in producers (struct_of cell).

(** * Conflicts *)
Record esite := { e_site : site; e_comp : comp }.

Definition expand (cl : string -> list comp) (ss : list site) : list esite :=
  flat_map (fun s => map (fun c => {| e_site := s; e_comp := c |}) (cl (s_func s))) ss.

Definition is_write (k : kind) : bool := match k with W => true | R => false end.
Definition sync_eqb (a b : sync) : bool :=
  match a, b with Plain, Plain | Atomic, Atomic | Locked, Locked | Msg, Msg => true | _, _ => false end.

(** two accesses to the same memory, at least one a write, not both atomic
    and not both under the mutex *)
Definition conflictb (a b : esite) : bool :=
  String.eqb (s_cell (e_site a)) (s_cell (e_site b))
  && (is_write (s_kind (e_site a)) || is_write (s_kind (e_site b)))
  && negb (sync_eqb (s_sync (e_site a)) Atomic && sync_eqb (s_sync (e_site b)) Atomic)
  && negb (sync_eqb (s_sync (e_site a)) Locked && sync_eqb (s_sync (e_site b)) Locked)
  && negb (sync_eqb (s_sync (e_site a)) Msg) && negb (sync_eqb (s_sync (e_site b)) Msg).

Definition conflict (a b : esite) : Prop :=
  s_cell (e_site a) = s_cell (e_site b)
  /\ (s_kind (e_site a) = W \/ s_kind (e_site b) = W)
  /\ ~ (s_sync (e_site a) = Atomic /\ s_sync (e_site b) = Atomic)
  /\ ~ (s_sync (e_site a) = Locked /\ s_sync (e_site b) = Locked)
  /\ s_sync (e_site a) <> Msg /\ s_sync (e_site b) <> Msg.

Definition hb (a b : comp) : Prop := hbb a b = true.

(** both accesses are made by the same sequential thread: the same component,
    and either only one instance of it exists or the cell is partitioned among
    its instances *)
Definition same_componentb (a b : esite) : bool :=
  comp_eqb (e_comp a) (e_comp b)
  && (negb (multi (e_comp a)) || partitioned (s_cell (e_site a)) (e_comp a)).
Definition same_component (a b : esite) : Prop :=
  e_comp a = e_comp b
  /\ (multi (e_comp a) = false \/ partitioned (s_cell (e_site a)) (e_comp a) = true).

(** * The checker *)
Definition pair_ok (a b : esite) : bool :=
  negb (conflictb a b) || hbb (e_comp a) (e_comp b) || hbb (e_comp b) (e_comp a) || same_componentb a b.

Definition mapped (f : string) : bool := match comps_of f with [] => false | _ => true end.
Definition has_any (cs : list comp) : bool := existsb (comp_eqb Any) cs.
Definition subset (a b : list comp) : bool := forallb (fun x => existsb (comp_eqb x) b) a.

(** a call f -> g into a function listed in [comp_map]: f is classified, and
    whatever runs f may run g *)
Definition edge_ok (cl : string -> list comp) (e : string * string) : bool :=
  let '(f, g) := e in
  negb (mapped g) || has_any (comps_of g) || (negb (is_nil (cl f)) && subset (cl f) (comps_of g)).

(** an unlisted function that holds sites (or calls into one that does):
    classified, not escaping, called from somewhere, and every caller is
    classified within its classification and is itself listed or in [sup] *)
Definition inherit_ok (cl : string -> list comp) (calls : list (string * string)) (esc sup : list string)
           (f : string) : bool :=
  negb (is_nil (cl f)) && negb (mem_str f esc) && negb (is_nil (callers calls f))
  && forallb (fun c => negb (is_nil (cl c)) && subset (cl c) (cl f) && (mapped c || mem_str c sup)) (callers calls f).

(** a write to a message field lies in a function that only producers of the
    message run *)
Definition msg_ok (cl : string -> list comp) (s : site) : bool :=
  negb (sync_eqb (s_sync s) Msg) || (negb (is_nil (cl (s_func s))) && subset (cl (s_func s)) (producers_of (s_cell s))).

Definition str_pair_eqb (a b : string * string) : bool :=
  String.eqb (fst a) (fst b) && String.eqb (snd a) (snd b).

Definition support (sites : list site) (calls : list (string * string)) : list string :=
  up 8 calls (filter (fun f => is_nil (comps_of f)) (map s_func sites)).

Definition full_check (sites : list site) (calls : list (string * string))
           (skeleton tracked : list string) (aliases : list (string * string)) (messages esc : list string) : bool :=
  let cl := cls calls esc in
  let es := expand cl sites in
  forallb (fun a => forallb (pair_ok a) es) es
  && forallb (msg_ok cl) sites
  && list_eqb String.eqb messages (map fst producers)
  && forallb (fun s => negb (is_nil (cl (s_func s)))) sites
  && forallb (inherit_ok cl calls esc (support sites calls)) (support sites calls)
  && forallb (edge_ok cl) calls
  && list_eqb String.eqb skeleton expected_skeleton
  && list_eqb String.eqb tracked cells
  && list_eqb str_pair_eqb aliases expected_aliases.

(** diagnostics, evaluated by the check when [full_check] fails *)
Definition bad_pairs (cl : string -> list comp) (sites : list site) : list (string * string * string) :=
  let es := expand cl sites in
  flat_map (fun a => flat_map (fun b => if pair_ok a b then [] else
     [(s_cell (e_site a), s_pos (e_site a) ++ " " ++ s_func (e_site a), s_pos (e_site b) ++ " " ++ s_func (e_site b))]) es) es.
Definition unmapped_sites (cl : string -> list comp) (sites : list site) : list (string * string) :=
  flat_map (fun s => if is_nil (cl (s_func s)) then [(s_func s, s_pos s)] else []) sites.
Definition bad_message_writes (cl : string -> list comp) (sites : list site) : list (string * string) :=
  flat_map (fun s => if msg_ok cl s then [] else [(s_cell s, s_pos s ++ " " ++ s_func s)]) sites.
Definition bad_edges (cl : string -> list comp) (calls : list (string * string)) : list (string * string) :=
  filter (fun e => negb (edge_ok cl e)) calls.
Definition bad_inherit (cl : string -> list comp) (sites : list site) (calls : list (string * string)) (esc : list string) : list string :=
  filter (fun f => negb (inherit_ok cl calls esc (support sites calls) f)) (support sites calls).
