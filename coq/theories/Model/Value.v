(** Values of the audition's variables (govaluate's interface{} restricted to
    what the audition stores): nil, float64 (modelled exactly as a rational —
    rounding is outside the model, DESIGN.md section 2), bool, string, array. *)
From Shk Require Import Base.Prelude.
From Coq Require Export QArith String.
From Coq Require Import Qabs.

Inductive value :=
| VNil
| VNum (q : Q)
| VBool (b : bool)
| VStr (s : string)
| VArr (l : list value).

(** reflect.DeepEqual on these values (numbers compared numerically). *)
Fixpoint value_eqb (a b : value) : bool :=
  match a, b with
  | VNil, VNil => true
  | VNum x, VNum y => Qeq_bool x y
  | VBool x, VBool y => Bool.eqb x y
  | VStr x, VStr y => String.eqb x y
  | VArr x, VArr y =>
      (fix go (x y : list value) : bool :=
         match x, y with
         | [], [] => true
         | u :: x', v :: y' => value_eqb u v && go x' y'
         | _, _ => false
         end) x y
  | _, _ => false
  end.

(** Comparison used by the correspondence only: numbers within a relative
    tolerance of 1e-9 (the one inexact float operation per evaluation, e.g.
    avg, is compared with this tolerance). *)
Definition num_close (x y : Q) : bool :=
  let d := Qabs (x - y) in
  let m := Qabs x in
  Qle_bool (d * (1000000000 # 1)) (if Qle_bool 1 m then m else 1).

Fixpoint value_close (a b : value) : bool :=
  match a, b with
  | VNil, VNil => true
  | VNum x, VNum y => num_close x y
  | VBool x, VBool y => Bool.eqb x y
  | VStr x, VStr y => String.eqb x y
  | VArr x, VArr y =>
      (fix go (x y : list value) : bool :=
         match x, y with
         | [], [] => true
         | u :: x', v :: y' => value_close u v && go x' y'
         | _, _ => false
         end) x y
  | _, _ => false
  end.

Definition is_nil (v : value) : bool := match v with VNil => true | _ => false end.

(** scalarConv: bools count as 0/1. *)
Definition scalar_of (v : value) : option Q :=
  match v with
  | VNum q => Some q
  | VBool true => Some 1
  | VBool false => Some 0
  | _ => None
  end.
