(** Model of the verdict logic (property C03): parseInterpretation's effect on
    the per-auditor foul conditions, the collector's tallies
    (processAuditResult), checkAuditViolations, the early exit of -S, and the
    error funnel of conduct (four shutdown stages, ignCancel, the deferred
    re-check of the audit verdict).  Definitions only. *)
From Shk Require Import Base.Prelude.
From Coq Require Import String.
Open Scope list_scope.

Inductive fcond := FIgnore | FNonZero | FZero.       (* ignore / foul upon / require *)
Inductive res := RBad | RGood.                       (* disappointment / satisfaction *)

Definition fcond_eqb (a b : fcond) : bool :=
  match a, b with FIgnore, FIgnore | FNonZero, FNonZero | FZero, FZero => true | _, _ => false end.
Definition res_eqb (a b : res) : bool :=
  match a, b with RBad, RBad | RGood, RGood => true | _, _ => false end.

(** What the configuration file contains, in order, as far as the verdict is
    concerned: the first mention of an audience member (it is created with the
    defaults `foul upon disappointment`, `ignore satisfaction`), the
    auditor-less `ignore <result>` (touches every member defined SO FAR), and
    `<mode> <auditor> <result>`. *)
Inductive item :=
| IMember (a : string)
| IIgnoreAll (r : res)
| ISet (m : fcond) (a : string) (r : res).

Definition fc := (fcond * fcond)%type.               (* (on bad, on good) *)
Definition default_fc : fc := (FNonZero, FIgnore).
Definition set_res (r : res) (m : fcond) (x : fc) : fc :=
  match r with RBad => (m, snd x) | RGood => (fst x, m) end.
Definition get_res (r : res) (x : fc) : fcond := match r with RBad => fst x | RGood => snd x end.

Fixpoint assoc_set (a : string) (f : fc -> fc) (l : list (string * fc)) : option (list (string * fc)) :=
  match l with
  | [] => None
  | (b, x) :: tl => if String.eqb a b then Some ((b, f x) :: tl)
                    else match assoc_set a f tl with Some r => Some ((b, x) :: r) | None => None end
  end.
Fixpoint assoc_get (a : string) (l : list (string * fc)) : option fc :=
  match l with
  | [] => None
  | (b, x) :: tl => if String.eqb a b then Some x else assoc_get a tl
  end.

(** One item; [None] = the parser rejects it (`audience member not defined`). *)
Definition apply_item (l : list (string * fc)) (i : item) : option (list (string * fc)) :=
  match i with
  | IMember a => match assoc_get a l with Some _ => Some l | None => Some (l ++ [(a, default_fc)]) end
  | IIgnoreAll r => Some (map (fun '(b, x) => (b, set_res r FIgnore x)) l)
  | ISet m a r => assoc_set a (set_res r m) l
  end.

Fixpoint interp (l : list (string * fc)) (is : list item) : option (list (string * fc)) :=
  match is with
  | [] => Some l
  | i :: tl => match apply_item l i with Some l' => interp l' tl | None => None end
  end.

(** * Tallies *)

(** A report as the collector sees it: auditor and result code
    (0 ok, 1 evaluation error, 2 disappointed, 3 info). *)
Definition report := (string * Z)%type.

Record tally := {
  t_errors : nat;
  t_bad : list (string * nat);
  t_good : list (string * nat);
  t_hasdata : list string;
}.
Definition tally0 : tally := {| t_errors := 0; t_bad := []; t_good := []; t_hasdata := [] |}.

Fixpoint count_of (a : string) (l : list (string * nat)) : nat :=
  match l with [] => 0 | (b, n) :: tl => if String.eqb a b then n else count_of a tl end.
Fixpoint incr (a : string) (l : list (string * nat)) : list (string * nat) :=
  match l with
  | [] => [(a, 1)]
  | (b, n) :: tl => if String.eqb a b then (b, S n) :: tl else (b, n) :: incr a tl
  end.
Definition has_data (a : string) (t : tally) : bool := existsb (String.eqb a) (t_hasdata t).

(** collectAuditionReport + processAuditResult (counting part) *)
Definition add_report (t : tally) (r : report) : tally :=
  let '(a, code) := r in
  let hd := if has_data a t then t_hasdata t else t_hasdata t ++ [a] in
  if Z.eqb code 1 then {| t_errors := S (t_errors t); t_bad := t_bad t; t_good := t_good t; t_hasdata := hd |}
  else if Z.eqb code 0 then {| t_errors := t_errors t; t_bad := t_bad t; t_good := incr a (t_good t); t_hasdata := hd |}
  else if Z.eqb code 2 then {| t_errors := t_errors t; t_bad := incr a (t_bad t); t_good := t_good t; t_hasdata := hd |}
  else {| t_errors := t_errors t; t_bad := t_bad t; t_good := t_good t; t_hasdata := hd |}.

(** isPlayFouledByDisappointment / BySatisfaction *)
Definition fouled_by (m : fcond) (cnt : nat) (at_end : bool) : bool :=
  match m with
  | FNonZero => Nat.ltb 0 cnt
  | FZero => Nat.eqb cnt 0 && at_end
  | FIgnore => false
  end.

Definition member_fouls (cfg : list (string * fc)) (t : tally) (at_end : bool) (a : string) : bool :=
  match assoc_get a cfg with
  | None => false
  | Some x => fouled_by (fst x) (count_of a (t_bad t)) at_end || fouled_by (snd x) (count_of a (t_good t)) at_end
  end.

(** checkAuditViolations: is the returned error non-nil? *)
Definition fouled (cfg : list (string * fc)) (t : tally) : bool :=
  Nat.ltb 0 (t_errors t)
  || existsb (fun '(a, _) => has_data a t && member_fouls cfg t true a) cfg.

(** The four lists of the diagnostic: (satisfied, disappointed, never
    satisfied, never disappointed), in declaration order. *)
Definition foul_lists (cfg : list (string * fc)) (t : tally) : list string * list string * list string * list string :=
  let ms := filter (fun '(a, _) => has_data a t) cfg in
  (map fst (filter (fun '(a, x) => match snd x with FNonZero => Nat.ltb 0 (count_of a (t_good t)) | _ => false end) ms),
   map fst (filter (fun '(a, x) => match fst x with FNonZero => Nat.ltb 0 (count_of a (t_bad t)) | _ => false end) ms),
   map fst (filter (fun '(a, x) => match snd x with FZero => Nat.eqb (count_of a (t_good t)) 0 | _ => false end) ms),
   map fst (filter (fun '(a, x) => match fst x with FZero => Nat.eqb (count_of a (t_bad t)) 0 | _ => false end) ms)).

(** The collector's loop over the stream of reports; with -S it stops after
    the first report that records an evaluation error or makes an `foul upon`
    condition of THAT auditor true.  Returns the tally and whether it stopped
    early. *)
Definition early_stop (cfg : list (string * fc)) (t : tally) (r : report) : bool :=
  let '(a, code) := r in
  if Z.eqb code 3 then false
  else if Z.eqb code 1 then true
  else member_fouls cfg t false a.

Fixpoint collector_run (cfg : list (string * fc)) (early : bool) (t : tally) (rs : list report) : tally * bool :=
  match rs with
  | [] => (t, false)
  | r :: tl =>
      let t' := add_report t r in
      if early && early_stop cfg t' r then (t', true) else collector_run cfg early t' tl
  end.

(** * The error funnel of conduct *)

(** An error value, abstracted to what the funnel looks at: nil, or a
    non-empty list of causes whose LAST element is what errors.Is / Unwrap see
    (errorCollection.Unwrap returns the last element). *)
Inductive cause := KCancel | KAudit | KReal.
Definition err := list cause.                    (* [] = nil *)
Definition combine (a b : err) : err := a ++ b.
Definition is_last (k : cause) (e : err) : bool :=
  match last e KReal, e with
  | _, [] => false
  | KCancel, _ => match k with KCancel => true | _ => false end
  | KAudit, _ => match k with KAudit => true | _ => false end
  | KReal, _ => match k with KReal => true | _ => false end
  end.
Definition ign_cancel (e : err) : err := if is_last KCancel e then [] else e.

Inductive comp := CP | CS | CA | CC.                  (* prompter, spotlights, audition, collector *)
Definition comp_eqb (a b : comp) : bool :=
  match a, b with CP, CP | CS, CS | CA, CA | CC, CC => true | _, _ => false end.
Definition cmem (x : comp) (l : list comp) : bool := existsb (comp_eqb x) l.
Definition cremove (x : comp) (l : list comp) : list comp := filter (fun y => negb (comp_eqb x y)) l.

(** The four values the components deliver on their error channels. *)
Record outcome := { o_p : err; o_s : err; o_a : err; o_c : err }.
Definition comp_err (o : outcome) (x : comp) : err :=
  match x with CP => o_p o | CS => o_s o | CA => o_a o | CC => o_c o end.

(** ** conduct's four shutdown stages

    State of the shutdown.  Every error channel carries one value and is then
    closed: a second read finds it closed and yields nil. *)
Record shut := {
  sh_consumed : list comp;            (* channels that have been read *)
  sh_reads : list (comp * bool);      (* the reads that found a value, in order; true = through ignCancel *)
  sh_fin : err;                       (* finalErr *)
  sh_cancelled : list comp            (* components whose context conduct cancelled BEFORE it had read their result *)
}.
Definition shut0 : shut := {| sh_consumed := []; sh_reads := []; sh_fin := []; sh_cancelled := [] |}.

(** One read of a component's channel; finalErr = combineErrors(new, finalErr)
    puts the new error FIRST.  Returns the value read (nil when closed). *)
Definition do_read (o : outcome) (x : comp) (ig : bool) (s : shut) : shut * err :=
  if cmem x (sh_consumed s) then (s, [])
  else let v := comp_err o x in
       ({| sh_consumed := x :: sh_consumed s;
           sh_reads := sh_reads s ++ [(x, ig)];
           sh_fin := combine (if ig then ign_cancel v else v) (sh_fin s);
           sh_cancelled := sh_cancelled s |}, v).

(** The `if interrupt` block of a stage: for each component of the list in
    turn, cancel its context, then read its channel through ignCancel. *)
Definition cancel_and_read (o : outcome) (s : shut) (x : comp) : shut :=
  let s1 := if cmem x (sh_consumed s) then s
            else {| sh_consumed := sh_consumed s; sh_reads := sh_reads s; sh_fin := sh_fin s;
                    sh_cancelled := sh_cancelled s ++ [x] |} in
  fst (do_read o x true s1).
Definition interrupt_block (o : outcome) (l : list comp) (s : shut) : shut := fold_left (cancel_and_read o) l s.

(** Which channel a `select` yields is the scheduler's business: an oracle
    (a list of components, consumed one per select) says it; an entry that is
    not among the watched channels, or an exhausted oracle, stands for the
    stage's own channel.  Every behaviour of the selects is the behaviour under
    some oracle, and the theorems quantify over all of them. *)
Definition choose (ch : list comp) (own : comp) (watched : list comp) : comp * list comp :=
  match ch with
  | [] => (own, [])
  | c :: ch' => if cmem c watched then (c, ch') else (own, ch')
  end.

(** Stages 1 and 2: wait for the stage's own component while watching the
    later ones.  [fixed = true] is the code as it is now: a later component
    that delivers nil (it ended because the stage before it told it to) is no
    longer watched and the wait goes on.  [fixed = false] is the pinned code:
    any delivery from a later component interrupted the stage. *)
Fixpoint stage (fixed : bool) (fuel : nat) (o : outcome) (own : comp) (cancel_list watched : list comp)
         (ch : list comp) (s : shut) : shut * list comp * list comp :=
  match fuel with
  | 0 => (fst (do_read o own false s), watched, ch)
  | S fuel' =>
      let '(x, ch') := choose ch own watched in
      if comp_eqb x own then (fst (do_read o own false s), watched, ch')
      else let '(s', v) := do_read o x false s in
           match v, fixed with
           | [], true => stage fixed fuel' o own cancel_list (cremove x watched) ch' s'
           | _, _ => (interrupt_block o cancel_list s', watched, ch')
           end
  end.

(** Stage 3 (waits for the audition, watches the collector; any delivery from
    the collector interrupts) and stage 4 (reads the collector through
    ignCancel). *)
Definition stage3 (o : outcome) (ch : list comp) (s : shut) : shut * list comp :=
  let '(x, ch') := choose ch CA [CC] in
  if comp_eqb x CA then (fst (do_read o CA false s), ch')
  else (interrupt_block o [CA; CC] (fst (do_read o CC false s)), ch').

Definition conduct_run (fixed : bool) (ch : list comp) (o : outcome) : shut :=
  let '(s1, w1, ch1) := stage fixed 4 o CP [CP; CS; CA; CC] [CS; CA; CC] ch shut0 in
  let '(s2, _, ch2) := stage fixed 3 o CS [CS; CA; CC] (cremove CS w1) ch1 s1 in
  let '(s3, _) := stage3 o ch2 s2 in
  fst (do_read o CC true s3).

Definition stages (fixed : bool) (ch : list comp) (o : outcome) : err := sh_fin (conduct_run fixed ch o).

(** conduct's return value: the stages, then (deferred, in LIFO order) the
    re-check of the audit verdict unless the error already is an audit
    violation, then the final cleanup's error. *)
Definition conduct_result (fixed : bool) (ch : list comp) (o : outcome) (verdict cleanup : err) : err :=
  let e := stages fixed ch o in
  let e := if is_last KAudit e then e else combine e verdict in
  combine e cleanup.

(** exit status: run() returns the error, main exits 1 iff it is non-nil *)
Definition exit_nonzero (e : err) : bool := match e with [] => false | _ => true end.

(** collectErrors: the results of concurrent commands (cleanups of all actors,
    the lines of a scene, the spotlights), in completion order, are combined;
    nil results are skipped, nothing else is. *)
Definition collect_errors (rs : list err) : err := List.concat rs.
