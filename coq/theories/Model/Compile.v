(** Model of [compileV2] and [printSteps] (pkg/cmd/compile.go:24-172), of the
    scene-definition clauses of [parseScript] (pkg/cmd/parsecfg.go:894-954) as
    far as they build [cfg.sceneSpecs], and of a whole `script` section as a
    list of clauses (property C06).

    The compiler walks the act string with the cursor [scriptIdx]; here it
    walks the suffix [script[scriptIdx:]] (see Model/Storyline.v for what that
    representation does and does not claim).  [cfg.sceneSpecs[scChar]] for an
    undefined scene yields a nil pointer whose dereference panics: [Panic].

    Oddities kept: the `mood ends` scene gets [thisScene.waitUntil], which is
    0 when the group had lines ([thisScene] was just reset to [scene{}]) and
    the group's time otherwise; a `+` at the end of an act leaves the last
    group unflushed; an entail without actions produces no line.

    Not modelled: the split of the action list at `;`, identifier checks,
    the check that an action exists for the role (the case generator only
    produces defined actions), [repeat from] bookkeeping.

    Executable definitions only; proofs are in Proofs/CompileProofs.v. *)
From Shk Require Import Base.Prelude Model.Storyline.
Open Scope Z_scope.

(** * Data *)
Record step := mkStep { st_amb : bool;          (* typ: false = stepDo, true = stepAmbiance *)
                        st_action : bytes;
                        st_failok : bool }.
Record sline := mkLine { ln_actor : option bytes;   (* None = nil *actor (mood change) *)
                         ln_steps : list step }.
Record scene := mkScene { sc_wait : Z;          (* waitUntil, ns *)
                          sc_lines : list sline }.
Definition act_play := list scene.
Definition play := list act_play.

(** [sceneSpec]: entails = (actor, actions as written, `?` included). *)
Record scene_spec := mkSpec { ss_entails : list (bytes * list bytes);
                              ss_start : bytes;
                              ss_end : bytes }.
Definition specs := list (byte * scene_spec).
Definition empty_spec : scene_spec := mkSpec [] [] [].

Fixpoint lookup (sp : specs) (c : byte) : option scene_spec :=
  match sp with
  | [] => None
  | (k, v) :: tl => if Byte.eqb k c then Some v else lookup tl c
  end.
Definition defined (sp : specs) (c : byte) : bool :=
  match lookup sp c with Some _ => true | None => false end.

(** * compileV2 *)

(** [strings.HasSuffix(act, "?")] / [TrimSuffix]. *)
Definition mk_step (act : bytes) : step :=
  match rev act with
  | c :: r => if Byte.eqb c b_qm then mkStep false (rev r) true else mkStep false act false
  | [] => mkStep false act false
  end.

Definition no_steps (l : sline) : bool := match ln_steps l with [] => true | _ => false end.

(** The lines one scene adds to [thisScene.concurrentLines]: one per entail,
    erased again when it got no step. *)
Definition lines_of_spec (sc : scene_spec) : list sline :=
  filter (fun l => negb (no_steps l))
         (map (fun e : bytes * list bytes => mkLine (Some (fst e)) (map mk_step (snd e))) (ss_entails sc)).

Definition mood_scene (w : Z) (m : bytes) : scene :=
  mkScene w [mkLine None [mkStep true m false]].

Definition no_lines (l : list sline) : bool := match l with [] => true | _ => false end.

(** "End of scene": what is appended to [thisAct]. *)
Definition end_group (at_ : Z) (ms me : bytes) (cur : list sline) : list scene :=
  (if is_empty ms then [] else [mood_scene at_ ms])
  ++ (if no_lines cur then [] else [mkScene at_ cur])
  ++ (if is_empty me then [] else [mood_scene (if no_lines cur then at_ else 0) me]).

Definition compile_err : N := 100.     (* AssertionFailedf("unexpected %c at position ...") *)

Fixpoint compile_loop (sp : specs) (tempo : Z) (s : bytes) (at_ : Z) (ms me : bytes)
         (cur : list sline) : Outcome (list scene) :=
  match s with
  | [] => Ok [mkScene at_ []]                       (* "Wait at end of act for remaining time." *)
  | c :: tl =>
      if is_plus c || is_us c then Err compile_err
      else
        match (if is_dot c then Some empty_spec else lookup sp c) with
        | None => Panic                             (* nil *sceneSpec dereferenced *)
        | Some sc =>
            let ms' := if negb (is_empty (ss_start sc)) && is_empty ms then ss_start sc else ms in
            let me' := if negb (is_empty (ss_end sc)) then ss_end sc else me in
            let cur' := cur ++ lines_of_spec sc in
            match tl with
            | p :: tl' =>
                if is_plus p then compile_loop sp tempo tl' at_ ms' me' cur'      (* scriptIdx++; continue *)
                else obind (compile_loop sp tempo tl (at_ + tempo) [] [] [])
                           (fun rest => Ok (end_group at_ ms' me' cur' ++ rest))
            | [] => obind (compile_loop sp tempo tl (at_ + tempo) [] [] [])
                          (fun rest => Ok (end_group at_ ms' me' cur' ++ rest))
            end
        end
  end.

Definition compile_act (sp : specs) (tempo : Z) (s : bytes) : Outcome act_play :=
  compile_loop sp tempo s 0 [] [] [].

Fixpoint compile (sp : specs) (tempo : Z) (sl : list bytes) : Outcome play :=
  match sl with
  | [] => Ok []
  | a :: tl => obind (compile_act sp tempo a) (fun x =>
               obind (compile sp tempo tl) (fun r => Ok (x :: r)))
  end.

(** * The scene-definition clauses and a whole script *)
Inductive target := TActor (a : bytes) | TEvery (r : bytes).

(** cast: (actor name, role name) in definition order ([cfg.actorNames]). *)
Definition cast := list (bytes * bytes).

Inductive cmd :=
| CCast (more : cast)          (* a further `cast` section: these actors are hired now *)
| CEntails (c : byte) (t : target) (actions : list bytes)
| CMoodStart (c : byte) (m : bytes)
| CMoodEnd (c : byte) (m : bytes)
| CStoryline (text : bytes)
| CEdit (subst : bytes -> bytes).

(** [maybeAddSceneSpec] followed by an update of the spec. *)
Fixpoint upd_spec (sp : specs) (c : byte) (f : scene_spec -> scene_spec) : specs :=
  match sp with
  | [] => [(c, f empty_spec)]
  | (k, v) :: tl => if Byte.eqb k c then (k, f v) :: tl else (k, v) :: upd_spec tl c f
  end.

Definition unknown_actor : N := 6.

(** [selectActors]: [None] = unknown actor.  An unknown role cannot be told
    from a role without actors here; the generator never names one. *)
Definition select_actors (cs : cast) (t : target) : option (list bytes) :=
  match t with
  | TActor a => if existsb (fun e => bytes_eqb (fst e) a) cs then Some [a] else None
  | TEvery r => Some (map fst (filter (fun e => bytes_eqb (snd e) r) cs))
  end.

(** [st_more]: the actors hired by `cast` sections read after the first script
    clause (the cast in force is the initial one followed by these). *)
Record sstate := mkState { st_specs : specs; st_story : list bytes; st_more : cast }.
Definition init_state : sstate := mkState [] [] [].

Definition run_cmd (cs : cast) (st : sstate) (c : cmd) : Outcome sstate :=
  match c with
  | CCast more => Ok (mkState (st_specs st) (st_story st) (st_more st ++ more))
  | CEntails ch t actions =>
      match select_actors (cs ++ st_more st) t with
      | None => Err unknown_actor
      | Some [] => Ok st                      (* "warning: there is no actor playing role": clause dropped *)
      | Some found =>
          Ok (mkState (upd_spec (st_specs st) ch
                         (fun s => mkSpec (ss_entails s ++ map (fun a => (a, actions)) found)
                                          (ss_start s) (ss_end s)))
                      (st_story st) (st_more st))
      end
  | CMoodStart ch m =>
      Ok (mkState (upd_spec (st_specs st) ch (fun s => mkSpec (ss_entails s) m (ss_end s))) (st_story st) (st_more st))
  | CMoodEnd ch m =>
      Ok (mkState (upd_spec (st_specs st) ch (fun s => mkSpec (ss_entails s) (ss_start s) m)) (st_story st) (st_more st))
  | CStoryline text =>
      obind (do_storyline (defined (st_specs st)) (st_story st) text)
            (fun sl => Ok (mkState (st_specs st) sl (st_more st)))
  | CEdit f =>
      obind (do_edit (defined (st_specs st)) (st_story st) f)
            (fun sl => Ok (mkState (st_specs st) sl (st_more st)))
  end.

Fixpoint run_script (cs : cast) (st : sstate) (cmds : list cmd) : Outcome sstate :=
  match cmds with
  | [] => Ok st
  | c :: tl => obind (run_cmd cs st c) (fun st' => run_script cs st' tl)
  end.

(** The trace of [cfg.storyLine] after every clause (what the stepwise hook
    observes); stops at the first clause that is refused. *)
Fixpoint run_trace (cs : cast) (st : sstate) (cmds : list cmd) : list (Outcome (list bytes)) :=
  match cmds with
  | [] => []
  | c :: tl =>
      match run_cmd cs st c with
      | Ok st' => Ok (st_story st') :: run_trace cs st' tl
      | Err e => [Err e]
      | Panic => [Panic]
      | OutOfFuel => [OutOfFuel]
      end
  end.

Definition compile_script (cs : cast) (tempo : Z) (cmds : list cmd) : Outcome (list bytes * play) :=
  obind (run_script cs init_state cmds) (fun st =>
  obind (compile (st_specs st) tempo (st_story st)) (fun p => Ok (st_story st, p))).

(** * printSteps, as a list of events (one per printed line, without the
    formatting of numbers and durations). *)
Inductive pevent :=
| PAct (k : Z) (story : option bytes)       (* "# -- ACT k: story --" *)
| PWait (i : Z) (ns : Z)                    (* "#  i:  (wait until d)" *)
| PMeanwhile (i : Z)                        (* "#  i:  (meanwhile)" *)
| PDo (i : Z) (actor action : bytes) (failok : bool)   (* "#  i:  actor: action!|?" *)
| PMood (i : Z) (m : bytes).                (* "#  i:  (mood: m)" *)

Fixpoint print_steps_of (i : Z) (actor : option bytes) (l : list step) : Outcome (list pevent) :=
  match l with
  | [] => Ok []
  | s :: tl =>
      obind (print_steps_of i actor tl) (fun rest =>
        if st_amb s then Ok (PMood i (st_action s) :: rest)
        else match actor with
             | Some a => Ok (PDo i a (st_action s) (st_failok s) :: rest)
             | None => Panic                      (* line.actor.name with a nil actor *)
             end)
  end.

Fixpoint print_lines (i : Z) (first : bool) (l : list sline) : Outcome (list pevent) :=
  match l with
  | [] => Ok []
  | ln :: tl =>
      let has := negb (no_steps ln) in
      obind (print_steps_of i (ln_actor ln) (ln_steps ln)) (fun evs =>
      obind (print_lines i (first && negb has) tl) (fun rest =>
        Ok ((if has && negb first then [PMeanwhile i] else []) ++ evs ++ rest)))
  end.

Fixpoint print_scenes (i : Z) (at_ : Z) (l : list scene) : Outcome (list pevent) :=
  match l with
  | [] => Ok []
  | s :: tl =>
      let w := sc_wait s in
      let is_last := match tl with [] => true | _ => false end in
      let wait_ev := if negb (w =? 0) && (is_last || negb (w =? at_)) then [PWait i w] else [] in
      let at' := if w =? 0 then at_ else w in
      obind (print_lines i true (sc_lines s)) (fun evs =>
      obind (print_scenes (i + 1) at' tl) (fun rest => Ok (wait_ev ++ evs ++ rest)))
  end.

Fixpoint print_acts (k : Z) (story : list bytes) (p : play) : Outcome (list pevent) :=
  match p with
  | [] => Ok []
  | a :: tl =>
      obind (print_scenes 1 0 a) (fun evs =>
      obind (print_acts (k + 1) (List.tl story) tl) (fun rest =>
        Ok (PAct k (hd_error story) :: evs ++ rest)))
  end.

Definition print_play (story : list bytes) (p : play) : Outcome (list pevent) := print_acts 1 story p.
