(** Byte-level models of the small, index-sensitive parsers of
    pkg/cmd/parsecfg.go and pkg/cmd/config.go (C09, C20):

    - [trim_space]       strings.TrimSpace (Unicode White_Space, on UTF-8 bytes)
    - [edit_split]       the `edit s/../../` splitter of parseScript
                         (parsecfg.go:872-893: editcmd[0], editcmd[1:2],
                         strings.SplitN, parts[1], parts[2])
    - [preproc]          cfg.preprocReplace (parsecfg.go:1128-1144): leftmost
                         non-overlapping `~\w+~`, single pass, m[1:len(m)-1]
    - [parse_defines]    cfg.parseDefines (config.go:242-260)
    - [param_match] / [param_define]   the `parameter N defaults to V` clause
                         (parsecfg.go:53-62, paramRe :144)

    Go index and slice expressions go through [zidx] / [zslice], whose failure
    is the explicit outcome [Panic]; nothing here is totalised away.  No
    proofs in this file. *)
From Shk Require Import Base.Prelude.
Open Scope Z_scope.

Definition bs := list byte.

(** * Go slice primitives with their run-time checks *)

Definition zlen {A} (l : list A) : Z := Z.of_nat (length l).

(** [l[i]] : panics unless [0 <= i < len l]. *)
Definition zidx {A} (l : list A) (i : Z) : option A :=
  if i <? 0 then None else nth_error l (Z.to_nat i).

(** [l[a:b]] : panics unless [0 <= a <= b <= len l].  (Go checks [b] against
    the capacity; the length is the conservative choice: the model panics
    whenever the Go code could.) *)
Definition zslice {A} (l : list A) (a b : Z) : option (list A) :=
  if (0 <=? a) && (a <=? b) && (b <=? zlen l)
  then Some (firstn (Z.to_nat (b - a)) (skipn (Z.to_nat a) l))
  else None.

(** * Byte strings *)

Fixpoint strip_prefix (p s : bs) : option bs :=
  match p, s with
  | [], _ => Some s
  | a :: p', b :: s' => if Byte.eqb a b then strip_prefix p' s' else None
  | _ :: _, [] => None
  end.

Definition has_prefix (s p : bs) : bool :=
  match strip_prefix p s with Some _ => true | None => false end.

Definition has_suffix (s p : bs) : bool := has_prefix (rev s) (rev p).

(** strings.TrimPrefix / TrimSuffix *)
Definition trim_prefix (s p : bs) : bs :=
  match strip_prefix p s with Some r => r | None => s end.
Definition trim_suffix (s p : bs) : bs :=
  match strip_prefix (rev p) (rev s) with Some r => rev r | None => s end.

Fixpoint span (f : byte -> bool) (s : bs) : bs * bs :=
  match s with
  | [] => ([], [])
  | c :: tl => if f c then let '(a, b) := span f tl in (c :: a, b) else ([], s)
  end.

Definition byte_in (c : byte) (l : bs) : bool := existsb (Byte.eqb c) l.

(** ** strings.TrimSpace

    unicode.IsSpace = White_Space: U+0009-000D, 0020, 0085, 00A0, 1680,
    2000-200A, 2028, 2029, 202F, 205F, 3000.  A byte sequence that is not the
    (shortest-form) UTF-8 encoding of one of them decodes to a non-space rune
    or to RuneError, and stops the trimming. *)
Definition ascii_space (c : byte) : bool := byte_in c [x09; x0a; x0b; x0c; x0d; x20].

(** second and third byte of a three-byte space starting with E2 *)
Definition e2_space (d1 d2 : byte) : bool :=
  (Byte.eqb d1 x80 &&
     (let n := Byte.to_N d2 in ((128 <=? n) && (n <=? 138))%N || Byte.eqb d2 xa8 || Byte.eqb d2 xa9 || Byte.eqb d2 xaf))
  || (Byte.eqb d1 x81 && Byte.eqb d2 x9f).

Fixpoint trim_left (s : bs) : bs :=
  match s with
  | [] => []
  | c :: t1 =>
      if ascii_space c then trim_left t1
      else if Byte.eqb c xc2 then
        match t1 with
        | d :: t2 => if Byte.eqb d x85 || Byte.eqb d xa0 then trim_left t2 else s
        | [] => s
        end
      else if Byte.eqb c xe1 then
        match t1 with
        | d1 :: d2 :: t3 => if Byte.eqb d1 x9a && Byte.eqb d2 x80 then trim_left t3 else s
        | _ => s
        end
      else if Byte.eqb c xe2 then
        match t1 with
        | d1 :: d2 :: t3 => if e2_space d1 d2 then trim_left t3 else s
        | _ => s
        end
      else if Byte.eqb c xe3 then
        match t1 with
        | d1 :: d2 :: t3 => if Byte.eqb d1 x80 && Byte.eqb d2 x80 then trim_left t3 else s
        | _ => s
        end
      else s
  end.

(** The same on the reversed string (last byte first). *)
Fixpoint trim_left_rev (s : bs) : bs :=
  match s with
  | [] => []
  | c :: t1 =>
      if ascii_space c then trim_left_rev t1
      else
        match t1 with
        | d :: t2 =>
            if Byte.eqb d xc2 && (Byte.eqb c x85 || Byte.eqb c xa0) then trim_left_rev t2
            else
              match t2 with
              | e :: t3 =>
                  if (Byte.eqb e xe1 && Byte.eqb d x9a && Byte.eqb c x80)
                     || (Byte.eqb e xe2 && e2_space d c)
                     || (Byte.eqb e xe3 && Byte.eqb d x80 && Byte.eqb c x80)
                  then trim_left_rev t3 else s
              | [] => s
              end
        | [] => s
        end
  end.

Definition trim_space (s : bs) : bs := rev (trim_left_rev (rev (trim_left s))).

(** * `edit s/orig/repl/[g]` *)

(** Index of the first occurrence of byte [c]: the part before it and the part
    after it. *)
Fixpoint cut_at (c : byte) (s : bs) : option (bs * bs) :=
  match s with
  | [] => None
  | x :: tl =>
      if Byte.eqb x c then Some ([], tl)
      else match cut_at c tl with Some (a, b) => Some (x :: a, b) | None => None end
  end.

(** strings.SplitN(s, string(c), n) for a one-byte separator and n > 0: at
    most [n] pieces, the last one unsplit.  [n] is [S k]. *)
Fixpoint split_n (c : byte) (s : bs) (k : nat) : list bs :=
  match k with
  | O => [s]
  | S k' =>
      match cut_at c s with
      | Some (a, b) => a :: split_n c b k'
      | None => [s]
      end
  end.

Definition x_s : byte := x73.
Definition x_g : byte := x67.

Inductive edit_res :=
| EditOk (orig repl : bs)      (* goes on to regexp.Compile(orig), not modelled *)
| EditInvalid                  (* "invalid syntax", hint "try edit s/.../.../" *)
| EditPanic.

(** parsecfg.go:873-882, as it stands after
    "fix: malformed edit command crashed the parser" (the [return] in the
    second test). *)
Definition edit_split (editcmd : bs) : edit_res :=
  if zlen editcmd <? 4 then EditInvalid                   (* len(editcmd) < 4 || ... *)
  else
  match zidx editcmd 0 with
  | None => EditPanic
  | Some c0 =>
      if negb (Byte.eqb c0 x_s) then EditInvalid          (* ... editcmd[0] != 's' *)
      else
        match zslice editcmd 1 2 with                     (* splitChar := editcmd[1:2] *)
        | Some [sep] =>
            let parts := split_n sep editcmd 3 in         (* strings.SplitN(editcmd, splitChar, 4) *)
            if zlen parts <? 4 then EditInvalid           (* len(parts) < 4 || ... *)
            else
              match zidx parts 3 with
              | None => EditPanic
              | Some p3 =>
                  if negb (bytes_eqb p3 []) && negb (bytes_eqb p3 [x_g]) then EditInvalid
                  else
                    match zidx parts 1, zidx parts 2 with (* orig, repl := parts[1], parts[2] *)
                    | Some orig, Some repl => EditOk orig repl
                    | _, _ => EditPanic
                    end
              end
        | _ => EditPanic
        end
  end.

(** The same code before the fix (the error value was built and dropped, so
    control fell through to parts[1], parts[2]): kept as the regression
    witness of the corpus. *)
Definition edit_split_before_fix (editcmd : bs) : edit_res :=
  if zlen editcmd <? 4 then EditInvalid
  else
  match zidx editcmd 0 with
  | None => EditPanic
  | Some c0 =>
      if negb (Byte.eqb c0 x_s) then EditInvalid
      else
        match zslice editcmd 1 2 with
        | Some [sep] =>
            let parts := split_n sep editcmd 3 in
            match zidx parts 1, zidx parts 2 with
            | Some orig, Some repl => EditOk orig repl
            | _, _ => EditPanic
            end
        | _ => EditPanic
        end
  end.

(** * Scene shorthands (parsecfg.go validateShorthand)

    [unicode.In(rune(b), unicode.L, unicode.N)] for one byte read as a
    Latin-1 code point: the ASCII letters and digits, and in the upper half
    AA B5 BA C0-D6 D8-F6 F8-FF (letters), B2 B3 B9 BC-BE (numbers). *)
Definition latin1_letter_or_number (c : byte) : bool :=
  let n := Byte.to_N c in
  (((48 <=? n) && (n <=? 57)) || ((65 <=? n) && (n <=? 90)) || ((97 <=? n) && (n <=? 122))
   || (n =? 170) || (n =? 181) || (n =? 186)
   || ((192 <=? n) && (n <=? 214)) || ((216 <=? n) && (n <=? 246)) || (248 <=? n)
   || (n =? 178) || (n =? 179) || (n =? 185) || ((188 <=? n) && (n <=? 190)))%N.

Inductive shorthand_res :=
| ShOk (c : byte)
| ShBadLength        (* "only ASCII characters allowed as scene shorthands" *)
| ShBadClass         (* "only ASCII letters, digits and punctuation allowed ..." *)
| ShPanic.

Definition validate_shorthand (s : bs) : shorthand_res :=
  if negb (zlen s =? 1) then ShBadLength           (* len(scSchorthand) != 1 *)
  else
    match zidx s 0 with                            (* scSchorthand[0] *)
    | None => ShPanic
    | Some c => if latin1_letter_or_number c then ShOk c else ShBadClass
    end.

(** The variant `len > 1` instead of `len != 1` (a seeded fault): the empty
    shorthand reaches the index. *)
Definition validate_shorthand_len_gt (s : bs) : shorthand_res :=
  if 1 <? zlen s then ShBadLength
  else
    match zidx s 0 with
    | None => ShPanic
    | Some c => if latin1_letter_or_number c then ShOk c else ShBadClass
    end.

(** The regexp [\s] class of Go (RE2): [\t\n\f\r ] — no vertical tab. *)
Definition re_space (c : byte) : bool := byte_in c [x09; x0a; x0c; x0d; x20].

Definition kw_edit : bs := [x65; x64; x69; x74].

(** editRe = ^edit\s+(?P<editcmd>ANY)$  [ANY = dot-star] followed by p.get = TrimSpace: the
    edit command of a script line, if the line is an `edit` clause. *)
Definition edit_of_line (line : bs) : option bs :=
  match strip_prefix kw_edit line with
  | Some (c :: r) => if re_space c then Some (trim_space (c :: r)) else None
  | _ => None
  end.

(** * Preprocessing parameters *)

Definition pvars := list (bs * bs).      (* cfg.pVars, in cfg.pVarNames order *)

Fixpoint pv_lookup (pv : pvars) (n : bs) : option bs :=
  match pv with
  | [] => None
  | (k, v) :: tl => if bytes_eqb k n then Some v else pv_lookup tl n
  end.

(** `if _, ok := cfg.pVars[n]; !ok { cfg.pVars[n] = v; append name }` *)
Definition pv_define (pv : pvars) (n v : bs) : pvars :=
  match pv_lookup pv n with
  | Some _ => pv
  | None => pv ++ [(n, v)]
  end.

Definition x_eq : byte := x3d.

(** config.go parseDefines: one -D argument. *)
Definition define_split (d : bs) : Outcome (bs * bs) :=
  match cut_at x_eq d with
  | None => Ok (d, [])
  | Some (a, _) =>
      let idx := zlen a in                       (* strings.IndexByte(d, '=') *)
      match zslice d 0 idx, zslice d (idx + 1) (zlen d) with
      | Some dname, Some dval => Ok (dname, dval)
      | _, _ => Panic
      end
  end.

Fixpoint parse_defines_from (pv : pvars) (defs : list bs) : Outcome pvars :=
  match defs with
  | [] => Ok pv
  | d :: tl =>
      match define_split d with
      | Ok (n, v) => parse_defines_from (pv_define pv n v) tl
      | Err c => Err c
      | Panic => Panic
      | OutOfFuel => OutOfFuel
      end
  end.
Definition parse_defines (defs : list bs) : Outcome pvars := parse_defines_from [] defs.

(** ** preprocReplace *)

Definition x_tilde : byte := x7e.

(** [\w] of RE2: [0-9A-Za-z_] *)
Definition is_word (c : byte) : bool :=
  let n := Byte.to_N c in
  (((48 <=? n) && (n <=? 57)) || ((65 <=? n) && (n <=? 90)) || ((97 <=? n) && (n <=? 122)) || (n =? 95))%N.

(** Does [~\w+~] match at the head of [s]?  The word and what follows. *)
Definition match_here (s : bs) : option (bs * bs) :=
  match s with
  | c :: tl =>
      if Byte.eqb c x_tilde then
        let '(w, r) := span is_word tl in
        match w, r with
        | _ :: _, c2 :: r' => if Byte.eqb c2 x_tilde then Some (w, r') else None
        | _, _ => None
        end
      else None
  | [] => None
  end.

(** The callback of ReplaceAllStringFunc on the match [m]: the replacement and
    the undefined-parameter error it records ([None] = panic in m[1:len-1]). *)
Definition preproc_cb (pv : pvars) (m : bs) : option (bs * list bs) :=
  match zslice m 1 (zlen m - 1) with
  | None => None
  | Some vn =>
      match pv_lookup pv vn with
      | Some val => Some (val, [])
      | None => Some (m, [m])
      end
  end.

(** ReplaceAllStringFunc: scan left to right; at a match call the callback and
    resume after the match (the replacement is not rescanned), otherwise copy
    one byte.  [fuel] only makes the recursion structural: [length s] always
    suffices (see [preproc]). *)
Fixpoint preproc_scan (fuel : nat) (pv : pvars) (s : bs) : option (bs * list bs) :=
  match fuel with
  | O => Some ([], [])
  | S f =>
      match s with
      | [] => Some ([], [])
      | c :: tl =>
          match match_here s with
          | Some (w, r) =>
              match preproc_cb pv (x_tilde :: w ++ [x_tilde]), preproc_scan f pv r with
              | Some (rep, e1), Some (out, e2) => Some (rep ++ out, e1 ++ e2)
              | _, _ => None
              end
          | None =>
              match preproc_scan f pv tl with
              | Some (out, e) => Some (c :: out, e)
              | None => None
              end
          end
      end
  end.

Inductive pp_res :=
| PpOk (out : bs)
| PpUndefined (names : list bs)   (* "undefined parameter: ~n~" for each, in order *)
| PpPanic.

Definition preproc (pv : pvars) (s : bs) : pp_res :=
  match preproc_scan (length s) pv s with
  | None => PpPanic
  | Some (out, []) => PpOk out
  | Some (_, names) => PpUndefined names
  end.

(** ** `parameter NAME defaults to VALUE`

    paramRe = (?s:^parameter\s+(?P<name>\S+)\s+defaults\s+to\s+(?P<val>ANY)$) [ANY = dot-star],
    groups read through p.get = TrimSpace.  Every repetition is followed by a
    byte of the complementary class, so the match is unique. *)
Definition kw_parameter : bs := [x70; x61; x72; x61; x6d; x65; x74; x65; x72].
Definition kw_defaults : bs := [x64; x65; x66; x61; x75; x6c; x74; x73].
Definition kw_to : bs := [x74; x6f].

Definition spaces1 (s : bs) : option bs :=
  match span re_space s with
  | (_ :: _, r) => Some r
  | ([], _) => None
  end.

Definition param_match (line : bs) : option (bs * bs) :=
  match strip_prefix kw_parameter line with
  | None => None
  | Some r1 =>
  match spaces1 r1 with
  | None => None
  | Some r2 =>
  match span (fun c => negb (re_space c)) r2 with
  | ([], _) => None
  | (name, r3) =>
  match spaces1 r3 with
  | None => None
  | Some r4 =>
  match strip_prefix kw_defaults r4 with
  | None => None
  | Some r5 =>
  match spaces1 r5 with
  | None => None
  | Some r6 =>
  match strip_prefix kw_to r6 with
  | None => None
  | Some r7 =>
  match spaces1 r7 with
  | None => None
  | Some val => Some (trim_space name, trim_space val)
  end end end end end end end end.
