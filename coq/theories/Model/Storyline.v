(** Model of the storyline string functions (property C06):
    [validateStoryLine] (pkg/cmd/config.go:973), [extractAction],
    [combineActs], [combineStoryLines] (pkg/cmd/storyline.go:5-64) and the
    [storyline] / [edit] branches of [parseScript] (pkg/cmd/parsecfg.go:863-893).

    Representation.  Go strings are [list byte]; the Go code walks them with
    integer cursors ([i], [i1], [i2], [end1]).  Here a cursor [i] into [s] is
    the remaining suffix [skipn i s]; the guards [end1+1 < len(act1)] and
    [act1[end1] == '+'] become a pattern match on two bytes of look-ahead, and
    [part[i-1]] becomes the previously consumed byte carried along.  This is
    what makes structural induction go through.  It also means that these
    models do NOT claim index safety of the Go functions: an out-of-range
    index cannot be expressed here.  Index safety is part of the
    correspondence check (a panic in the hook is a disagreement), not of any
    theorem.

    [combineActs]'s loop is not structurally recursive in the suffix (each
    iteration consumes a whole `+` group); it is modelled with fuel
    [S (length act1)] and the distinguished outcome [OutOfFuel], which the
    theorems exclude.

    Executable definitions only; proofs are in Proofs/StorylineProofs.v. *)
From Shk Require Import Base.Prelude.

Definition bytes := list byte.

Definition b_plus : byte := x2b.   (* '+' *)
Definition b_dot : byte := x2e.    (* '.' *)
Definition b_us : byte := x5f.     (* '_' *)
Definition b_sp : byte := x20.     (* ' ' *)
Definition b_qm : byte := x3f.     (* '?' *)

Definition is_plus (c : byte) : bool := Byte.eqb c b_plus.
Definition is_dot (c : byte) : bool := Byte.eqb c b_dot.
Definition is_us (c : byte) : bool := Byte.eqb c b_us.
Definition is_sp (c : byte) : bool := Byte.eqb c b_sp.

(** ** Go library functions used by validateStoryLine (modelled, not verified;
    exercised by the correspondence cases). *)

(** [strings.Split(s, " ")]: always at least one part. *)
Fixpoint split_on (sep : byte -> bool) (s : bytes) : list bytes :=
  match s with
  | [] => [[]]
  | c :: tl =>
      if sep c then [] :: split_on sep tl
      else match split_on sep tl with
           | p :: ps => (c :: p) :: ps
           | [] => [[c]]          (* unreachable: split_on never returns [] *)
           end
  end.

(** [strings.TrimSpace] restricted to ASCII input: the white space of
    [unicode.IsSpace] below 0x80 is \t \n \v \f \r and ' '.  (0x85 and 0xA0 are
    white space only as code points; as lone bytes they are invalid UTF-8 and
    are not trimmed.  Non-ASCII storylines are outside the model.) *)
Definition is_space (c : byte) : bool :=
  match c with
  | x09 | x0a | x0b | x0c | x0d | x20 => true
  | _ => false
  end.

Fixpoint trim_left (s : bytes) : bytes :=
  match s with
  | c :: tl => if is_space c then trim_left tl else s
  | [] => []
  end.
Definition trim_space (s : bytes) : bytes := rev (trim_left (rev (trim_left s))).

(** [strings.ReplaceAll(s, "_", "")]. *)
Definition strip_us (s : bytes) : bytes := filter (fun c => negb (is_us c)) s.

(** [strings.Join(parts, " ")]. *)
Fixpoint join_sp (parts : list bytes) : bytes :=
  match parts with
  | [] => []
  | [p] => p
  | p :: tl => p ++ b_sp :: join_sp tl
  end.

(** ** validateStoryLine *)

(** Diagnostics: [Err (10 * actNum + k)] with k = 1 "cannot use + at
    beginning of act", 2 "cannot use + at end of act", 3 "sequence ++ is
    invalid", 4 "scene %c not defined". *)
Definition verr {A} (act_num : N) (k : N) : Outcome A := Err (10 * act_num + k)%N.

(** The inner loop [for i := 0; i < len(part); i++] over the suffix
    [part[i:]]; [prev] is [part[i-1]] ([None] iff [i == 0]).  The order of the
    three `+` tests is the code's. *)
Fixpoint validate_part (defined : byte -> bool) (act_num : N) (prev : option byte)
         (s : bytes) : Outcome unit :=
  match s with
  | [] => Ok tt
  | c :: tl =>
      if is_sp c || is_dot c then validate_part defined act_num (Some c) tl
      else if is_plus c then
        match prev with
        | None => verr act_num 1                               (* i == 0 *)
        | Some p =>
            match tl with
            | [] => verr act_num 2                             (* i == len(part)-1 *)
            | _ => if is_plus p then verr act_num 3            (* part[i-1] == '+' *)
                   else validate_part defined act_num (Some c) tl
            end
        end
      else if defined c then validate_part defined act_num (Some c) tl
      else verr act_num 4
  end.

(** The outer loop over [parts]; [acc] is [newParts] in reverse. *)
Fixpoint validate_parts (defined : byte -> bool) (parts : list bytes) (acc : list bytes)
  : Outcome (list bytes) :=
  match parts with
  | [] => Ok (rev acc)
  | p :: tl =>
      let part := strip_us (trim_space p) in
      match part with
      | [] => validate_parts defined tl acc                    (* continue *)
      | _ =>
          let act_num := N.of_nat (S (List.length acc)) in
          match validate_part defined act_num None part with
          | Ok _ => validate_parts defined tl (part :: acc)
          | Err c => Err c
          | Panic => Panic
          | OutOfFuel => OutOfFuel
          end
      end
  end.

Definition validate_storyline (defined : byte -> bool) (text : bytes) : Outcome (list bytes) :=
  validate_parts defined (split_on is_sp text) [].

(** ** extractAction, on the suffix [act1[i1:]]: returns the group and the
    suffix [act1[end1:]]. *)
Fixpoint extract_more (tl : bytes) : bytes * bytes :=
  match tl with
  | p :: d :: tl' =>                      (* end1+1 < len(act1) *)
      if is_plus p then                   (* act1[end1] == '+' *)
        let '(s, r) := extract_more tl' in (b_plus :: d :: s, r)
      else ([], tl)
  | _ => ([], tl)
  end.

Definition extract_action (s : bytes) : bytes * bytes :=
  match s with
  | [] => ([], [])                        (* i1 >= len(act1): "", i1 *)
  | c :: tl => let '(m, r) := extract_more tl in (c :: m, r)
  end.

(** ** combineActs *)
Definition is_dot_str (s : bytes) : bool := bytes_eqb s [b_dot].
Definition is_empty (s : bytes) : bool := match s with [] => true | _ => false end.

(** What one iteration writes to [res]. *)
Definition combine_group (s1 s2 : bytes) : bytes :=
  if is_dot_str s1 then
    (if negb (is_empty s2) then s2 else [b_dot])
  else
    s1 ++ (if negb (is_empty s2) && negb (is_dot_str s2) then b_plus :: s2 else []).

Fixpoint combine_acts_fuel (fuel : nat) (a1 a2 : bytes) : Outcome bytes :=
  match a1 with
  | [] => Ok a2                           (* for ; i2 < len(act2); i2++ { WriteByte } *)
  | _ =>
      match fuel with
      | O => OutOfFuel
      | S fuel' =>
          let '(s1, r1) := extract_action a1 in
          let '(s2, r2) := extract_action a2 in
          obind (combine_acts_fuel fuel' r1 r2) (fun rest => Ok (combine_group s1 s2 ++ rest))
      end
  end.

Definition combine_acts (a1 a2 : bytes) : Outcome bytes :=
  combine_acts_fuel (S (List.length a1)) a1 a2.

(** ** combineStoryLines *)
Fixpoint combine_storylines (l1 l2 : list bytes) : Outcome (list bytes) :=
  match l1, l2 with
  | [], _ => Ok l2                        (* second loop: append the rest of line2 *)
  | _, [] => Ok l1                        (* i >= len(line2): res[i] = line1[i] *)
  | a1 :: t1, a2 :: t2 =>
      obind (combine_acts a1 a2) (fun a =>
      obind (combine_storylines t1 t2) (fun r => Ok (a :: r)))
  end.

(** ** The two script clauses that change [cfg.storyLine].

    [edit]: the substitution itself is Go's [regexp.ReplaceAllString]; it is a
    parameter here ([subst], any function on byte strings), so that every
    statement about edits holds for every substitution. *)
Definition do_storyline (defined : byte -> bool) (cur : list bytes) (text : bytes)
  : Outcome (list bytes) :=
  obind (validate_storyline defined text) (fun st => combine_storylines cur st).

Definition do_edit (defined : byte -> bool) (cur : list bytes) (subst : bytes -> bytes)
  : Outcome (list bytes) :=
  validate_storyline defined (subst (join_sp cur)).
