(** Model of the TEXT printed by [printSteps] (pkg/cmd/compile.go:125-172),
    byte for byte, as a function of the compiled play (property C06: "the play
    that is performed (and printed by -p)").

    [Model/Compile.v print_play] gives the printed lines as events; this file
    renders the events the way the [fmt.Fprintf] calls do:
      "# play\n"
      "# -- ACT %d%s --\n"              (%s = ": <storyline act>" when there is one)
      "# %2d:  (wait until %s)\n"       (%s = time.Duration.String())
      "# %2d:  (meanwhile)\n"
      "# %2d:  %s: %s%c\n"              (actor, action, '!' or '?')
      "# %2d:  (mood: %s)\n"
      "# -- REPEATING FROM ACT %d --\n" (when repeatActNum > 0)
      "# end\n"
    [fmt_dur] transcribes time.Duration.String / format / fmtFrac / fmtInt
    (time/time.go): durations are integers in NANOSECONDS — the unit of
    [sc_wait] and of the tempo everywhere in the C06 models.

    Modelled, not verified: [fmt]'s %d / %2d / %s / %c verbs and
    Duration.String; tied by comparing this text with the real printSteps
    output byte for byte on every generated case.  Executable definitions only;
    proofs are in Proofs/StepsTextProofs.v. *)
From Shk Require Import Base.Prelude Model.Storyline Model.Compile.
From Coq Require Strings.String.

(** * Numbers *)
Fixpoint uint_bytes (u : Decimal.uint) : bytes :=
  match u with
  | Decimal.Nil => []
  | Decimal.D0 u => x30 :: uint_bytes u
  | Decimal.D1 u => x31 :: uint_bytes u
  | Decimal.D2 u => x32 :: uint_bytes u
  | Decimal.D3 u => x33 :: uint_bytes u
  | Decimal.D4 u => x34 :: uint_bytes u
  | Decimal.D5 u => x35 :: uint_bytes u
  | Decimal.D6 u => x36 :: uint_bytes u
  | Decimal.D7 u => x37 :: uint_bytes u
  | Decimal.D8 u => x38 :: uint_bytes u
  | Decimal.D9 u => x39 :: uint_bytes u
  end.

(** %d of a non-negative integer ([fmtInt] in time.go does the same). *)
Definition fmt_N (n : N) : bytes := uint_bytes (N.to_uint n).

(** %d / %2d of an [int]; the negative case exists for totality only (act and
    scene numbers start at 1). *)
Definition fmt_Z (z : Z) : bytes :=
  if (z <? 0)%Z then x2d :: fmt_N (Z.abs_N z) else fmt_N (Z.to_N z).
Definition pad2 (s : bytes) : bytes :=
  match s with
  | [] => [x20; x20]
  | [c] => [x20; c]
  | _ => s
  end.
Definition fmt_idx (i : Z) : bytes := pad2 (fmt_Z i).

(** * time.Duration.String *)
Local Open Scope N_scope.

Definition digit_byte (d : N) : byte :=
  match d with
  | 0 => x30 | 1 => x31 | 2 => x32 | 3 => x33 | 4 => x34
  | 5 => x35 | 6 => x36 | 7 => x37 | 8 => x38 | _ => x39
  end.

(** The [prec] decimal digits of [f] (< 10^prec), most significant first. *)
Fixpoint frac_digits (prec : nat) (f : N) : list N :=
  match prec with
  | O => []
  | S p => f / 10 ^ N.of_nat p :: frac_digits p (f mod 10 ^ N.of_nat p)
  end.

(** Trailing zeros omitted. *)
Fixpoint trim0 (ds : list N) : list N :=
  match ds with
  | [] => []
  | d :: tl => match trim0 tl with
               | [] => if d =? 0 then [] else [d]
               | t => d :: t
               end
  end.

(** [fmtFrac]: ".digits" without trailing zeros; nothing when the fraction is 0. *)
Definition fmt_frac (prec : nat) (f : N) : bytes :=
  match trim0 (frac_digits prec f) with
  | [] => []
  | ds => x2e :: map digit_byte ds
  end.

Definition fmt_dur_abs (u : N) : bytes :=
  if u =? 0 then [x30; x73]                                                        (* "0s" *)
  else if u <? 1000 then fmt_N u ++ [x6e; x73]                                     (* ns *)
  else if u <? 1000000 then fmt_N (u / 1000) ++ fmt_frac 3 (u mod 1000) ++ [xc2; xb5; x73]        (* µs *)
  else if u <? 1000000000 then fmt_N (u / 1000000) ++ fmt_frac 6 (u mod 1000000) ++ [x6d; x73]    (* ms *)
  else
    let secs := u / 1000000000 in
    let mins := secs / 60 in
    let hrs := mins / 60 in
    (if 0 <? mins then
       (if 0 <? hrs then fmt_N hrs ++ [x68] else []) ++ fmt_N (mins mod 60) ++ [x6d]
     else [])
    ++ fmt_N (secs mod 60) ++ fmt_frac 9 (u mod 1000000000) ++ [x73].

Local Close Scope N_scope.

Definition fmt_dur (d : Z) : bytes :=
  if (d <? 0)%Z then x2d :: fmt_dur_abs (Z.abs_N d) else fmt_dur_abs (Z.to_N d).

(** * The lines *)
Module TextLits.
Import Strings.String.
Local Open Scope string_scope.

Definition t_play : bytes := Eval vm_compute in String.list_byte_of_string "# play".
Definition t_end : bytes := Eval vm_compute in String.list_byte_of_string "# end".
Definition t_act : bytes := Eval vm_compute in String.list_byte_of_string "# -- ACT ".
Definition t_dashes : bytes := Eval vm_compute in String.list_byte_of_string " --".
Definition t_colon_sp : bytes := Eval vm_compute in String.list_byte_of_string ": ".
Definition t_hash_sp : bytes := Eval vm_compute in String.list_byte_of_string "# ".
Definition t_colon_2sp : bytes := Eval vm_compute in String.list_byte_of_string ":  ".
Definition t_wait : bytes := Eval vm_compute in String.list_byte_of_string "(wait until ".
Definition t_meanwhile : bytes := Eval vm_compute in String.list_byte_of_string "(meanwhile)".
Definition t_mood : bytes := Eval vm_compute in String.list_byte_of_string "(mood: ".
Definition t_repeat : bytes := Eval vm_compute in String.list_byte_of_string "# -- REPEATING FROM ACT ".
End TextLits.
Export TextLits.

Definition b_nl : byte := x0a.
Definition b_rpar : byte := x29.
Definition b_bang : byte := x21.

(** One printed line, without its newline. *)
Definition event_line (e : pevent) : bytes :=
  match e with
  | PAct k st =>
      t_act ++ fmt_Z k ++ (match st with Some s => t_colon_sp ++ s | None => [] end) ++ t_dashes
  | PWait i ns => t_hash_sp ++ fmt_idx i ++ t_colon_2sp ++ t_wait ++ fmt_dur ns ++ [b_rpar]
  | PMeanwhile i => t_hash_sp ++ fmt_idx i ++ t_colon_2sp ++ t_meanwhile
  | PDo i a x f =>
      t_hash_sp ++ fmt_idx i ++ t_colon_2sp ++ a ++ t_colon_sp ++ x ++ [if f then b_qm else b_bang]
  | PMood i m => t_hash_sp ++ fmt_idx i ++ t_colon_2sp ++ t_mood ++ m ++ [b_rpar]
  end.

Definition render_events (evs : list pevent) : bytes :=
  flat_map (fun e => event_line e ++ [b_nl]) evs.

Definition steps_text (evs : list pevent) (repeat_act : Z) : bytes :=
  t_play ++ [b_nl] ++ render_events evs
  ++ (if (0 <? repeat_act)%Z then t_repeat ++ fmt_Z repeat_act ++ t_dashes ++ [b_nl] else [])
  ++ t_end ++ [b_nl].

(** [printSteps]: [story] = cfg.storyLine, [p] = cfg.play, [repeat_act] =
    cfg.repeatActNum. *)
Definition print_text (story : list bytes) (p : play) (repeat_act : Z) : Outcome bytes :=
  obind (print_play story p) (fun evs => Ok (steps_text evs repeat_act)).
