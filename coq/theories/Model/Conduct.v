(** The conductor (pkg/cmd/conductor.go [conduct]) as a labelled transition
    system over the four components {Prompter, Spotlights, Audition,
    Collector}, the two cleanup phases around them, and the kill protocol of
    commands (commands.go [runActorCommandWithConsumer]).  No proofs here
    (Proofs/ConductProofs.v).

    Errors are abstracted to what [conduct] can ask of them: nil, "is
    context.Canceled", "is errAuditViolation", anything else.  An
    [errorCollection]'s cause is its LAST element ([Unwrap]), and
    [combineErrors a b] appends, so the abstraction of [combineErrors a b] is
    [b]'s unless [b] is nil.  [conduct] always calls [combineErrors(new,
    finalErr)]: the first error received stays the cause. *)
From Shk Require Import Base.Prelude.

Inductive comp := CP | CS | CA | CK.
Inductive err := ENil | ECancel | EViol | EOther.

Definition combine (e1 e2 : err) : err := match e2 with ENil => e1 | _ => e2 end.
Definition ign_cancel (e : err) : err := match e with ECancel => ENil | _ => e end.
Definition is_nil (e : err) : bool := match e with ENil => true | _ => false end.

(** A component is running, or has terminated and its result sits in its
    (buffered, then closed) error channel, or conduct has received it. *)
Inductive cst := Run | Fin (e : err) | Rcv.

(** Where [conduct] stands: the select of stage n, or the k-th blocking
    receive of the "something went wrong" sequence of stage n. *)
Inductive pc :=
| Sel1 | I1P | I1S | I1A | I1K
| Sel2 | I2S | I2A | I2K
| Sel3 | I3A | I3K
| Sel4
| Defer.            (* the body returned finalErr; deferred functions pending *)

Inductive phase :=
| PInit             (* the initial runCleanup is in progress *)
| PPlay (p : pc)
| PFinal            (* the deferred final runCleanup is in progress *)
| PRet (e : err).   (* conduct returned e *)

Record watch := mkW { wS : bool; wA : bool; wK : bool }.

Record cstate := mkC {
  ph : phase;
  sP : cst; sS : cst; sA : cst; sK : cst;
  cP : bool; cS : bool; cA : bool; cK : bool;      (* cancel function called *)
  quiesce : bool;                                  (* stopper.Stop was called (signal) *)
  hang : bool;          (* the prompter sits in a redirected command that never ends by itself *)
  fe : err;                                        (* finalErr *)
  (* ghost state, for the theorems only *)
  g_completed : bool;       (* the prompter reached the end of its script *)
  g_cl1 : bool;             (* the initial cleanup ran *)
  g_cl1_ok : bool;          (* ... and succeeded *)
  g_cl2 : bool;             (* the final cleanup ran *)
  g_bad_order : bool;       (* a scene before the initial cleanup ended, a cleanup run twice,
                               or the final cleanup while the prompter had not terminated *)
  (* conduct's local copies of the spotlight / audition / collector error channels:
     false = set to nil (that stage reported nil ahead of its turn and is no longer
     watched by the selects of stages 1 and 2; commit 19d275f) *)
  wt : watch }.

Inductive label :=
| LCleanup1 (ok : bool)          (* the initial cleanup of every actor has ended *)
| LScene                         (* the prompter starts a scene group *)
| LFinP (completed : bool) (e : err)   (* the prompter terminates *)
| LFin (c : comp) (e : err)      (* spotlight manager / audition / collector terminates *)
| LPick (c : comp)               (* conduct receives from c's error channel *)
| LQuiesce                       (* SIGINT / SIGTERM: stopper.Stop *)
| LDefer (viol : bool)           (* the deferred audit re-check; viol = violations remain *)
| LCleanup2 (ok : bool).         (* the final cleanup of every actor has ended *)

Definition init (h : bool) : cstate :=
  mkC PInit Run Run Run Run false false false false false h ENil false false false false false (mkW true true true).

Definition st_of (s : cstate) (c : comp) : cst :=
  match c with CP => sP s | CS => sS s | CA => sA s | CK => sK s end.
Definition cancelled (s : cstate) (c : comp) : bool :=
  match c with CP => cP s | CS => cS s | CA => cA s | CK => cK s end.
Definition running (x : cst) : bool := match x with Run => true | _ => false end.

Definition set_st (s : cstate) (c : comp) (x : cst) : cstate :=
  match c with
  | CP => mkC (ph s) x (sS s) (sA s) (sK s) (cP s) (cS s) (cA s) (cK s) (quiesce s) (hang s) (fe s) (g_completed s) (g_cl1 s) (g_cl1_ok s) (g_cl2 s) (g_bad_order s) (wt s)
  | CS => mkC (ph s) (sP s) x (sA s) (sK s) (cP s) (cS s) (cA s) (cK s) (quiesce s) (hang s) (fe s) (g_completed s) (g_cl1 s) (g_cl1_ok s) (g_cl2 s) (g_bad_order s) (wt s)
  | CA => mkC (ph s) (sP s) (sS s) x (sK s) (cP s) (cS s) (cA s) (cK s) (quiesce s) (hang s) (fe s) (g_completed s) (g_cl1 s) (g_cl1_ok s) (g_cl2 s) (g_bad_order s) (wt s)
  | CK => mkC (ph s) (sP s) (sS s) (sA s) x (cP s) (cS s) (cA s) (cK s) (quiesce s) (hang s) (fe s) (g_completed s) (g_cl1 s) (g_cl1_ok s) (g_cl2 s) (g_bad_order s) (wt s)
  end.

Definition set_cancel (s : cstate) (c : comp) : cstate :=
  match c with
  | CP => mkC (ph s) (sP s) (sS s) (sA s) (sK s) true (cS s) (cA s) (cK s) (quiesce s) (hang s) (fe s) (g_completed s) (g_cl1 s) (g_cl1_ok s) (g_cl2 s) (g_bad_order s) (wt s)
  | CS => mkC (ph s) (sP s) (sS s) (sA s) (sK s) (cP s) true (cA s) (cK s) (quiesce s) (hang s) (fe s) (g_completed s) (g_cl1 s) (g_cl1_ok s) (g_cl2 s) (g_bad_order s) (wt s)
  | CA => mkC (ph s) (sP s) (sS s) (sA s) (sK s) (cP s) (cS s) true (cK s) (quiesce s) (hang s) (fe s) (g_completed s) (g_cl1 s) (g_cl1_ok s) (g_cl2 s) (g_bad_order s) (wt s)
  | CK => mkC (ph s) (sP s) (sS s) (sA s) (sK s) (cP s) (cS s) (cA s) true (quiesce s) (hang s) (fe s) (g_completed s) (g_cl1 s) (g_cl1_ok s) (g_cl2 s) (g_bad_order s) (wt s)
  end.

Definition set_ph_fe (s : cstate) (p : phase) (e : err) : cstate :=
  mkC p (sP s) (sS s) (sA s) (sK s) (cP s) (cS s) (cA s) (cK s) (quiesce s) (hang s) e (g_completed s) (g_cl1 s) (g_cl1_ok s) (g_cl2 s) (g_bad_order s) (wt s).

Definition watched (s : cstate) (c : comp) : bool :=
  match c with CP => true | CS => wS (wt s) | CA => wA (wt s) | CK => wK (wt s) end.

Definition unwatch (s : cstate) (c : comp) : cstate :=
  let w := wt s in
  let w' := match c with
            | CP => w
            | CS => mkW false (wA w) (wK w)
            | CA => mkW (wS w) false (wK w)
            | CK => mkW (wS w) (wA w) false
            end in
  mkC (ph s) (sP s) (sS s) (sA s) (sK s) (cP s) (cS s) (cA s) (cK s) (quiesce s) (hang s) (fe s) (g_completed s) (g_cl1 s) (g_cl1_ok s) (g_cl2 s) (g_bad_order s) w'.

(** Entering a blocking receive of an interrupt sequence calls the cancel
    function of that component first ([promptDone(); <-th.prErrCh] ...). *)
Definition goto_int (s : cstate) (p : pc) (c : comp) (e : err) : cstate :=
  set_cancel (set_ph_fe s (PPlay p) e) c.

(** When may a component terminate, and with what?
    - The prompter: by itself at any time, with nil at the end of the script
      ([completed]) or with an action failure; with a cancellation error only
      if cancelled; with nil without having completed only when the stopper
      quiesces.  Never, while it sits in a command that does not end.
    - The spotlight manager (after the repair of C05): with nil only once the
      prompter has terminated (termCh closed), or cancelled, or quiescing;
      with an error at any time (a spotlight failed).
    - The audition: with nil only once the spotlight manager has terminated
      (its `terminate` event) or quiescing.  The collector: likewise after the
      audition.  Both with an error at any time. *)
Definition finP_ok (s : cstate) (completed : bool) (e : err) : bool :=
  running (sP s) && negb (hang s) &&
  match e with
  | ENil => completed || quiesce s
  | ECancel => negb completed && cP s
  | _ => negb completed
  end.

Definition upstream (c : comp) : comp :=
  match c with CP => CP | CS => CP | CA => CS | CK => CA end.

Definition fin_ok (s : cstate) (c : comp) (e : err) : bool :=
  match c with
  | CP => false
  | _ =>
      running (st_of s c) &&
      match e with
      | ENil => negb (running (st_of s (upstream c))) || quiesce s
                || match c with CS => cS s | _ => false end
      | ECancel => cancelled s c
      | _ => true
      end
  end.

(** What a receive from c's channel yields now, if it does not block. *)
Definition ready (s : cstate) (c : comp) : option err :=
  match st_of s c with
  | Run => None
  | Fin e => Some e
  | Rcv => Some ENil        (* the channel is closed *)
  end.

Definition recv (s : cstate) (c : comp) : cstate := set_st s c Rcv.

Definition step (s : cstate) (l : label) : option cstate :=
  match l, ph s with
  | LQuiesce, PRet _ => None
  | LQuiesce, _ =>
      if quiesce s then None else
      Some (mkC (ph s) (sP s) (sS s) (sA s) (sK s) (cP s) (cS s) (cA s) (cK s) true (hang s) (fe s) (g_completed s) (g_cl1 s) (g_cl1_ok s) (g_cl2 s) (g_bad_order s) (wt s))
  | LCleanup1 ok, PInit =>
      Some (mkC (if ok then PPlay Sel1 else PRet EOther)
                (sP s) (sS s) (sA s) (sK s) (cP s) (cS s) (cA s) (cK s) (quiesce s) (hang s) (fe s)
                (g_completed s) true ok (g_cl2 s) (g_bad_order s || g_cl1 s) (wt s))
  | LScene, PPlay _ =>
      if running (sP s) && negb (hang s) && negb (cP s) && negb (quiesce s) then Some s else None
  | LFinP completed e, PPlay _ =>
      if finP_ok s completed e
      then Some (mkC (ph s) (Fin e) (sS s) (sA s) (sK s) (cP s) (cS s) (cA s) (cK s) (quiesce s) (hang s) (fe s)
                     completed (g_cl1 s) (g_cl1_ok s) (g_cl2 s) (g_bad_order s) (wt s))
      else None
  | LFin c e, PPlay _ => if fin_ok s c e then Some (set_st s c (Fin e)) else None
  | LPick c, PPlay p =>
      match ready s c with
      | None => None
      | Some e =>
          let s' := recv s c in
          match p, c with
          (* stage 1 *)
          | Sel1, CP => Some (set_cancel (set_ph_fe s' (PPlay Sel2) (combine e (fe s))) CP)
          (* a later stage reporting nil ahead of its turn is noted (its local
             channel is set to nil) and conduct keeps waiting; anything else
             from a later stage starts the "something went wrong" sequence *)
          | Sel1, _ =>
              if negb (watched s c) then None
              else if is_nil e then Some (unwatch s' c)
              else Some (goto_int s' I1P CP (combine e (fe s)))
          | I1P, CP => Some (goto_int s' I1S CS (combine (ign_cancel e) (fe s)))
          | I1S, CS => Some (goto_int s' I1A CA (combine (ign_cancel e) (fe s)))
          | I1A, CA => Some (goto_int s' I1K CK (combine (ign_cancel e) (fe s)))
          | I1K, CK => Some (set_ph_fe s' (PPlay Sel2) (combine (ign_cancel e) (fe s)))
          (* stage 2 *)
          | Sel2, CS => Some (set_cancel (set_ph_fe s' (PPlay Sel3) (combine e (fe s))) CS)
          | Sel2, CA | Sel2, CK =>
              if negb (watched s c) then None
              else if is_nil e then Some (unwatch s' c)
              else Some (goto_int s' I2S CS (combine e (fe s)))
          | I2S, CS => Some (goto_int s' I2A CA (combine (ign_cancel e) (fe s)))
          | I2A, CA => Some (goto_int s' I2K CK (combine (ign_cancel e) (fe s)))
          | I2K, CK => Some (set_cancel (set_ph_fe s' (PPlay Sel3) (combine (ign_cancel e) (fe s))) CS)
          (* stage 3 *)
          | Sel3, CA => Some (set_cancel (set_ph_fe s' (PPlay Sel4) (combine e (fe s))) CA)
          | Sel3, CK => Some (goto_int s' I3A CA (combine e (fe s)))
          | I3A, CA => Some (goto_int s' I3K CK (combine (ign_cancel e) (fe s)))
          | I3K, CK => Some (set_cancel (set_ph_fe s' (PPlay Sel4) (combine (ign_cancel e) (fe s))) CA)
          (* stage 4 *)
          | Sel4, CK => Some (set_cancel (set_ph_fe s' (PPlay Defer) (combine (ign_cancel e) (fe s))) CK)
          | _, _ => None
          end
      end
  | LDefer viol, PPlay Defer =>
      let e := match fe s with
               | EViol => EViol
               | e0 => combine e0 (if viol then EViol else ENil)
               end in
      Some (set_ph_fe s PFinal e)
  | LCleanup2 ok, PFinal =>
      Some (mkC (PRet (combine (fe s) (if ok then ENil else EOther)))
                (sP s) (sS s) (sA s) (sK s) (cP s) (cS s) (cA s) (cK s) (quiesce s) (hang s) (fe s)
                (g_completed s) (g_cl1 s) (g_cl1_ok s) true
                (g_bad_order s || g_cl2 s || running (sP s) || negb (g_cl1_ok s)) (wt s))
  | _, _ => None
  end.

Fixpoint run (s : cstate) (ls : list label) : option cstate :=
  match ls with
  | [] => Some s
  | l :: tl => match step s l with Some s' => run s' tl | None => None end
  end.

Definition returned (s : cstate) : option err := match ph s with PRet e => Some e | _ => None end.

(** The labels, all of them (finite). *)
Definition all_err : list err := [ENil; ECancel; EViol; EOther].
Definition all_labels : list label :=
  [LCleanup1 true; LCleanup1 false; LScene; LQuiesce; LDefer true; LDefer false; LCleanup2 true; LCleanup2 false;
   LPick CP; LPick CS; LPick CA; LPick CK]
  ++ flat_map (fun e => [LFinP true e; LFinP false e; LFin CP e; LFin CS e; LFin CA e; LFin CK e]) all_err.

(** Fairness: the labels the environment or conduct itself is obliged to
    take eventually — conduct's own moves, the cleanups ending, the prompter
    terminating, and a component terminating once it is cancelled, its
    upstream has terminated, or the stopper quiesces. *)
Definition obliged (s : cstate) (l : label) : bool :=
  match l with
  | LPick _ | LDefer _ | LCleanup1 _ | LCleanup2 _ | LFinP _ _ => true
  | LFin c _ => cancelled s c || negb (running (st_of s (upstream c))) || quiesce s
  | LScene | LQuiesce => false
  end.

(** Upper bound on the number of further steps other than scene starts. *)
Definition nrun (x : cst) : nat := match x with Run => 2 | Fin _ => 1 | Rcv => 0 end.
Definition pc_left (p : pc) : nat :=
  match p with
  | Sel1 => 16 | I1P => 15 | I1S => 14 | I1A => 13 | I1K => 12
  | Sel2 => 11 | I2S => 10 | I2A => 9 | I2K => 8
  | Sel3 => 7 | I3A => 6 | I3K => 5
  | Sel4 => 4 | Defer => 3
  end.
Definition measure (s : cstate) : nat :=
  (match ph s with PInit => 18 | PPlay p => 1 + pc_left p | PFinal => 1 | PRet _ => 0 end * 2
   + nrun (sP s) + nrun (sS s) + nrun (sA s) + nrun (sK s)
   + (if quiesce s then 0 else 1)
   + (if wS (wt s) then 1 else 0) + (if wA (wt s) then 1 else 0) + (if wK (wt s) then 1 else 0))%nat.

(** * The kill protocol of one command (runActorCommandWithConsumer) *)

(** A process of the command's process group.  [p_pipe]: it holds the write
    end of the command's output pipe (spotlights: yes unless it redirected its
    output; actions and cleanups: no, the generated script's `exec >>log 2>&1`
    closed it). *)
Record proc := mkProc { p_alive : bool; p_ign_hup : bool; p_pipe : bool }.
Definition pgroup := list proc.     (* head = the leader (the shell) *)

Definition kill (p : proc) : proc := mkProc false (p_ign_hup p) (p_pipe p).
Definition hup_group (g : pgroup) : pgroup := map (fun p => if p_ign_hup p then p else kill p) g.
Definition kill_group (g : pgroup) : pgroup := map kill g.
Definition kill_leader (g : pgroup) : pgroup := match g with [] => [] | p :: tl => kill p :: tl end.
Definition pipe_open (g : pgroup) : bool := existsb (fun p => p_alive p && p_pipe p) g.
Definition leader_alive (g : pgroup) : bool := match g with [] => false | p :: _ => p_alive p end.
Definition any_alive (g : pgroup) : bool := existsb p_alive g.

(** Processes may also end by themselves at any time: [dies] says which. *)
Fixpoint apply_deaths (g : pgroup) (dies : list bool) : pgroup :=
  match g, dies with
  | p :: tl, d :: dl => (if d then kill p else p) :: apply_deaths tl dl
  | _, _ => g
  end.

(** Cancellation (context, stopper, termCh) of a running command, as the code
    stands after commits 5238de7 and c7b3a08.  The select loop sees the
    cancellation only while the pipe is open ([interrupt := true]).  Then:
    SIGHUP to the group.  The 2 s timer that escalates sits in the drain
    loop, which ends as soon as the pipe reader is closed — by the last holder
    of the pipe dying, or by [cmd.Wait] returning because the LEADER died
    (os/exec closes the parent's end) — so the escalation (kill the leader and
    the whole group) happens only if, after the SIGHUP, the leader is still
    alive and the pipe still open.  Once [cmd.Wait] has returned (the leader
    is dead) an interrupted command's group is killed.
    Result: the group, and whether [cmd.Wait] returns. *)
Definition cancel_cmd (g : pgroup) (dies : list bool) : pgroup * bool :=
  if pipe_open g then
    let g1 := apply_deaths (hup_group g) dies in
    let g2 := if pipe_open g1 && leader_alive g1 then kill_group g1 else g1 in
    if leader_alive g2 then (g2, false) else (kill_group g2, true)
  else
    (* the cancellation is never observed (interrupt = false): nothing is signalled,
       Wait returns only if the leader ends by itself *)
    let g1 := apply_deaths g dies in (g1, negb (leader_alive g1)).
