(** The plain meaning of the ten audit modalities as predicates over the list
    of truth values observed in one activation period — written without any
    automaton (property C01). *)
From Shk Require Import Base.Prelude.
From Coq Require Import String.

Inductive modality :=
| Always | Never | NotAlways | Eventually | AlwaysEventually | EventuallyAlways
| Once | Twice | Thrice | AtMostOnce.

Definition all_modalities : list modality :=
  [Always; Never; NotAlways; Eventually; AlwaysEventually; EventuallyAlways;
   Once; Twice; Thrice; AtMostOnce].

Definition name_of (m : modality) : string :=
  match m with
  | Always => "always" | Never => "never" | NotAlways => "not always"
  | Eventually => "eventually" | AlwaysEventually => "always eventually"
  | EventuallyAlways => "eventually always"
  | Once => "once" | Twice => "twice" | Thrice => "thrice" | AtMostOnce => "at most once"
  end%string.

Definition count_true (tr : list bool) : nat := List.length (filter id tr).

(** "it becomes true and then stays true": false^i true^(j+1). *)
Fixpoint ev_always (tr : list bool) : bool :=
  match tr with
  | [] => false
  | false :: tl => ev_always tl
  | true :: tl => forallb id tl
  end.

Definition meaning (m : modality) (tr : list bool) : bool :=
  match m with
  | Always => forallb id tr                 (* all true *)
  | Never => forallb negb tr                (* none true *)
  | NotAlways => existsb negb tr            (* some false *)
  | Eventually => existsb id tr             (* some true *)
  | AlwaysEventually => last tr false       (* the last one is true *)
  | EventuallyAlways => ev_always tr
  | Once => Nat.eqb (count_true tr) 1
  | Twice => Nat.eqb (count_true tr) 2
  | Thrice => Nat.eqb (count_true tr) 3
  | AtMostOnce => Nat.leb (count_true tr) 1
  end.

(** The declarative reading of [ev_always], for the record. *)
Definition ev_always_spec (tr : list bool) : Prop :=
  exists i j, tr = repeat false i ++ repeat true (S j).
