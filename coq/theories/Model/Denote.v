(** The denotation of storylines and of the compiled play (property C06),
    written from the property's text and docs/manual.md ("Script
    configuration"), NOT from the Go code: nothing here mentions cursors,
    [extractAction] groups as strings, or the compiler's running state.  It
    shares only the data types of Model/Compile.v (steps, lines, scenes, scene
    specs, script clauses).

      - a storyline clause is a list of acts separated by spaces; `_` is
        ignored;
      - an act is a list of columns; a column is the list of the scenes written
        at that position: scenes joined by `+` share a column, `.` is "no
        scene";
      - several clauses are united column by column, act by act, in clause
        order; shorter clauses are padded with empty columns / acts;
      - column k of an act is one scene group at k * tempo: the first
        `mood starts` of its scenes, then one line per (scene, entail, actor)
        with that entail's actions in order and their `?` marks, then the last
        `mood ends`; the act ends at (number of columns) * tempo. *)
From Shk Require Import Base.Prelude Model.Compile.
Open Scope Z_scope.

Definition bstr := list byte.
Definition column := list byte.          (* the scenes of one position, in order *)

Definition c_plus : byte := x2b.
Definition c_dot : byte := x2e.
Definition c_us : byte := x5f.
Definition c_sp : byte := x20.
Definition c_qm : byte := x3f.

(** * Text of a clause -> acts *)

(** Split at every occurrence of [sep] (pieces may be empty). *)
Fixpoint pieces (sep : byte) (s : bstr) (cur : bstr) : list bstr :=
  match s with
  | [] => [rev cur]
  | c :: tl => if Byte.eqb c sep then rev cur :: pieces sep tl [] else pieces sep tl (c :: cur)
  end.

Definition nonempty (s : bstr) : bool := match s with [] => false | _ => true end.

(** The acts of a clause: drop every `_`, cut at spaces, forget empty pieces.
    (Domain: no white space other than ' ' in the text; see [blank_ws] below
    for clauses written with newlines or tabs.) *)
Definition acts_of (text : bstr) : list bstr :=
  filter nonempty (pieces c_sp (filter (fun c => negb (Byte.eqb c c_us)) text) []).

(** What `-p` prints after "storyline": the acts separated by one space. *)
Definition print_story (acts : list bstr) : bstr :=
  match acts with
  | [] => []
  | a :: tl => a ++ flat_map (fun x => c_sp :: x) tl
  end.

(** A byte that may name a scene: not one of the four notation characters
    and not (ASCII) white space. *)
Definition white (c : byte) : bool :=
  match c with x09 | x0a | x0b | x0c | x0d | x20 => true | _ => false end.
Definition scene_char (c : byte) : bool :=
  negb (Byte.eqb c c_plus || Byte.eqb c c_dot || Byte.eqb c c_us || white c).

(** White space in a clause.  Acts are separated by blanks.  A clause may also
    be written over several lines (the reader's backslash continuation leaves
    the newline and the indentation inside the clause) or with tabs: a run of
    white space that contains at least one blank separates acts exactly like a
    blank, and white space at the ends of the clause is immaterial
    ([blank_ws]).  A run WITHOUT any blank between two acts is not covered by
    this reading ([ws_ok] = false: outside the domain). *)
Definition blank_ws (text : bstr) : bstr := map (fun c => if white c then c_sp else c) text.

Fixpoint ws_scan (s : bstr) (after_word has_ctl has_sp : bool) : bool :=
  match s with
  | [] => true
  | c :: tl =>
      if white c then
        (if Byte.eqb c c_sp then ws_scan tl after_word has_ctl true
         else ws_scan tl after_word true has_sp)
      else if after_word && has_ctl && negb has_sp then false
           else ws_scan tl true false false
  end.
Definition ws_ok (text : bstr) : bool := ws_scan text false false false.

(** Well-formed act: a non-empty sequence of `.` and defined scenes, possibly
    joined by single `+` signs that have a scene or `.` on both sides. *)
Definition wf_act (dfn : byte -> bool) (a : bstr) : bool :=
  nonempty a
  && forallb nonempty (pieces c_plus a [])
  && forallb (fun c => Byte.eqb c c_plus || Byte.eqb c c_dot || (scene_char c && dfn c)) a.

Definition wf_story (dfn : byte -> bool) (acts : list bstr) : bool := forallb (wf_act dfn) acts.

(** * Acts -> columns *)
Definition scenes_of (c : byte) : column := if Byte.eqb c c_dot then [] else [c].

(** A position followed by `+` joins the column that follows it. *)
Fixpoint columns (s : bstr) : list column :=
  match s with
  | [] => []
  | c :: tl =>
      if Byte.eqb c c_plus then columns tl
      else match tl with
           | p :: _ =>
               if Byte.eqb p c_plus then
                 match columns tl with
                 | g :: r => (scenes_of c ++ g) :: r
                 | [] => [scenes_of c]
                 end
               else scenes_of c :: columns tl
           | [] => [scenes_of c]
           end
  end.

(** * Union of clauses *)
Fixpoint zip_pad {A} (f : A -> A -> A) (l1 l2 : list A) : list A :=
  match l1, l2 with
  | [], l => l
  | l, [] => l
  | a :: t, b :: u => f a b :: zip_pad f t u
  end.

Definition union_act (a b : list column) : list column := zip_pad (@app byte) a b.
Definition union_story (s t : list (list column)) : list (list column) := zip_pad union_act s t.

Definition clause_columns (text : bstr) : list (list column) := map columns (acts_of text).

(** The storyline denoted by the clauses of a script, starting from [base];
    scene definitions do not change it.  (An [edit] is not a clause: see
    [story_step].) *)
Fixpoint den_story_from (base : list (list column)) (cmds : list cmd) : list (list column) :=
  match cmds with
  | [] => base
  | CStoryline text :: tl => den_story_from (union_story base (clause_columns text)) tl
  | _ :: tl => den_story_from base tl
  end.

Fixpoint no_edit (cmds : list cmd) : bool :=
  match cmds with
  | [] => true
  | CEdit _ :: _ => false
  | _ :: tl => no_edit tl
  end.

(** One clause of the script, as a relation on the *printed* storyline (the
    acts as `-p` shows them): a `storyline` clause must be well formed and
    leads to any well-formed text whose columns are the union; an `edit`
    replaces the text by the substituted text re-read as a clause, which must
    be well formed; other clauses leave it alone. *)
Inductive story_step (dfn : byte -> bool) : list bstr -> cmd -> list bstr -> Prop :=
| SS_clause cur text new :
    wf_story dfn (acts_of text) = true ->
    wf_story dfn new = true ->
    map columns new = union_story (map columns cur) (clause_columns text) ->
    story_step dfn cur (CStoryline text) new
| SS_edit cur f new :
    new = acts_of (f (print_story cur)) ->
    wf_story dfn new = true ->
    story_step dfn cur (CEdit f) new
| SS_cast cur more : story_step dfn cur (CCast more) cur
| SS_entails cur c t a : story_step dfn cur (CEntails c t a) cur
| SS_mstart cur c m : story_step dfn cur (CMoodStart c m) cur
| SS_mend cur c m : story_step dfn cur (CMoodEnd c m) cur.

(** * Meaning of the scene definitions

    `every <role>` means the actors that play the role WHEN THE CLAUSE IS READ:
    a later `cast` section does not change scenes already defined, and the
    actors it hires are entailed by every later `every <role>` clause. *)
Definition actors_of (cs : cast) (t : target) : list bstr :=
  match t with
  | TActor a => [a]
  | TEvery r => flat_map (fun e : bstr * bstr => if bytes_eqb (snd e) r then [fst e] else []) cs
  end.

Fixpoint den_entails (cs : cast) (cmds : list cmd) (c : byte) : list (bstr * list bstr) :=
  match cmds with
  | [] => []
  | CCast more :: tl => den_entails (cs ++ more) tl c        (* hired from here on *)
  | CEntails c' t acts :: tl =>
      (if Byte.eqb c' c then map (fun a => (a, acts)) (actors_of cs t) else []) ++ den_entails cs tl c
  | _ :: tl => den_entails cs tl c
  end.

(** Later `mood starts` / `mood ends` definitions of a scene replace earlier ones. *)
Fixpoint den_start (cmds : list cmd) (c : byte) (cur : bstr) : bstr :=
  match cmds with
  | [] => cur
  | CMoodStart c' m :: tl => den_start tl c (if Byte.eqb c' c then m else cur)
  | _ :: tl => den_start tl c cur
  end.
Fixpoint den_end (cmds : list cmd) (c : byte) (cur : bstr) : bstr :=
  match cmds with
  | [] => cur
  | CMoodEnd c' m :: tl => den_end tl c (if Byte.eqb c' c then m else cur)
  | _ :: tl => den_end tl c cur
  end.

Definition den_specs (cs : cast) (cmds : list cmd) (c : byte) : scene_spec :=
  mkSpec (den_entails cs cmds c) (den_start cmds c []) (den_end cmds c []).

(** * Columns -> scene groups *)

(** An action as written -> (name, tolerates failure). *)
Definition action_step (a : bstr) : step :=
  match a with
  | [] => mkStep false [] false
  | _ => if Byte.eqb (last a x00) c_qm then mkStep false (removelast a) true
         else mkStep false a false
  end.

(** One line per entail that has actions. *)
Definition scene_lines (sc : scene_spec) : list sline :=
  flat_map (fun e : bstr * list bstr =>
              match snd e with
              | [] => []
              | acts => [mkLine (Some (fst e)) (map action_step acts)]
              end) (ss_entails sc).

Definition first_nonempty (l : list bstr) : option bstr := find nonempty l.
Definition last_nonempty (l : list bstr) : option bstr := find nonempty (rev l).

Record group := mkGroup { g_at : Z;
                          g_before : option bstr;     (* mood that takes effect before the actions *)
                          g_lines : list sline;
                          g_after : option bstr }.    (* mood that takes effect after the actions *)

Definition denote_group (sem : byte -> scene_spec) (at_ : Z) (col : column) : group :=
  mkGroup at_
          (first_nonempty (map (fun c => ss_start (sem c)) col))
          (flat_map (fun c => scene_lines (sem c)) col)
          (last_nonempty (map (fun c => ss_end (sem c)) col)).

Fixpoint denote_groups (sem : byte -> scene_spec) (tempo : Z) (k : Z) (cols : list column) : list group :=
  match cols with
  | [] => []
  | col :: tl => denote_group sem (k * tempo) col :: denote_groups sem tempo (k + 1) tl
  end.

(** An act: its groups and the time it ends. *)
Definition denote_act (sem : byte -> scene_spec) (tempo : Z) (cols : list column) : list group * Z :=
  (denote_groups sem tempo 0 cols, Z.of_nat (List.length cols) * tempo).

Definition denote_play (sem : byte -> scene_spec) (tempo : Z) (story : list (list column))
  : list (list group * Z) :=
  map (denote_act sem tempo) story.

(** * The stated representation of a group as scenes of [cfg.play]

    A mood change is a scene of its own holding one actor-less line with one
    ambiance step.  The `before` scene and the scene with the lines wait until
    the group's time; the `after` scene has waitUntil 0 ("do not wait": it runs
    as soon as the lines are done) when there are lines, and the group's time
    when there are none.  A group without lines contributes no scene for them.
    The act is closed by an empty scene that waits until the act's end. *)
Definition mood_sc (w : Z) (m : bstr) : scene := mkScene w [mkLine None [mkStep true m false]].

Definition flatten_group (g : group) : list scene :=
  (match g_before g with Some m => [mood_sc (g_at g) m] | None => [] end)
  ++ (match g_lines g with [] => [] | ls => [mkScene (g_at g) ls] end)
  ++ (match g_after g with
      | Some m => [mood_sc (match g_lines g with [] => g_at g | _ => 0 end) m]
      | None => []
      end).

Definition flatten_act (a : list group * Z) : act_play :=
  flat_map flatten_group (fst a) ++ [mkScene (snd a) []].

Definition flatten_play (p : list (list group * Z)) : play := map flatten_act p.

(** * Reading a play as a schedule (how prompt.go executes it)

    The prompter runs the scenes of an act in order; a scene with waitUntil
    w <> 0 does not start before w after the start of the act, one with
    w = 0 starts at once; a scene without lines does nothing.  With actions
    that take no time, scene i therefore starts at [t_i], where t_0 = 0 and
    t_i = max t_(i-1) w_i (w_i <> 0) or t_(i-1) (w_i = 0).  [timeline] lists
    (start, lines) for the scenes that have lines, and the time at which the
    act ends. *)
Fixpoint timeline_from (t : Z) (l : act_play) : list (Z * list sline) * Z :=
  match l with
  | [] => ([], t)
  | s :: tl =>
      let t' := if sc_wait s =? 0 then t else Z.max t (sc_wait s) in
      let '(evs, e) := timeline_from t' tl in
      (match sc_lines s with [] => evs | ls => (t', ls) :: evs end, e)
  end.
Definition timeline (l : act_play) : list (Z * list sline) * Z := timeline_from 0 l.

(** The same reading of a denoted act, directly: before-mood, lines,
    after-mood, all at the group's time. *)
Definition mood_ln (m : bstr) : list sline := [mkLine None [mkStep true m false]].

Definition group_events (g : group) : list (Z * list sline) :=
  (match g_before g with Some m => [(g_at g, mood_ln m)] | None => [] end)
  ++ (match g_lines g with [] => [] | ls => [(g_at g, ls)] end)
  ++ (match g_after g with Some m => [(g_at g, mood_ln m)] | None => [] end).

Definition act_events (a : list group * Z) : list (Z * list sline) * Z :=
  (flat_map group_events (fst a), snd a).
