(** Model of pkg/cmd/reader.go (readLine, newSubReader, pos.wrapErr) over an
    in-memory file system, and of the part of parseCfg / parseSection
    (parsecfg.go:20-165) that drives it: the dispatch on `title`,
    `attention`, `author`, `parameter`, section headers and `end`.

    What is NOT transcribed: the regexp-dispatched clause parsers (role
    header, cast, script, audience, interpretation lines), checkIdent and
    govaluate.  Their answer on a logical line is an arbitrary function
    [judge]; every theorem holds for all judges.

    The model follows the code as it stands after the commits
    "fix: a read error on the first line of a file crashed the error reporter"
    (lines/lineno recorded before the error test) and
    "fix: the include chain of a diagnostic named the line after the include
    clause" (subreader.includedAt).

    Explicit outcomes: [RLPanic]/[RPanic] wherever the Go code indexes or
    slices ([pr.readers[len-1]], [oneline[:len-2]], [p.r.lines[..]] in
    wrapErr), [ROutOfFuel] for the parse loop.  No proofs in this file. *)
From Shk Require Import Base.Prelude Model.ParseSmall.
Open Scope Z_scope.

(** * Paths: path/filepath Clean, Join, Dir on Unix (modelled, not verified;
      exercised by the correspondence cases) *)

Definition x_slash : byte := x2f.
Definition s_dot : bs := [x2e].
Definition s_dotdot : bs := [x2e; x2e].

(** strings.Split(s, string(c)) *)
Fixpoint split_on (c : byte) (s : bs) : list bs :=
  match s with
  | [] => [[]]
  | x :: tl =>
      if Byte.eqb x c then [] :: split_on c tl
      else match split_on c tl with
           | h :: t => (x :: h) :: t
           | [] => [[x]]
           end
  end.

Fixpoint clean_comps (rooted : bool) (comps : list bs) (stack : list bs) : list bs :=
  match comps with
  | [] => rev stack
  | c :: tl =>
      if bytes_eqb c [] || bytes_eqb c s_dot then clean_comps rooted tl stack
      else if bytes_eqb c s_dotdot then
        match stack with
        | top :: st' =>
            if bytes_eqb top s_dotdot then clean_comps rooted tl (c :: stack)
            else clean_comps rooted tl st'
        | [] => if rooted then clean_comps rooted tl [] else clean_comps rooted tl [c]
        end
      else clean_comps rooted tl (c :: stack)
  end.

Fixpoint join_slash (l : list bs) : bs :=
  match l with
  | [] => []
  | [a] => a
  | a :: tl => a ++ x_slash :: join_slash tl
  end.

Definition is_rooted (p : bs) : bool :=
  match p with c :: _ => Byte.eqb c x_slash | [] => false end.

Definition path_clean (p : bs) : bs :=
  match p with
  | [] => s_dot
  | _ =>
      let rooted := is_rooted p in
      let body := join_slash (clean_comps rooted (split_on x_slash p) []) in
      if rooted then x_slash :: body
      else match body with [] => s_dot | _ => body end
  end.

(** filepath.Join(d, f) *)
Definition path_join (d f : bs) : bs :=
  match d, f with
  | [], [] => []
  | [], _ => path_clean f
  | _, _ => path_clean (d ++ x_slash :: f)
  end.

(** filepath.Dir(p): Clean of everything up to and including the last slash *)
Definition path_dir (p : bs) : bs :=
  match cut_at x_slash (rev p) with
  | Some (_, before_rev) => path_clean (rev before_rev ++ [x_slash])
  | None => s_dot
  end.

(** * The file system: regular files with their content, and directories.
      The directory list is expected to hold every ancestor of every file. *)

Record fsys := { fs_files : list (bs * bs); fs_dirs : list bs }.

Inductive node := NFile (content : bs) | NDir.

Fixpoint assoc_bs {A} (l : list (bs * A)) (k : bs) : option A :=
  match l with
  | [] => None
  | (k', v) :: tl => if bytes_eqb k' k then Some v else assoc_bs tl k
  end.

Definition fs_node (fs : fsys) (p : bs) : option node :=
  match assoc_bs (fs_files fs) p with
  | Some c => Some (NFile c)
  | None => if existsb (bytes_eqb p) (fs_dirs fs) then Some NDir else None
  end.

Inductive open_res :=
| OFile (content : bs)
| ODir                 (* os.Open succeeds on a directory; the first read fails *)
| ONotExist            (* os.IsNotExist(err): the search goes on *)
| OError.              (* any other error of os.Open: the search is abandoned *)

Definition child_path (cur c : bs) : bs :=
  if bytes_eqb cur [x_slash] then x_slash :: c else cur ++ x_slash :: c.

(** Path walk from an existing directory [cur]. *)
Fixpoint fs_walk (fs : fsys) (cur : bs) (comps : list bs) : open_res :=
  match comps with
  | [] => ODir
  | c :: tl =>
      if 255 <? zlen c then OError                          (* ENAMETOOLONG *)
      else
        match fs_node fs (child_path cur c), tl with
        | None, _ => ONotExist                              (* ENOENT *)
        | Some (NFile content), [] => OFile content
        | Some (NFile _), _ :: _ => OError                  (* ENOTDIR *)
        | Some NDir, _ => fs_walk fs (child_path cur c) tl
        end
  end.

Definition nonempty (b : bs) : bool := match b with [] => false | _ => true end.

(** os.Open of an (already Clean) path. *)
Definition fs_open (fs : fsys) (p : bs) : open_res :=
  if byte_in x00 p then OError                              (* EINVAL (Go checks for NUL) *)
  else if 4096 <=? zlen p then OError                       (* ENAMETOOLONG *)
  else if is_rooted p then fs_walk fs [x_slash] (filter nonempty (split_on x_slash p))
  else ONotExist.       (* relative to the process directory: assumed to hold nothing *)

(** * Physical lines: what successive ReadString('\n') calls return *)

Definition x_nl : byte := x0a.
Definition s_nl : bs := [x0a].
Definition s_bsnl : bs := [x5c; x0a].        (* backslash, newline *)

Fixpoint phys_lines_aux (s : bs) (cur : bs) : list bs :=
  match s with
  | [] => match cur with [] => [] | _ => [rev cur] end
  | c :: tl =>
      if Byte.eqb c x_nl then rev (c :: cur) :: phys_lines_aux tl []
      else phys_lines_aux tl (c :: cur)
  end.
Definition phys_lines (s : bs) : list bs := phys_lines_aux s [].

Definition ends_nl (l : bs) : bool := has_suffix l s_nl.

(** * subreader *)

Record subreader := {
  sr_file : bs;            (* r.file *)
  sr_lineno : Z;           (* r.lineno: number of the next physical line *)
  sr_lines : list bs;      (* r.lines: the physical lines read so far *)
  sr_rest : list bs;       (* what r.rd still holds, as physical lines *)
  sr_isdir : bool;         (* the opened path is a directory: reads fail *)
  sr_included_at : Z       (* r.includedAt *)
}.

Definition mk_sub (file : bs) (content : list bs) (isdir : bool) : subreader :=
  {| sr_file := file; sr_lineno := 1; sr_lines := []; sr_rest := content;
     sr_isdir := isdir; sr_included_at := 0 |}.

Definition s_stdin : bs := [x3c; x73; x74; x64; x69; x6e; x3e].
Definition s_dash : bs := [x2d].

Inductive opensub_res := OpOk (r : subreader) | OpNotFound | OpError.

(** newSubReader's search loop. *)
Fixpoint search_path (fs : fsys) (file : bs) (ipath : list bs) : opensub_res :=
  match ipath with
  | [] => OpNotFound
  | p :: tl =>
      let fname := path_join p file in
      match fs_open fs fname with
      | ONotExist => search_path fs file tl
      | OError => OpError
      | OFile content => OpOk (mk_sub fname (phys_lines content) false)
      | ODir => OpOk (mk_sub fname [] true)
      end
  end.

(** newSubReader.  `-` is standard input, assumed empty. *)
Definition open_sub (fs : fsys) (file : bs) (ipath : list bs) : opensub_res :=
  if bytes_eqb file s_dash then OpOk (mk_sub s_stdin [] false)
  else search_path fs file ipath.

(** * Diagnostics *)

Inductive ekind :=
| EReadError                      (* the first read of a reader failed (a directory) *)
| EEOFCont                        (* "EOF encountered while expecting line continuation" *)
| EDepth                          (* "include depth limit exceeded" *)
| EUndefined (names : list bs)    (* preprocReplace: "undefined parameter: ~n~", each *)
| ENotFound                       (* include: not in any search directory *)
| EOpenError                      (* include: os.Open failed otherwise *)
| EClause                         (* a clause parser (not modelled) said no *)
| EClauseNoPos                    (* parseRole's own errors: returned unwrapped *)
| EMainNotFound
| EMainOpenError.

Record diag := {
  d_kind : ekind;
  d_pos : option (bs * Z);        (* "<file>:<line>:" prefix *)
  d_context : list bs * bs * list bs;   (* "while parsing:" lines before, the line, after *)
  d_chain : list (bs * Z)         (* "in file included from:" entries, nearest first *)
}.

Definition nopos_diag (k : ekind) : diag :=
  {| d_kind := k; d_pos := None; d_context := ([], [], []); d_chain := [] |}.

(** The include chain: for r := p.r; r.parent != nil; r = r.parent, print
    (r.parent.file, r.includedAt). *)
Fixpoint chain_of (r : subreader) (parents : list subreader) : list (bs * Z) :=
  match parents with
  | [] => []
  | p :: ps => (sr_file p, sr_included_at r) :: chain_of p ps
  end.

(** pos.wrapErr for the position (r, lineno); [None] = index out of range. *)
Definition wrap_err (k : ekind) (lineno : Z) (r : subreader) (parents : list subreader) : option diag :=
  let lines := sr_lines r in
  let lineIdx := lineno - 1 in
  let cls := if 0 <? lineIdx then Z.max 0 (lineIdx - 2) else lineIdx in
  match (if cls <? lineIdx then zslice lines cls lineIdx else Some []) with
  | None => None
  | Some before =>
      match zidx lines lineIdx with
      | None => None
      | Some cur =>
          let cle := if lineIdx <? zlen lines - 1 then Z.min (zlen lines - 1) (lineIdx + 2) else lineIdx in
          match (if lineIdx <? cle then zslice lines (lineIdx + 1) (cle + 1) else Some []) with
          | None => None
          | Some after =>
              Some {| d_kind := k; d_pos := Some (sr_file r, lineno);
                      d_context := (before, cur, after);
                      d_chain := chain_of r parents |}
          end
      end
  end.

(** * readLine *)

Inductive loop_res :=
| LDone (line : bs) (eof : bool) (lines : list bs) (lineno : Z) (rest : list bs)
| LEOFCont (lines : list bs) (lineno : Z) (rest : list bs)
| LPanic.

(** The `for` loop of subreader.readLine on a regular file.  [rest] = [] means
    ReadString returns ("", io.EOF); a last element without newline is
    returned together with io.EOF. *)
Fixpoint rl_loop (rest : list bs) (line : bs) (lines : list bs) (lineno : Z) : loop_res :=
  match rest with
  | [] =>
      let lines' := lines ++ [[]] in
      match line with
      | [] => LDone [] true lines' (lineno + 1) []
      | _ => LEOFCont lines' (lineno + 1) []
      end
  | l :: tl =>
      let lines' := lines ++ [l] in
      if has_suffix l s_bsnl then
        match zslice l 0 (zlen l - 2) with            (* oneline[:len(oneline)-2] *)
        | Some pre => rl_loop tl (line ++ pre ++ s_nl) lines' (lineno + 1)
        | None => LPanic
        end
      else
        let eof := negb (ends_nl l) in                (* only the last chunk lacks it *)
        if eof && nonempty line then LEOFCont lines' (lineno + 1) tl
        else LDone (line ++ trim_suffix l s_nl) eof lines' (lineno + 1) tl
  end.

Definition kw_include : bs := [x69; x6e; x63; x6c; x75; x64; x65; x20].
Definition x_hash : byte := x23.

Definition ignore_line (l : bs) : bool :=
  match l with [] => true | c :: _ => Byte.eqb c x_hash end.

Inductive rl_result :=
| RLLine (line : bs) (lineno : Z)   (* a logical line at pos (top reader, lineno) *)
| RLSkip
| RLStop
| RLErr (d : diag)
| RLPanic.

Definition werr (k : ekind) (lineno : Z) (stack : list subreader) : rl_result :=
  match stack with
  | r :: ps => match wrap_err k lineno r ps with Some d => RLErr d | None => RLPanic end
  | [] => RLPanic
  end.

Definition max_depth : Z := 10.

(** What subreader.readLine does to the top reader [r] (its includers
    [parents] matter only through their number, their being there at all, and
    the include chain printed in diagnostics). *)
Inductive top_step :=
| TLine (line : bs) (lineno : Z) (r' : subreader)   (* line, pos, stop=false, skip=false *)
| TSkip (r' : subreader)                            (* blank or comment: skip *)
| TPop                                              (* EOF of an included file: pr.readers shrinks, skip *)
| TStop (r' : subreader)                            (* EOF of the outermost file: stop *)
| TPush (r' : subreader) (child : subreader)        (* include: pr.readers grows, skip *)
| TErr (k : ekind) (lineno : Z) (r' : subreader)    (* startPos.wrapErr(...) *)
| TPanic.

Definition set_included_at (sr : subreader) (n : Z) : subreader :=
  {| sr_file := sr_file sr; sr_lineno := sr_lineno sr; sr_lines := sr_lines sr;
     sr_rest := sr_rest sr; sr_isdir := sr_isdir sr; sr_included_at := n |}.

Definition read_top (fs : fsys) (ip : list bs) (pv : pvars) (r : subreader) (parents : list subreader) : top_step :=
  let start := sr_lineno r in
  let upd lines lineno rest :=
    {| sr_file := sr_file r; sr_lineno := lineno; sr_lines := lines; sr_rest := rest;
       sr_isdir := sr_isdir r; sr_included_at := sr_included_at r |} in
  if sr_isdir r then
    TErr EReadError start (upd (sr_lines r ++ [[]]) (start + 1) (sr_rest r))
  else
    match rl_loop (sr_rest r) [] (sr_lines r) start with
    | LPanic => TPanic
    | LEOFCont lines lineno rest => TErr EEOFCont start (upd lines lineno rest)
    | LDone line0 eof lines lineno rest =>
        let r' := upd lines lineno rest in
        let line := trim_space line0 in
        if eof && ignore_line line then
          match parents with
          | _ :: _ => TPop                       (* go on with the includer *)
          | [] => TStop r'
          end
        else if ignore_line line then TSkip r'
        else
          match strip_prefix kw_include line with
          | Some fname0 =>
              if max_depth <=? zlen (r :: parents) then TErr EDepth start r'
              else
                match preproc pv fname0 with
                | PpPanic => TPanic
                | PpUndefined ns => TErr (EUndefined ns) start r'
                | PpOk fname =>
                    match open_sub fs fname (path_dir (sr_file r') :: ip) with
                    | OpNotFound => TErr ENotFound start r'
                    | OpError => TErr EOpenError start r'
                    | OpOk sr => TPush r' (set_included_at sr start)
                    end
                end
          | None => TLine line start r'
          end
    end.

(** reader.readLine: the result and the reader stack afterwards (top first). *)
Definition read_line (fs : fsys) (ip : list bs) (pv : pvars) (stack : list subreader)
  : rl_result * list subreader :=
  match stack with
  | [] => (RLPanic, [])                                     (* r.readers[len(r.readers)-1] *)
  | r :: parents =>
      match read_top fs ip pv r parents with
      | TLine l n r' => (RLLine l n, r' :: parents)
      | TSkip r' => (RLSkip, r' :: parents)
      | TPop => (RLSkip, parents)
      | TStop r' => (RLStop, r' :: parents)
      | TPush r' c => (RLSkip, c :: r' :: parents)
      | TErr k n r' => (werr k n (r' :: parents), r' :: parents)
      | TPanic => (RLPanic, stack)
      end
  end.

(** * The reader alone: every logical line with its position, for a fixed
      parameter table (only -D definitions; no `parameter` clause handling). *)

Inductive ROutcome (A : Type) :=
| ROk (a : A)
| RErr (d : diag)
| RPanic
| ROutOfFuel.
Arguments ROk {A} a.
Arguments RErr {A} d.
Arguments RPanic {A}.
Arguments ROutOfFuel {A}.

Record lline := { ll_line : bs; ll_file : bs; ll_lineno : Z; ll_chain : list (bs * Z) }.

Definition top_file (stack : list subreader) : bs :=
  match stack with r :: _ => sr_file r | [] => [] end.
Definition top_chain (stack : list subreader) : list (bs * Z) :=
  match stack with r :: ps => chain_of r ps | [] => [] end.

Fixpoint read_all (fuel : nat) (fs : fsys) (ip : list bs) (pv : pvars) (stack : list subreader)
  : list lline * ROutcome unit :=
  match fuel with
  | O => ([], ROutOfFuel)
  | S f =>
      match read_line fs ip pv stack with
      | (RLPanic, _) => ([], RPanic)
      | (RLErr d, _) => ([], RErr d)
      | (RLStop, _) => ([], ROk tt)
      | (RLSkip, stack') => read_all f fs ip pv stack'
      | (RLLine l n, stack') =>
          let '(ls, o) := read_all f fs ip pv stack' in
          ({| ll_line := l; ll_file := top_file stack'; ll_lineno := n; ll_chain := top_chain stack' |} :: ls, o)
      end
  end.

(** The same reading written as a recursive descent: an include clause is
    "read that file to its end, then go on".  [Proofs/ReaderProofs.v] shows the
    stack of readers above computes exactly this. *)
Inductive fend := FPopped | FStopped | FErr (d : diag) | FPanic | FFuel.

Definition mk_lline (l : bs) (n : Z) (r : subreader) (parents : list subreader) : lline :=
  {| ll_line := l; ll_file := sr_file r; ll_lineno := n; ll_chain := chain_of r parents |}.

Fixpoint read_file (fuel : nat) (fs : fsys) (ip : list bs) (pv : pvars) (r : subreader) (parents : list subreader)
  : list lline * fend :=
  match fuel with
  | O => ([], FFuel)
  | S f =>
      match read_top fs ip pv r parents with
      | TLine l n r' =>
          let '(ls, e) := read_file f fs ip pv r' parents in (mk_lline l n r' parents :: ls, e)
      | TSkip r' => read_file f fs ip pv r' parents
      | TPop => ([], FPopped)
      | TStop _ => ([], FStopped)
      | TPush r' c =>
          let '(ls1, e1) := read_file f fs ip pv c (r' :: parents) in
          match e1 with
          | FPopped => let '(ls2, e2) := read_file f fs ip pv r' parents in (ls1 ++ ls2, e2)
          | _ => (ls1, e1)
          end
      | TErr k n r' =>
          match wrap_err k n r' parents with
          | Some d => ([], FErr d)
          | None => ([], FPanic)
          end
      | TPanic => ([], FPanic)
      end
  end.

(** newReader: open the main file through the include path. *)
Definition open_main (fs : fsys) (ip : list bs) (main : bs) : ROutcome (list subreader) :=
  match open_sub fs main ip with
  | OpOk r => ROk [r]
  | OpNotFound => RErr (nopos_diag EMainNotFound)
  | OpError => RErr (nopos_diag EMainOpenError)
  end.

(** * parseCfg / parseSection around the reader *)

Inductive jkind :=
| JTop          (* a top-level line that is none of the clauses below: `role ...` header or unknown syntax *)
| JParamName    (* checkIdent of the name of a `parameter` clause *)
| JSection      (* a line inside a section, other than `end` *)
| JEnd          (* what parseRole checks once its section is closed *)
| JStop.        (* the same when the input ends inside the section *)

Record jinput := {
  j_kind : jkind; j_line : bs; j_file : bs; j_lineno : Z; j_chain : list (bs * Z);
  j_pv : pvars
}.

Inductive verdict := VAccept | VReject | VRejectNoPos.

Definition judge := jinput -> verdict.

Record dstate := {
  ds_stack : list subreader;
  ds_pv : pvars;
  ds_insec : bool
}.

Definition kw_title : bs := [x74; x69; x74; x6c; x65; x20].
Definition kw_attention : bs := [x61; x74; x74; x65; x6e; x74; x69; x6f; x6e; x20].
Definition kw_author : bs := [x61; x75; x74; x68; x6f; x72; x20].
Definition kw_end : bs := [x65; x6e; x64].
Definition kw_cast : bs := [x63; x61; x73; x74].
Definition kw_script : bs := [x73; x63; x72; x69; x70; x74].
Definition kw_audience : bs := [x61; x75; x64; x69; x65; x6e; x63; x65].
Definition kw_interpretation : bs := [x69; x6e; x74; x65; x72; x70; x72; x65; x74; x61; x74; x69; x6f; x6e].

Definition is_section_header (l : bs) : bool :=
  bytes_eqb l kw_cast || bytes_eqb l kw_script || bytes_eqb l kw_audience || bytes_eqb l kw_interpretation.

Inductive step_res :=
| SGo (st : dstate)            (* go on reading *)
| SDone (st : dstate)          (* parseCfg returns nil *)
| SErr (d : diag)
| SPanic.

Definition derr (k : ekind) (lineno : Z) (stack : list subreader) : step_res :=
  match werr k lineno stack with
  | RLErr d => SErr d
  | _ => SPanic
  end.

(** One iteration of the parseCfg / parseSection loops. *)
Definition parse_step (fs : fsys) (ip : list bs) (jd : judge) (st : dstate) : step_res :=
  let pv := ds_pv st in
  match read_line fs ip pv (ds_stack st) with
  | (RLPanic, _) => SPanic
  | (RLErr d, _) => SErr d
  | (RLSkip, stk) => SGo {| ds_stack := stk; ds_pv := pv; ds_insec := ds_insec st |}
  | (RLStop, stk) =>
      if ds_insec st then
        (* parseSection returns nil; parseRole makes its final check; parseCfg reads again *)
        match jd {| j_kind := JStop; j_line := []; j_file := top_file stk; j_lineno := 0;
                    j_chain := top_chain stk; j_pv := pv |} with
        | VAccept => SGo {| ds_stack := stk; ds_pv := pv; ds_insec := false |}
        | _ => SErr (nopos_diag EClauseNoPos)
        end
      else SDone {| ds_stack := stk; ds_pv := pv; ds_insec := false |}
  | (RLLine l n, stk) =>
      let ask k := jd {| j_kind := k; j_line := l; j_file := top_file stk; j_lineno := n;
                         j_chain := top_chain stk; j_pv := pv |} in
      let go pv' insec := SGo {| ds_stack := stk; ds_pv := pv'; ds_insec := insec |} in
      if ds_insec st then
        if bytes_eqb l kw_end then
          match ask JEnd with
          | VAccept => go pv false
          | _ => SErr (nopos_diag EClauseNoPos)
          end
        else
          match ask JSection with
          | VAccept => go pv true
          | _ => derr EClause n stk                  (* parseSection always wraps *)
          end
      else
        match strip_prefix kw_title l, strip_prefix kw_attention l with
        | Some t, _ | None, Some t =>
            match preproc pv (trim_space t) with
            | PpOk _ => go pv false
            | PpUndefined ns => derr (EUndefined ns) n stk
            | PpPanic => SPanic
            end
        | None, None =>
            if has_prefix l kw_author then go pv false
            else
              match param_match l with
              | Some (name, val) =>
                  match ask JParamName with
                  | VAccept => go (pv_define pv name val) false
                  | _ => derr EClause n stk
                  end
              | None =>
                  if is_section_header l then go pv true
                  else
                    match ask JTop with
                    | VAccept => go pv true             (* a role header: its section follows *)
                    | VReject => derr EClause n stk
                    | VRejectNoPos => SErr (nopos_diag EClauseNoPos)
                    end
              end
        end
  end.

Fixpoint parse_loop (fuel : nat) (fs : fsys) (ip : list bs) (jd : judge) (st : dstate) : ROutcome dstate :=
  match fuel with
  | O => ROutOfFuel
  | S f =>
      match parse_step fs ip jd st with
      | SGo st' => parse_loop f fs ip jd st'
      | SDone st' => ROk st'
      | SErr d => RErr d
      | SPanic => RPanic
      end
  end.

(** parseDefines, newReader, parseCfg. *)
Definition parse_config (fuel : nat) (fs : fsys) (ip : list bs) (defs : list bs) (main : bs) (jd : judge)
  : ROutcome dstate :=
  match parse_defines defs with
  | Ok pv =>
      match open_main fs ip main with
      | ROk stk => parse_loop fuel fs ip jd {| ds_stack := stk; ds_pv := pv; ds_insec := false |}
      | RErr d => RErr d
      | RPanic => RPanic
      | ROutOfFuel => ROutOfFuel
      end
  | _ => RPanic
  end.

(** * The fuel that always suffices (proved in Proofs/ReaderProofs.v).  With
      [L] = 2 + the largest number of bytes of a file, a reader at include
      depth d with u physical lines left (plus one for its end of file) weighs
      u * W(10-d), W 0 = 1, W (S k) = 1 + L * W k: an include clause trades one
      line of weight W(10-d) for a whole file of weight at most L * W(9-d),
      one less.  Every call of readLine lowers the total weight, and the
      depth limit keeps d within 1..10. *)
Fixpoint weight (L : nat) (k : nat) : nat :=
  match k with
  | O => 1
  | S k' => 1 + L * weight L k'
  end.

Definition max_file_len (fs : fsys) : nat :=
  fold_right (fun f m => Nat.max (length (snd f)) m) 0%nat (fs_files fs).

Definition fuel_bound (fs : fsys) : nat :=
  let L := (2 + max_file_len fs)%nat in (2 * (L * weight L 9) + 2)%nat.
