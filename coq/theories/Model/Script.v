(** C13 — model of the shell scripts prepared for an actor's commands
    (pkg/cmd/commands.go prepareActionCommands / prepareScript, the multi-actor
    expansion of pkg/cmd/parsecfg.go, the work directory chosen by
    pkg/cmd/config.go prepareDirs) and a mini-shell that gives the state of
    the shell at the point where the user's command starts.

    Two layers:
    - [prepare_script] is a byte-for-byte transcription of what prepareScript
      writes; it is compared with the real script files on every run.
    - [exec_prefix] interprets the *text* of the lines before the user command
      with a five-instruction shell: cd, assignment (with $NAME expansion),
      `set -a` (as part of `set -euao pipefail`), `exec >>file 2>&1`, and "run
      a command that does not change the shell state" (the `date` and `echo`
      lines).  Anything else is [None]: outside the mini-shell.  bash itself is
      not modelled in Coq; that this mini-shell predicts what bash does on
      these scripts is validated by executing the real scripts (Corr/C13.v).
    No proofs here. *)
From Shk Require Import Base.Prelude Model.Dirs.
From Coq Require Import Strings.String.

Definition nl : byte := x0a.
Definition sp : byte := x20.

(** * Decimal printing (strconv.Itoa / %d on non-negative numbers) *)
Fixpoint bytes_of_uint (d : Decimal.uint) : bytes :=
  match d with
  | Decimal.Nil => []
  | Decimal.D0 d => x30 :: bytes_of_uint d
  | Decimal.D1 d => x31 :: bytes_of_uint d
  | Decimal.D2 d => x32 :: bytes_of_uint d
  | Decimal.D3 d => x33 :: bytes_of_uint d
  | Decimal.D4 d => x34 :: bytes_of_uint d
  | Decimal.D5 d => x35 :: bytes_of_uint d
  | Decimal.D6 d => x36 :: bytes_of_uint d
  | Decimal.D7 d => x37 :: bytes_of_uint d
  | Decimal.D8 d => x38 :: bytes_of_uint d
  | Decimal.D9 d => x39 :: bytes_of_uint d
  end.
Definition itoa (n : N) : bytes := bytes_of_uint (N.to_uint n).

(** Inverse direction, used to say what a decimal string denotes. *)
Fixpoint uint_of_bytes (b : bytes) : option Decimal.uint :=
  match b with
  | [] => Some Decimal.Nil
  | c :: tl =>
      match uint_of_bytes tl with
      | None => None
      | Some d =>
          match c with
          | x30 => Some (Decimal.D0 d) | x31 => Some (Decimal.D1 d)
          | x32 => Some (Decimal.D2 d) | x33 => Some (Decimal.D3 d)
          | x34 => Some (Decimal.D4 d) | x35 => Some (Decimal.D5 d)
          | x36 => Some (Decimal.D6 d) | x37 => Some (Decimal.D7 d)
          | x38 => Some (Decimal.D8 d) | x39 => Some (Decimal.D9 d)
          | _ => None
          end
      end
  end.
Definition atoi (b : bytes) : option N := option_map N.of_uint (uint_of_bytes b).

(** * prepareScript, transcribed *)

(** The chunks prepareScript writes, each of which it terminates with a
    newline.  [extraEnv] and [cmd] are written verbatim (a command continued
    over several configuration lines contains newlines itself). *)
Definition prefix_lines (shell workDir name extraEnv : bytes) (redirect : bool) : list bytes :=
  [ bs "#!" ++ shell;
    bs "set -euao pipefail";
    bs "cd '" ++ workDir ++ bs "'";
    bs "TMPDIR=$PWD HOME=$PWD/.." ]
  ++ (if redirect then
        [ bs "TZ=UTC date +%Y-%m-%dT%H:%M:%SZ >>" ++ name ++ bs ".log";
          bs "echo output redirected to " ++ workDir ++ bs "/" ++ name ++ bs ".log";
          bs "exec >>" ++ name ++ bs ".log 2>&1" ]
      else [])
  ++ [ bs "set -x" ]
  ++ (match extraEnv with [] => [] | _ => [extraEnv] end).

Definition prepare_script_lines (shell workDir name extraEnv cmd : bytes) (redirect : bool) : list bytes :=
  prefix_lines shell workDir name extraEnv redirect ++ [cmd].

Definition render_lines (ls : list bytes) : bytes := flat_map (fun l => l ++ [nl]) ls.

Definition prepare_script (shell workDir name extraEnv cmd : bytes) (redirect : bool) : bytes :=
  render_lines (prepare_script_lines shell workDir name extraEnv cmd redirect).

(** * Multi-actor expansion (parsecfg.go: `name* play N role [with env]`) *)

(** Environment of the k-th (from 0) actor of a multi-actor definition. *)
Definition multi_env (k : N) (env : bytes) : bytes :=
  match env with
  | [] => bs "i=" ++ itoa k
  | _ => bs "i=" ++ itoa k ++ bs "; " ++ env
  end.
Definition multi_name (base : bytes) (k : N) : bytes := base ++ itoa (k + 1).

(** * Roles and the cast *)
Record role := {
  r_actions : list (bytes * bytes);      (* action name, command; in definition order *)
  r_spot : option bytes;                 (* spotlight command *)
  r_clean : option bytes;                (* cleanup command *)
}.
Record role_def := {
  rd_name : bytes;
  rd_extends : option bytes;
  rd_actions : list (bytes * bytes);
  rd_spot : option bytes;
  rd_clean : option bytes;
}.

Fixpoint alookup {A} (k : bytes) (l : list (bytes * A)) : option A :=
  match l with
  | [] => None
  | (k', v) :: tl => if bytes_eqb k k' then Some v else alookup k tl
  end.

Definition amem {A} (k : bytes) (l : list (bytes * A)) : bool :=
  match alookup k l with Some _ => true | None => false end.

(** Error codes of the cast model. *)
Definition E_dup_role : N := 1.
Definition E_unknown_role : N := 2.
Definition E_dup_action : N := 3.
Definition E_dup_actor : N := 4.

(** parseRole: the parent (which must already be defined) is cloned, then the
    lines of the new role are added: a repeated action name is an error (also
    against the parent's), spotlight / cleanup replace the parent's. *)
Fixpoint add_actions (acc : list (bytes * bytes)) (l : list (bytes * bytes)) : Outcome (list (bytes * bytes)) :=
  match l with
  | [] => Ok acc
  | (n, c) :: tl => if amem n acc then Err E_dup_action else add_actions (acc ++ [(n, c)]) tl
  end.

Definition or_else {A} (a b : option A) : option A := match a with Some _ => a | None => b end.

Definition resolve_role (known : list (bytes * role)) (d : role_def) : Outcome role :=
  if amem (rd_name d) known then Err E_dup_role else
  let base :=
    match rd_extends d with
    | None => Ok {| r_actions := []; r_spot := None; r_clean := None |}
    | Some p => match alookup p known with Some r => Ok r | None => Err E_unknown_role end
    end in
  obind base (fun b =>
  obind (add_actions (r_actions b) (rd_actions d)) (fun acts =>
  Ok {| r_actions := acts; r_spot := or_else (rd_spot d) (r_spot b); r_clean := or_else (rd_clean d) (r_clean b) |})).

Fixpoint resolve_roles (known : list (bytes * role)) (ds : list role_def) : Outcome (list (bytes * role)) :=
  match ds with
  | [] => Ok known
  | d :: tl => obind (resolve_role known d) (fun r => resolve_roles (known ++ [(rd_name d, r)]) tl)
  end.

(** One line of the cast section. *)
Record actor_def := {
  ad_name : bytes;
  ad_mul : option nat;       (* None: `plays`; Some n: `name* play n` *)
  ad_role : bytes;
  ad_env : bytes;            (* the text after `with`, trimmed; [] if absent *)
}.

(** An actor as prepareDirs sees it. *)
Record actor := {
  a_name : bytes;
  a_role : role;
  a_env : bytes;
  a_index : option N;        (* position in its multi-actor definition *)
}.

Fixpoint strip_last_s (b : bytes) : bytes :=
  match b with
  | [] => []
  | [c] => if Byte.eqb c x73 then [] else [c]
  | c :: tl => c :: strip_last_s tl
  end.

(** Role lookup of parseActors: with a multiplier, a missing role is retried
    without one trailing "s". *)
Definition find_role (roles : list (bytes * role)) (mul : bool) (n : bytes) : option role :=
  match alookup n roles with
  | Some r => Some r
  | None => if mul then alookup (strip_last_s n) roles else None
  end.

Fixpoint add_multi (acc : list (bytes * actor)) (base : bytes) (r : role) (env : bytes) (ks : list nat)
  : Outcome (list (bytes * actor)) :=
  match ks with
  | [] => Ok acc
  | k :: tl =>
      let nm := multi_name base (N.of_nat k) in
      if amem nm acc then Err E_dup_actor else
      add_multi (acc ++ [(nm, {| a_name := nm; a_role := r; a_env := multi_env (N.of_nat k) env;
                                 a_index := Some (N.of_nat k) |})]) base r env tl
  end.

Definition add_actor_def (roles : list (bytes * role)) (acc : list (bytes * actor)) (d : actor_def)
  : Outcome (list (bytes * actor)) :=
  match find_role roles (match ad_mul d with Some _ => true | None => false end) (ad_role d) with
  | None => Err E_unknown_role
  | Some r =>
      match ad_mul d with
      | None =>
          if amem (ad_name d) acc then Err E_dup_actor else
          Ok (acc ++ [(ad_name d, {| a_name := ad_name d; a_role := r; a_env := ad_env d; a_index := None |})])
      | Some n => add_multi acc (ad_name d) r (ad_env d) (seq 0 n)
      end
  end.

Fixpoint expand_cast (roles : list (bytes * role)) (acc : list (bytes * actor)) (ds : list actor_def)
  : Outcome (list (bytes * actor)) :=
  match ds with
  | [] => Ok acc
  | d :: tl => obind (add_actor_def roles acc d) (fun acc' => expand_cast roles acc' tl)
  end.

(** prepareDirs: the work directory of an actor.  [runDir] is the run
    directory as an absolute, clean path (filepath.Abs of
    dataDir/subDir/artifacts/<actor>; the path algebra is Model/Dirs.v). *)
Definition work_dir (runDir actorName : bytes) : bytes :=
  runDir ++ bs "/artifacts/" ++ actorName.

Inductive kind := KAction | KSpotlight | KCleanup.
Definition kind_redirect (k : kind) : bool := match k with KSpotlight => false | _ => true end.

Record script := {
  s_name : bytes;         (* file actions/<s_name>.sh, log <s_name>.log *)
  s_kind : kind;
  s_cmd : bytes;
}.

(** prepareActionCommands: which scripts an actor gets. *)
Definition actor_scripts (a : actor) : list script :=
  map (fun nc => {| s_name := fst nc; s_kind := KAction; s_cmd := snd nc |}) (r_actions (a_role a))
  ++ match r_spot (a_role a) with
     | Some c => match c with [] => [] | _ => [{| s_name := bs "_spotlight"; s_kind := KSpotlight; s_cmd := c |}] end
     | None => []
     end
  ++ match r_clean (a_role a) with
     | Some c => match c with [] => [] | _ => [{| s_name := bs "_cleanup"; s_kind := KCleanup; s_cmd := c |}] end
     | None => []
     end.

Definition script_text (shell runDir : bytes) (a : actor) (s : script) : bytes :=
  prepare_script shell (work_dir runDir (a_name a)) (s_name s) (a_env a) (s_cmd s) (kind_redirect (s_kind s)).

Definition script_prefix (shell runDir : bytes) (a : actor) (s : script) : list bytes :=
  prefix_lines shell (work_dir runDir (a_name a)) (s_name s) (a_env a) (kind_redirect (s_kind s)).

(** Everything prepareDirs writes under artifacts/*/actions for a
    configuration: actor, script name, text. *)
Definition cast_of (rds : list role_def) (ads : list actor_def) : Outcome (list (bytes * actor)) :=
  obind (resolve_roles [] rds) (fun roles => expand_cast roles [] ads).

Definition cast_scripts (shell runDir : bytes) (rds : list role_def) (ads : list actor_def)
  : Outcome (list (bytes * list (bytes * bytes))) :=
  obind (cast_of rds ads) (fun actors =>
  Ok (map (fun na => (fst na, map (fun s => (s_name s, script_text shell runDir (snd na) s)) (actor_scripts (snd na)))) actors)).

(** * The mini-shell *)

(** Where a file descriptor points: something the invoker handed down (a
    pipe of the play, a terminal, the log of the calling script: opaque), or a
    file opened for appending by this script. *)
Inductive target := TGiven (tag : bytes) | TAppend (file : bytes).

Record sh_state := {
  cwd : bytes;
  vars : list (bytes * (bytes * bool));   (* name, (value, exported); first binding wins *)
  allexport : bool;                       (* set -a *)
  out : target;
  err : target;
}.

Definition lookup_var (n : bytes) (st : sh_state) : option (bytes * bool) := alookup n (vars st).
Definition var_value (n : bytes) (st : sh_state) : option bytes := option_map fst (lookup_var n st).

Definition set_var (n v : bytes) (st : sh_state) : sh_state :=
  let was := match lookup_var n st with Some (_, e) => e | None => false end in
  {| cwd := cwd st; vars := (n, (v, allexport st || was)) :: vars st; allexport := allexport st;
     out := out st; err := err st |}.

(** Character classes. *)
Definition byte_in (lo hi c : byte) : bool := (Byte.to_N lo <=? Byte.to_N c)%N && (Byte.to_N c <=? Byte.to_N hi)%N.
Definition is_alpha (c : byte) : bool := byte_in x61 x7a c || byte_in x41 x5a c || Byte.eqb c x5f.   (* a-z A-Z _ *)
Definition is_digit (c : byte) : bool := byte_in x30 x39 c.
Definition is_name_char (c : byte) : bool := is_alpha c || is_digit c.
Definition is_name (b : bytes) : bool :=
  match b with
  | [] => false
  | c :: tl => is_alpha c && forallb is_name_char tl
  end.
(** Characters bash leaves alone in a word: letters, digits, bytes >= 0x80
    (UTF-8), and  % + , - . / : = @ _  *)
Definition harmless (c : byte) : bool :=
  is_name_char c || byte_in x80 xff c ||
  existsb (Byte.eqb c) [x25; x2b; x2c; x2d; x2e; x2f; x3a; x3d; x40].
Definition plain_word (b : bytes) : bool :=
  match b with [] => false | _ => forallb harmless b end.
Definition plain_text (b : bytes) : bool := forallb (fun c => harmless c || Byte.eqb c sp) b.
(** What may stand between single quotes: anything but a quote.  (A newline
    is fine for bash; NUL cannot occur in a path.) *)
Definition quotable (b : bytes) : bool := forallb (fun c => negb (Byte.eqb c x27)) b.
Definition is_abs (b : bytes) : bool := match b with c :: _ => Byte.eqb c x2f | [] => false end.

Fixpoint strip_prefix (p l : bytes) : option bytes :=
  match p, l with
  | [], _ => Some l
  | a :: p', b :: l' => if Byte.eqb a b then strip_prefix p' l' else None
  | _ :: _, [] => None
  end.
Definition strip_suffix (s l : bytes) : option bytes :=
  option_map (@rev byte) (strip_prefix (rev s) (rev l)).

(** Words of an assignment line: fields separated by blanks or semicolons
    (for commands that are only assignments, `a=1 b=2` and `a=1; b=2` mean the
    same). *)
Definition is_sep (c : byte) : bool := Byte.eqb c sp || Byte.eqb c x3b.
Definition tokens (l : bytes) : list bytes := fields is_sep l.

Fixpoint split_eq_aux (acc : bytes) (l : bytes) : option (bytes * bytes) :=
  match l with
  | [] => None
  | c :: tl => if Byte.eqb c x3d then Some (rev acc, tl) else split_eq_aux (c :: acc) tl
  end.
Definition split_eq (w : bytes) : option (bytes * bytes) := split_eq_aux [] w.

(** Expansion of the right-hand side of an assignment: harmless characters
    stand for themselves, `$NAME` is the value of NAME (an unset NAME kills
    the script: `set -u`), anything else is outside the mini-shell. *)
Definition flush (st : sh_state) (pending : option bytes) : option bytes :=
  match pending with
  | None => Some []
  | Some rn => if is_name (rev rn) then var_value (rev rn) st else None
  end.
Fixpoint expand_aux (st : sh_state) (pending : option bytes) (v : bytes) : option bytes :=
  match v with
  | [] => flush st pending
  | c :: tl =>
      match pending with
      | Some rn =>
          if is_name_char c then expand_aux st (Some (c :: rn)) tl
          else
            match flush st pending with
            | None => None
            | Some a =>
                if Byte.eqb c x24 then option_map (app a) (expand_aux st (Some []) tl)
                else if harmless c then option_map (fun r => a ++ c :: r) (expand_aux st None tl)
                else None
            end
      | None =>
          if Byte.eqb c x24 then expand_aux st (Some []) tl
          else if harmless c then option_map (cons c) (expand_aux st None tl)
          else None
      end
  end.
Definition expand (st : sh_state) (v : bytes) : option bytes := expand_aux st None v.

Definition exec_assign (st : sh_state) (w : bytes) : option sh_state :=
  match split_eq w with
  | None => None
  | Some (n, v) =>
      if is_name n then
        match expand st v with
        | Some x => Some (set_var n x st)
        | None => None
        end
      else None
  end.

Fixpoint exec_assigns (st : sh_state) (ws : list bytes) : option sh_state :=
  match ws with
  | [] => Some st
  | w :: tl => match exec_assign st w with Some st' => exec_assigns st' tl | None => None end
  end.

(** `cd '<dir>'` with an absolute directory: the shell's current directory,
    PWD and OLDPWD change. *)
Definition do_cd (st : sh_state) (d : bytes) : sh_state :=
  let old := match var_value (bs "PWD") st with Some p => p | None => cwd st end in
  let st1 := set_var (bs "PWD") d (set_var (bs "OLDPWD") old st) in
  {| cwd := d; vars := vars st1; allexport := allexport st1; out := out st1; err := err st1 |}.

Definition resolve_file (st : sh_state) (f : bytes) : bytes :=
  if is_abs f then f else cwd st ++ bs "/" ++ f.

(** The longest run of name characters at the start of a line, and the rest. *)
Fixpoint span_name_aux (acc : bytes) (l : bytes) : bytes * bytes :=
  match l with
  | c :: tl => if is_name_char c then span_name_aux (c :: acc) tl else (rev acc, l)
  | [] => (rev acc, [])
  end.
Definition span_name (l : bytes) : bytes * bytes := span_name_aux [] l.

Definition date_prefix : bytes := bs "TZ=UTC date +%Y-%m-%dT%H:%M:%SZ >>".

(** One line of a prepared script.  A line whose first word starts NAME= is a
    list of assignments - except the `TZ=UTC date ... >>file` line, where the
    assignment is only the environment of the command that is run.  The other
    lines are recognised literally.  [None]: not an instruction of the
    mini-shell (or a script the shell would abort). *)
(** ** Assignment lines with quoted values.
    A line that contains a quote is read character by character: blanks,
    tabs and semicolons separate words outside quotes only; '...' is taken
    literally; "..." too, except that $NAME is expanded (a backslash or a
    backquote inside is outside the mini-shell); quotes may be glued to
    unquoted text.  Each word must then read NAME=value.  (The mini-shell does
    not check that NAME= itself is unquoted; bash would run such a word as a
    command.)  No theorem covers this part: like $NAME references it is
    compared with bash on the executed cases only. *)
Inductive piece := PLit (b : bytes) | PVar (name : bytes).
Inductive qmode := QPlain | QSingle | QDouble.
Record qstate := {
  q_mode : qmode;
  q_var : option bytes;            (* the name being read after a $, reversed *)
  q_cur : bytes;                   (* the literal being read, reversed *)
  q_pieces : list piece;           (* pieces of the current word, reversed *)
  q_inword : bool;
  q_words : list (list piece);     (* finished words, reversed *)
}.
Definition q_init : qstate :=
  {| q_mode := QPlain; q_var := None; q_cur := []; q_pieces := []; q_inword := false; q_words := [] |}.

Definition q_flush (s : qstate) : qstate :=
  match q_cur s with
  | [] => s
  | c => {| q_mode := q_mode s; q_var := q_var s; q_cur := []; q_pieces := PLit (rev c) :: q_pieces s;
            q_inword := q_inword s; q_words := q_words s |}
  end.
Definition q_end_word (s : qstate) : qstate :=
  let s := q_flush s in
  if q_inword s then
    {| q_mode := q_mode s; q_var := None; q_cur := []; q_pieces := []; q_inword := false;
       q_words := rev (q_pieces s) :: q_words s |}
  else s.
Definition q_lit (s : qstate) (c : byte) : qstate :=
  {| q_mode := q_mode s; q_var := q_var s; q_cur := c :: q_cur s; q_pieces := q_pieces s; q_inword := true; q_words := q_words s |}.
Definition q_set_mode (s : qstate) (m : qmode) : qstate :=
  {| q_mode := m; q_var := q_var s; q_cur := q_cur s; q_pieces := q_pieces s; q_inword := true; q_words := q_words s |}.
Definition q_start_var (s : qstate) : qstate :=
  let s := q_flush s in
  {| q_mode := q_mode s; q_var := Some []; q_cur := []; q_pieces := q_pieces s; q_inword := true; q_words := q_words s |}.
Definition q_close_var (s : qstate) : option qstate :=
  match q_var s with
  | None => Some s
  | Some rn =>
      if is_name (rev rn) then
        Some {| q_mode := q_mode s; q_var := None; q_cur := q_cur s; q_pieces := PVar (rev rn) :: q_pieces s;
                q_inword := q_inword s; q_words := q_words s |}
      else None
  end.

Definition q_step_plain (s : qstate) (c : byte) : option qstate :=
  match q_mode s with
  | QPlain =>
      if is_sep c || Byte.eqb c x09 then Some (q_end_word s)
      else if Byte.eqb c x27 then Some (q_set_mode s QSingle)
      else if Byte.eqb c x22 then Some (q_set_mode s QDouble)
      else if Byte.eqb c x24 then Some (q_start_var s)
      else if harmless c then Some (q_lit s c)
      else None
  | QSingle => if Byte.eqb c x27 then Some (q_set_mode s QPlain) else Some (q_lit s c)
  | QDouble =>
      if Byte.eqb c x22 then Some (q_set_mode s QPlain)
      else if Byte.eqb c x24 then Some (q_start_var s)
      else if Byte.eqb c x5c || Byte.eqb c x60 then None
      else Some (q_lit s c)
  end.
Definition q_step (s : qstate) (c : byte) : option qstate :=
  match q_var s with
  | Some rn =>
      if is_name_char c then
        Some {| q_mode := q_mode s; q_var := Some (c :: rn); q_cur := q_cur s; q_pieces := q_pieces s;
                q_inword := q_inword s; q_words := q_words s |}
      else match q_close_var s with Some s' => q_step_plain s' c | None => None end
  | None => q_step_plain s c
  end.
Fixpoint q_run (s : qstate) (l : bytes) : option qstate :=
  match l with
  | [] => Some s
  | c :: tl => match q_step s c with Some s' => q_run s' tl | None => None end
  end.
Definition q_words_of (l : bytes) : option (list (list piece)) :=
  match q_run q_init l with
  | None => None
  | Some s =>
      match q_close_var s with
      | None => None
      | Some s => match q_mode s with
                  | QPlain => Some (rev (q_words (q_end_word s)))
                  | _ => None                       (* a quote is not closed *)
                  end
      end
  end.

Fixpoint eval_pieces (st : sh_state) (ps : list piece) : option bytes :=
  match ps with
  | [] => Some []
  | PLit b :: tl => option_map (app b) (eval_pieces st tl)
  | PVar n :: tl => match var_value n st with
                    | Some v => option_map (app v) (eval_pieces st tl)
                    | None => None
                    end
  end.
Definition exec_word (st : sh_state) (w : list piece) : option sh_state :=
  match w with
  | PLit l :: tl =>
      match split_eq l with
      | Some (n, v0) =>
          if is_name n then
            match eval_pieces st (PLit v0 :: tl) with
            | Some v => Some (set_var n v st)
            | None => None
            end
          else None
      | None => None
      end
  | _ => None
  end.
Fixpoint exec_words (st : sh_state) (ws : list (list piece)) : option sh_state :=
  match ws with
  | [] => Some st
  | w :: tl => match exec_word st w with Some st' => exec_words st' tl | None => None end
  end.
Definition has_quote (l : bytes) : bool := existsb (fun c => Byte.eqb c x27 || Byte.eqb c x22) l.
Definition exec_assign_line (st : sh_state) (l : bytes) : option sh_state :=
  if has_quote l then match q_words_of l with Some ws => exec_words st ws | None => None end
  else exec_assigns st (tokens l).

Definition head_is (b : byte) (l : bytes) : bool :=
  match l with c :: _ => Byte.eqb c b | [] => false end.

Definition exec_line (st : sh_state) (l : bytes) : option sh_state :=
  if head_is x23 l then Some st                                 (* #!shell : a comment *)
  else if head_is x3d (snd (span_name l)) then
      match strip_prefix date_prefix l with
      | Some f => if plain_word f then Some st else None        (* run: appends a line to f, state unchanged *)
      | None => exec_assign_line st l
      end
  else
  if bytes_eqb l (bs "set -euao pipefail") then
    Some {| cwd := cwd st; vars := vars st; allexport := true; out := out st; err := err st |}
  else if bytes_eqb l (bs "set -x") then Some st
  else match strip_prefix (bs "cd '") l with
  | Some r =>
      match strip_suffix (bs "'") r with
      | Some d => if quotable d && is_abs d then Some (do_cd st d) else None
      | None => None
      end
  | None =>
  match strip_prefix (bs "exec >>") l with
  | Some r =>
      match strip_suffix (bs " 2>&1") r with
      | Some f => if plain_word f then
                    let t := TAppend (resolve_file st f) in
                    Some {| cwd := cwd st; vars := vars st; allexport := allexport st; out := t; err := t |}
                  else None
      | None => None
      end
  | None =>
  match strip_prefix (bs "echo ") l with
  | Some r => if plain_text r then Some st else None            (* run: writes to [out st], state unchanged *)
  | None => None
  end end end.

Fixpoint exec_prefix (st : sh_state) (ls : list bytes) : option sh_state :=
  match ls with
  | [] => Some st
  | l :: tl => match exec_line st l with Some st' => exec_prefix st' tl | None => None end
  end.

(** The environment a child process of the shell gets: the exported
    variables, first binding of each name. *)
Fixpoint env_of_aux (seen : list bytes) (vs : list (bytes * (bytes * bool))) : list (bytes * bytes) :=
  match vs with
  | [] => []
  | (n, (v, e)) :: tl =>
      if existsb (bytes_eqb n) seen then env_of_aux seen tl
      else if e then (n, v) :: env_of_aux (n :: seen) tl else env_of_aux (n :: seen) tl
  end.
Definition env_of (st : sh_state) : list (bytes * bytes) := env_of_aux [] (vars st).

(** State of a shell that was just started by a process with current directory
    [c], environment [env] and stdout / stderr [o] / [e]. *)
Definition start_state (c : bytes) (env : list (bytes * bytes)) (o e : target) : sh_state :=
  {| cwd := c; vars := map (fun nv => (fst nv, (snd nv, true))) env; allexport := false; out := o; err := e |}.

(** A script started from inside another script's command: it inherits the
    current directory, the exported variables and the descriptors. *)
Definition child_start (parent : sh_state) : sh_state :=
  start_state (cwd parent) (env_of parent) (out parent) (err parent).
