(** Model of the spotlight's signal detection (pkg/cmd/spotlight.go
    detectSignals), of what reaches the CSV files through the audition
    (Model/Audit.v: checkEvent forwards every sample) and the collector's
    per-watcher fan-out (pkg/cmd/collector.go collectObservation), property
    C08.  Definitions only.

    Outside the model, supplied by the harness per (line, parser): whether
    Go's regexp matches, the captured strings (rp.re.ReplaceAllString with the
    time-stamp group and with the value group), and for the two date groups
    the result of time.Parse with the parser's layout, minus the epoch.
    Inside the model: number parsing ([parse_decimal], checked against
    strconv.ParseFloat on every generated capture), the time stamp by group,
    the typed value, sink.lastVal, the grouping of one line's samples by equal
    time stamp (the evs map) and the order of the emitted sigEvents
    (sort.Float64s).

    Time stamps are exact nanosecond counts relative to the epoch (a
    time.Duration); the float64 seconds the code derives from them are
    [secs ns].  float64 rounding is not modelled (DESIGN.md section 2). *)
From Shk Require Import Base.Prelude Model.Value Model.Functions Model.Expr Model.Fsm Model.Audit.
From Coq Require Import Ascii String QArith Qabs.
Open Scope list_scope.

(** * Signal parsers (pkg/cmd/parsecfg.go parseRole, config.go sigParser) *)

Inductive sig_kind := KEvent | KScalar | KDelta.
Inductive ts_group := GNow | GDeltaSecs | GRfc3339 | GLog.

(** One parser of an actor's role.  [p_sink]: this actor has a sink for the
    signal (somebody watches it or mentions it in an expression). *)
Record parser := {
  p_name : string;
  p_kind : sig_kind;
  p_group : ts_group;
  p_sink : bool;
}.

(** The cast: every actor with the parsers of its role, in declaration order. *)
Definition cast := list (string * list parser).

Fixpoint parsers_of (cs : cast) (a : string) : list parser :=
  match cs with
  | [] => []
  | (b, ps) :: tl => if String.eqb a b then ps else parsers_of tl a
  end.

(** * What the regexp engine and time.Parse say about one line (inputs) *)

Record fact := {
  f_match : bool;          (* rp.re.MatchString(line) *)
  f_ts : string;           (* rp.re.ReplaceAllString(line, "${<group>}") *)
  f_val : string;          (* rp.re.ReplaceAllString(line, "${event|scalar|delta}") *)
  f_date : option Z;       (* time.Parse(rp.timeLayout, f_ts) - epoch, in ns; None = error *)
}.

Definition no_match : fact := {| f_match := false; f_ts := ""; f_val := ""; f_date := None |}.

(** One line received from an actor's spotlight: the reception instant
    (timeutil.Now() in detectSignals, minus the epoch, ns) and the facts per
    signal name. *)
Record line := {
  l_now : Z;
  l_facts : list (string * fact);
}.

Fixpoint lookup_fact (n : string) (l : list (string * fact)) : fact :=
  match l with
  | [] => no_match
  | (m, f) :: tl => if String.eqb n m then f else lookup_fact n tl
  end.
Definition fact_of (l : line) (n : string) : fact := lookup_fact n (l_facts l).

(** * strconv.ParseFloat(s, 64) on decimal floating-point syntax

    [sign] digits [. digits] [(e|E) [sign] digits], at least one mantissa
    digit, nothing before or after.  The result is the exact rational; a
    magnitude that would round to infinity is the "value out of range" error
    (None).  Hexadecimal floats (0x1.8p1) are accepted too, see below.  Not
    modelled: underscores between digits, and the spellings of infinity and
    NaN, which ParseFloat accepts without error - the values are then not
    rationals; real plays pin what the code does with them. *)

Definition digit_of (c : ascii) : option Z :=
  let n := N_of_ascii c in
  if (N.leb 48 n && N.leb n 57)%bool then Some (Z.of_N n - 48)%Z else None.

Fixpoint read_digits (s : string) (acc : Z) (n : Z) : Z * Z * string :=
  match s with
  | String c tl => match digit_of c with
                   | Some d => read_digits tl (acc * 10 + d)%Z (n + 1)%Z
                   | None => (acc, n, s)
                   end
  | EmptyString => (acc, n, s)
  end.

(** The exponent is accumulated the way readFloat does: no longer once it
    reached 10000 (the result is out of range / zero anyway). *)
Fixpoint read_exp (s : string) (acc : Z) (n : Z) : Z * Z * string :=
  match s with
  | String c tl => match digit_of c with
                   | Some d => read_exp tl (if (acc <? 10000)%Z then acc * 10 + d else acc)%Z (n + 1)%Z
                   | None => (acc, n, s)
                   end
  | EmptyString => (acc, n, s)
  end.

Definition read_sign (s : string) : bool * string :=
  match s with
  | String "-"%char tl => (true, tl)
  | String "+"%char tl => (false, tl)
  | _ => (false, s)
  end.

Definition pow10 (e : Z) : Z := (10 ^ e)%Z.

Definition mk_decimal (neg : bool) (m : Z) (e : Z) : Q :=
  let m := if neg then (- m)%Z else m in
  if (0 <=? e)%Z then inject_Z (m * pow10 e)
  else Qmake m (Z.to_pos (pow10 (- e))).

(** 2^1024 - 2^970: the smallest magnitude that rounds to infinity. *)
Definition float_overflow : Q := inject_Z (2 ^ 1024 - 2 ^ 970).

Definition parse_dec_unsigned (neg : bool) (s1 : string) : option Q :=
  let '(m1, n1, s2) := read_digits s1 0 0 in
  let '(m2, n2, s3) := match s2 with
                       | String "."%char tl => read_digits tl m1 0
                       | _ => (m1, 0%Z, s2)
                       end in
  if (n1 + n2 =? 0)%Z then None else
  let fin (e : Z) : option Q :=
      if (m2 =? 0)%Z then Some 0%Q else
      let q := mk_decimal neg m2 (e - n2) in
      if Qle_bool float_overflow (Qabs q) then None else Some q in
  match s3 with
  | EmptyString => fin 0%Z
  | String c tl =>
      if (Ascii.eqb c "e" || Ascii.eqb c "E")%bool then
        let '(eneg, s4) := read_sign tl in
        let '(e, ne, s5) := read_exp s4 0 0 in
        if (ne =? 0)%Z then None else
        match s5 with
        | EmptyString => fin (if eneg then - e else e)%Z
        | _ => None
        end
      else None
  end.

(** Hexadecimal floating-point syntax: 0x / 0X, hexadecimal digits with an
    optional point (at least one digit), then a MANDATORY binary exponent
    (p|P) [sign] decimal-digits.  The value is mantissa * 2^exponent, exactly. *)
Definition hex_digit_of (c : ascii) : option Z :=
  let n := N_of_ascii c in
  if (N.leb 48 n && N.leb n 57)%bool then Some (Z.of_N n - 48)%Z
  else if (N.leb 97 n && N.leb n 102)%bool then Some (Z.of_N n - 87)%Z
  else if (N.leb 65 n && N.leb n 70)%bool then Some (Z.of_N n - 55)%Z
  else None.

Fixpoint read_hex_digits (s : string) (acc : Z) (n : Z) : Z * Z * string :=
  match s with
  | String c tl => match hex_digit_of c with
                   | Some d => read_hex_digits tl (acc * 16 + d)%Z (n + 1)%Z
                   | None => (acc, n, s)
                   end
  | EmptyString => (acc, n, s)
  end.

Definition mk_binary (neg : bool) (m : Z) (e : Z) : Q :=
  let m := if neg then (- m)%Z else m in
  if (0 <=? e)%Z then inject_Z (m * 2 ^ e)
  else Qmake m (Z.to_pos (2 ^ (- e))).

Definition parse_hex_unsigned (neg : bool) (s1 : string) : option Q :=
  let '(m1, n1, s2) := read_hex_digits s1 0 0 in
  let '(m2, n2, s3) := match s2 with
                       | String "."%char tl => read_hex_digits tl m1 0
                       | _ => (m1, 0%Z, s2)
                       end in
  if (n1 + n2 =? 0)%Z then None else
  match s3 with
  | String c tl =>
      if (Ascii.eqb c "p" || Ascii.eqb c "P")%bool then
        let '(eneg, s4) := read_sign tl in
        let '(e, ne, s5) := read_exp s4 0 0 in
        if (ne =? 0)%Z then None else
        match s5 with
        | EmptyString =>
            if (m2 =? 0)%Z then Some 0%Q else
            let q := mk_binary neg m2 ((if eneg then - e else e) - 4 * n2) in
            if Qle_bool float_overflow (Qabs q) then None else Some q
        | _ => None
        end
      else None
  | EmptyString => None
  end.

Definition parse_decimal (s : string) : option Q :=
  let '(neg, s1) := read_sign s in
  match s1 with
  | String "0"%char (String x tl) =>
      if (Ascii.eqb x "x" || Ascii.eqb x "X")%bool then parse_hex_unsigned neg tl
      else parse_dec_unsigned neg s1
  | _ => parse_dec_unsigned neg s1
  end.

(** * Time stamp and typed value of one match *)

(** time.Duration(delta * float64(time.Second)): truncation toward zero. *)
Definition trunc_ns (q : Q) : Z := Z.quot (Qnum q * 1000000000) (Zpos (Qden q)).

Definition time_of (g : ts_group) (now : Z) (f : fact) : option Z :=
  match g with
  | GNow => Some now
  | GDeltaSecs => option_map trunc_ns (parse_decimal (f_ts f))
  | GRfc3339 | GLog => f_date f
  end.

(** The captured datum before typing: the text, or the parsed number. *)
Inductive raw := RText (s : string) | RNum (q : Q).

Definition capture_of (k : sig_kind) (f : fact) : option raw :=
  match k with
  | KEvent => Some (RText (f_val f))
  | KScalar | KDelta => option_map RNum (parse_decimal (f_val f))
  end.

(** The value sent to the audition, given sink.lastVal. *)
Definition point_value (k : sig_kind) (last : Q) (r : raw) : value :=
  match r with
  | RText s => VStr s
  | RNum q => match k with KDelta => VNum (q - last) | _ => VNum q end
  end.

(** sink.lastVal afterwards: only delta signals update it. *)
Definition new_last (k : sig_kind) (last : Q) (r : raw) : Q :=
  match k, r with
  | KDelta, RNum q => q
  | _, _ => last
  end.

(** sink.lastVal per (actor, signal); absent = 0 (the zero value). *)
Definition lasts := list (var * Q).
Fixpoint get_last (x : var) (lv : lasts) : Q :=
  match lv with
  | [] => 0%Q
  | (y, q) :: tl => if var_eqb x y then q else get_last x tl
  end.
Fixpoint set_last (x : var) (q : Q) (lv : lasts) : lasts :=
  match lv with
  | [] => [(x, q)]
  | (y, r) :: tl => if var_eqb x y then (y, q) :: tl else (y, r) :: set_last x q tl
  end.

(** * detectSignals *)

(** The evs map together with tss (keys in insertion order). *)
Definition groups := list (Z * list (var * value)).

Definition opt_list {A} (o : option A) : list A := match o with Some a => [a] | None => [] end.

(** `ev, ok := evs[elapsed]; if !ok { create }` followed, when the value
    parses, by `ev.values = append(ev.values, valHolder)`.  With [None] the
    event is created (or found) and nothing is appended: that is what happens
    when the time stamp parses and the value does not. *)
Fixpoint add_group (ts : Z) (xv : option (var * value)) (g : groups) : groups :=
  match g with
  | [] => [(ts, opt_list xv)]
  | (t, vs) :: tl => if (t =? ts)%Z then (t, vs ++ opt_list xv) :: tl
                     else (t, vs) :: add_group ts xv tl
  end.

(** The loop over a.role.sigParsers. *)
Fixpoint detect_loop (a : string) (ps : list parser) (l : line) (lv : lasts) (g : groups) : groups * lasts :=
  match ps with
  | [] => (g, lv)
  | p :: tl =>
      let f := fact_of l (p_name p) in
      if negb (p_sink p) then detect_loop a tl l lv g          (* no audience: continue *)
      else if negb (f_match f) then detect_loop a tl l lv g    (* no match: continue *)
      else match time_of (p_group p) (l_now l) f with
           | None => detect_loop a tl l lv g                   (* bad time stamp: continue *)
           | Some ts =>
               let x := (a, p_name p) in
               match capture_of (p_kind p) f with
               | None => detect_loop a tl l lv (add_group ts None g)      (* bad number: continue, the event stays *)
               | Some r =>
                   let last := get_last x lv in
                   let lv' := match p_kind p with KDelta => set_last x (new_last KDelta last r) lv | _ => lv end in
                   detect_loop a tl l lv' (add_group ts (Some (x, point_value (p_kind p) last r)) g)
               end
           end
  end.

(** sort.Float64s(tss) on distinct keys, then one sigEvent per key. *)
Fixpoint insert_group (e : Z * list (var * value)) (g : groups) : groups :=
  match g with
  | [] => [e]
  | h :: tl => if (fst e <=? fst h)%Z then e :: g else h :: insert_group e tl
  end.
Definition sort_groups (g : groups) : groups := fold_right insert_group [] g.

(** The sigEvents (time stamp in ns, samples) one line makes detectSignals
    send to the audition, in order, and the sinks' lastVal afterwards. *)
Definition detect (a : string) (ps : list parser) (l : line) (lv : lasts) : groups * lasts :=
  let '(g, lv') := detect_loop a ps l lv [] in (sort_groups g, lv').

(** * From lines to rows *)

(** What happens during a play, in the order the audition receives it: a line
    from some actor's spotlight (stdout and stderr arrive through the same
    pipe), a mood change from the prompter, the end of the play. *)
Inductive item :=
| ILine (a : string) (l : line)
| IMood (ts : Q) (m : string)
| IFinal (ts : Q).

(** ts.Sub(epoch).Seconds() *)
Definition secs (ns : Z) : Q := Qmake ns 1000000000.

Definition sig_event (e : Z * list (var * value)) : event := ESig (secs (fst e)) (snd e).

(** The event history the audition sees. *)
Fixpoint feed (cs : cast) (lv : lasts) (items : list item) : list event :=
  match items with
  | [] => []
  | ILine a l :: tl =>
      let '(evs, lv') := detect a (parsers_of cs a) l lv in
      map sig_event evs ++ feed cs lv' tl
  | IMood ts m :: tl => EMood ts m :: feed cs lv tl
  | IFinal ts :: tl => EFinal ts :: feed cs lv tl
  end.

(** Spotlights feeding the real audition round machine. *)
Definition play (c : acfg) (cs : cast) (items : list item) : list (list out) * st * status :=
  run_audition c (feed cs [] items).

(** collectObservation: one row per name in the variable's watcherNames, in
    the file (observer, actor, signal). *)
Definition fanout (c : acfg) (o : out) : list (string * var * (Q * value)) :=
  match o with
  | OObs x v ts => map (fun w => (w, x, (ts, v))) (watchers_of x (c_watchers c))
  | _ => []
  end.

Definition file_rows (c : acfg) (outs : list out) (w : string) (x : var) : list (Q * value) :=
  flat_map (fun '(w', y, r) => if (String.eqb w w' && var_eqb x y)%bool then [r] else [])
           (flat_map (fanout c) outs).

(** The rows (time, value) of csv/<w>.<actor>.<signal>.csv after the play. *)
Definition rows (c : acfg) (cs : cast) (items : list item) (w : string) (x : var) : list (Q * value) :=
  let '(os, _, _) := play c cs items in file_rows c (List.concat os) w x.

(** What a row looks like in the file: `%q` of html.EscapeString for events,
    `%v` of the number otherwise. *)
Fixpoint html_escape (s : string) : string :=
  match s with
  | EmptyString => EmptyString
  | String c tl =>
      let r := html_escape tl in
      if Ascii.eqb c "<" then ("&lt;" ++ r)%string
      else if Ascii.eqb c ">" then ("&gt;" ++ r)%string
      else if Ascii.eqb c "&" then ("&amp;" ++ r)%string
      else if Ascii.eqb c "'" then ("&#39;" ++ r)%string
      else if Ascii.eqb c """" then ("&#34;" ++ r)%string
      else String c r
  end.

Inductive cell := CText (s : string) | CNum (q : Q) | COther.
Definition cell_of (v : value) : cell :=
  match v with
  | VStr s => CText (html_escape s)
  | VNum q => CNum q
  | _ => COther
  end.

(** * The plain meaning, without groups, sorting, rounds or fan-out *)

(** A line yields a point for parser [p] iff the signal is watched, the
    pattern matches and both captures parse. *)
Definition good_point (p : parser) (l : line) : option (Z * raw) :=
  let f := fact_of l (p_name p) in
  if (p_sink p && f_match f)%bool then
    match time_of (p_group p) (l_now l) f, capture_of (p_kind p) f with
    | Some ts, Some r => Some (ts, r)
    | _, _ => None
    end
  else None.

(** The lines of actor [a], in order of arrival. *)
Fixpoint lines_of (a : string) (items : list item) : list line :=
  match items with
  | [] => []
  | ILine b l :: tl => if String.eqb b a then l :: lines_of a tl else lines_of a tl
  | _ :: tl => lines_of a tl
  end.

(** The points (time stamp, captured datum) of the lines of actor [a] that
    yield one for [p], in order. *)
Definition good_lines (a : string) (p : parser) (items : list item) : list (Z * raw) :=
  flat_map (fun l => opt_list (good_point p l)) (lines_of a items).

(** Event: the captured text; scalar: the number; delta: the difference to
    the previous point's number, the very first one relative to [last]
    (0 at the start of the play, as sink.lastVal starts at 0). *)
Fixpoint values_of (k : sig_kind) (last : Q) (pts : list (Z * raw)) : list value :=
  match pts with
  | [] => []
  | (_, r) :: tl => point_value k last r :: values_of k (new_last k last r) tl
  end.

Definition spec_rows (a : string) (p : parser) (items : list item) : list (Q * value) :=
  let pts := good_lines a p items in
  combine (map (fun pt => secs (fst pt)) pts) (values_of (p_kind p) 0 pts).

(** * time.Parse("060102 15:04:05.999999", s) on the fixed-width shape

    The expansion of `(?P<ts_log>)` only captures strings of the shape
    dddddd dd:dd:dd.dddddd.  On those, time.Parse either fails (a field out
    of range) or yields this instant, in ns since the Unix epoch (UTC).
    [detect] takes the date from the harness ([f_date]); this function is the
    model of that input for the fixed-width shape, compared with time.Parse
    on every generated stamp of that shape (Corr/C08.v [tslog_model_bad]). *)

Fixpoint digits_n (n : nat) (s : string) (acc : Z) : option (Z * string) :=
  match n with
  | O => Some (acc, s)
  | S n' => match s with
            | String c tl => match digit_of c with
                             | Some d => digits_n n' tl (acc * 10 + d)%Z
                             | None => None
                             end
            | EmptyString => None
            end
  end.

Definition expect_char (c : ascii) (s : string) : option string :=
  match s with
  | String d tl => if Ascii.eqb c d then Some tl else None
  | EmptyString => None
  end.

Definition is_leap (y : Z) : bool :=
  ((y mod 4 =? 0) && (negb (y mod 100 =? 0) || (y mod 400 =? 0)))%Z%bool.

Definition days_in (y m : Z) : Z :=
  if (m =? 2)%Z then (if is_leap y then 29 else 28)%Z
  else if ((m =? 4) || (m =? 6) || (m =? 9) || (m =? 11))%Z%bool then 30%Z else 31%Z.

(** Days from 1970-01-01 to y-m-d (proleptic Gregorian calendar). *)
Definition days_from_civil (y m d : Z) : Z :=
  let y' := (if m <=? 2 then y - 1 else y)%Z in
  let era := (y' / 400)%Z in
  let yoe := (y' - era * 400)%Z in
  let mp := (if m <=? 2 then m + 9 else m - 3)%Z in
  let doy := ((153 * mp + 2) / 5 + d - 1)%Z in
  let doe := (yoe * 365 + yoe / 4 - yoe / 100 + doy)%Z in
  (era * 146097 + doe - 719468)%Z.

Definition obind' {A B} (o : option A) (f : A -> option B) : option B :=
  match o with Some a => f a | None => None end.

Definition parse_ts_log (s : string) : option Z :=
  obind' (digits_n 2 s 0) (fun '(yy, s) =>
  obind' (digits_n 2 s 0) (fun '(mo, s) =>
  obind' (digits_n 2 s 0) (fun '(dd, s) =>
  obind' (expect_char " " s) (fun s =>
  obind' (digits_n 2 s 0) (fun '(hh, s) =>
  obind' (expect_char ":" s) (fun s =>
  obind' (digits_n 2 s 0) (fun '(mi, s) =>
  obind' (expect_char ":" s) (fun s =>
  obind' (digits_n 2 s 0) (fun '(ss, s) =>
  obind' (expect_char "." s) (fun s =>
  obind' (digits_n 6 s 0) (fun '(us, s) =>
  match s with
  | EmptyString =>
      let y := (if 69 <=? yy then 1900 + yy else 2000 + yy)%Z in
      if ((1 <=? mo) && (mo <=? 12) && (1 <=? dd) && (dd <=? days_in y mo)
          && (hh <? 24) && (mi <? 60) && (ss <? 60))%Z%bool
      then Some ((((days_from_civil y mo dd * 86400 + hh * 3600 + mi * 60 + ss) * 1000000 + us) * 1000)%Z)
      else None
  | _ => None
  end))))))))))).
