(** The audition round machine of pkg/cmd/audit.go (properties C02, C03, C08,
    C11): checkEvent / checkEventForAuditor / processAssignments /
    checkExpect / checkActivationPeriodEnd / setAndActivateVar /
    processMoodChange / checkFinal, as transcribed in DESIGN.md appendix A.
    Definitions only. *)
From Shk Require Import Base.Prelude Model.Value Model.Functions Model.Expr Model.Fsm.
Open Scope list_scope.
Open Scope Q_scope.

Record assignment := {
  as_target : string;
  as_mode : amode;
  as_n : nat;
  as_expr : expr;
}.

(** An audience member that has an auditor state (an `expects` or at least one
    assignment); members are listed in declaration (audienceNames) order. *)
Record member := {
  m_name : string;
  m_cond : expr;                           (* activeCond; `true` for throughout *)
  m_assigns : list assignment;
  m_expect : option (fsm_table * expr);
}.

Record acfg := {
  c_members : list member;
  c_watchers : list (var * list string);   (* cfg.vars[v].watchers, every audience member *)
  c_init : list (var * value);             (* makeAuditionState: [] for collected arrays, nil otherwise *)
}.

Record mstate := { ms_woken : bool; ms_auditing : bool; ms_fsm : nat }.

Record st := {
  s_mood : string;
  s_mood_start : option Q;                 (* None = -Inf *)
  s_vals : list (var * value);
  s_act : list var;                        (* curActivated = true *)
  s_ms : list (string * mstate);
}.

Inductive out :=
| OObs (x : var) (v : value) (ts : Q)
| OReport (a : string) (lbl : string) (code : Z)   (* lbl: t / f / end / err ; code: 0 ok 1 err 2 bad 3 info *)
| OStart (a : string)
| OStop (a : string).

(** How a round can end. *)
Inductive status := Running | Aborted | Panicked.

Fixpoint lookup_val (x : var) (l : list (var * value)) : value :=
  match l with
  | [] => VNil
  | (y, v) :: tl => if var_eqb x y then v else lookup_val x tl
  end.
Fixpoint set_val (x : var) (v : value) (l : list (var * value)) : list (var * value) :=
  match l with
  | [] => [(x, v)]
  | (y, w) :: tl => if var_eqb x y then (y, v) :: tl else (y, w) :: set_val x v tl
  end.
Fixpoint watchers_of (x : var) (l : list (var * list string)) : list string :=
  match l with
  | [] => []
  | (y, ws) :: tl => if var_eqb x y then ws else watchers_of x tl
  end.
Fixpoint get_ms (a : string) (l : list (string * mstate)) : option mstate :=
  match l with
  | [] => None
  | (b, m) :: tl => if String.eqb a b then Some m else get_ms a tl
  end.
Fixpoint upd_ms (a : string) (f : mstate -> mstate) (l : list (string * mstate)) : list (string * mstate) :=
  match l with
  | [] => []
  | (b, m) :: tl => if String.eqb a b then (b, f m) :: tl else (b, m) :: upd_ms a f tl
  end.
Definition wake (ws : list string) (l : list (string * mstate)) : list (string * mstate) :=
  map (fun '(b, m) => if existsb (String.eqb b) ws
                      then (b, {| ms_woken := true; ms_auditing := ms_auditing m; ms_fsm := ms_fsm m |})
                      else (b, m)) l.

Definition env_of (s : st) : env := fun x => lookup_val x (s_vals s).
Definition has_deps (s : st) (e : expr) : bool := forallb (fun x => mem_var x (s_act s)) (deps e).

(** setAndActivateVar.  Signal samples are forwarded to the collector by
    checkEvent itself (unconditionally); here only predefined and computed
    variables (actor = "") are forwarded, when they have watchers and changed. *)
Definition set_var (c : acfg) (s : st) (x : var) (v : value) (ts : Q) : st * list out :=
  if is_nil v then (s, []) else
  let prev := lookup_val x (s_vals s) in
  let ws := watchers_of x (c_watchers c) in
  let s' := {| s_mood := s_mood s; s_mood_start := s_mood_start s;
               s_vals := set_val x v (s_vals s); s_act := add_var x (s_act s);
               s_ms := wake ws (s_ms s) |} in
  (s', match ws with
       | [] => []
       | _ => if String.eqb (fst x) "" && negb (value_eqb v prev) then [OObs x v ts] else []
       end).

Definition with_ms (s : st) (ms : list (string * mstate)) : st :=
  {| s_mood := s_mood s; s_mood_start := s_mood_start s; s_vals := s_vals s; s_act := s_act s; s_ms := ms |}.

(** One FSM step of an auditor and its report. *)
Definition fsm_report (tbl : fsm_table) (q : nat) (l : string) : option (nat * Z) :=
  match step_report tbl q l with
  | Some (q', v) => Some (q', verdict_code v)
  | None => None
  end.

(** processAssignments *)
Fixpoint do_assigns (c : acfg) (s : st) (ts : Q) (l : list assignment) : st * list out * status :=
  match l with
  | [] => (s, [], Running)
  | a :: tl =>
      if negb (has_deps s (as_expr a)) then do_assigns c s ts tl else
      match eval (env_of s) (as_expr a) with
      | EErr => (s, [], Aborted)
      | EV x =>
          let target := (""%string, as_target a) in
          let newv :=
            match as_mode a with
            | ASingle => Some (Some x)
            | m => let cur := match lookup_val target (s_vals s) with
                              | VArr arr => arr
                              | VNil => []
                              | v => [v]
                              end in
                   match collect m cur (as_n a) x with
                   | COk r => Some (Some (VArr r))
                   | CErr => Some None
                   | CPanic => None
                   end
            end in
          match newv with
          | None => (s, [], Panicked)
          | Some None => (s, [], Aborted)
          | Some (Some v) =>
              let '(s1, o1) := set_var c s target v ts in
              let '(s2, o2, stt) := do_assigns c s1 ts tl in
              (s2, o1 ++ o2, stt)
          end
      end
  end.

(** checkExpect: one observation of the `expects` predicate. *)
Definition check_expect (m : member) (s1 : st) (q0 : nat) : nat * list out * bool :=
  match m_expect m with
  | None => (q0, [], true)
  | Some (tbl, p) =>
      if negb (has_deps s1 p) then (q0, [], true) else
      match truthy (eval (env_of s1) p) with
      | None => (q0, [OReport (m_name m) "err" 1], true)
      | Some b => match fsm_report tbl q0 (lbl b) with
                  | Some (q', code) => (q', [OReport (m_name m) (lbl b) code], true)
                  | None => (q0, [], false)
                  end
      end
  end.

(** checkActivationPeriodEnd + the "stops auditing" judgement. *)
Definition period_end (m : member) (closing : bool) (q1 : nat) : nat * list out * bool :=
  if closing then
    match m_expect m with
    | None => (q1, [OStop (m_name m)], true)
    | Some (tbl, _) => match fsm_report tbl q1 "end" with
                       | Some (q', code) => (q', [OReport (m_name m) "end" code; OStop (m_name m)], true)
                       | None => (q1, [], false)
                       end
    end
  else (q1, [], true).

(** What the activation condition says in this round: [None] evaluation
    error, [Some None] dependencies not fresh (nothing to do), [Some (Some w)]
    the auditor should (not) be auditing. *)
Definition wanted (final : bool) (s : st) (m : member) : option (option bool) :=
  if final then Some (Some false)
  else if has_deps s (m_cond m)
       then match truthy (eval (env_of s) (m_cond m)) with
            | None => None
            | Some b => Some (Some b)
            end
       else Some None.

Definition start_ok (m : member) : bool :=
  match m_expect m with
  | Some (tbl, _) => match state_name tbl (f_start tbl) with Some _ => true | None => false end
  | None => true
  end.

Definition set_ms (s : st) (a : string) (auditing : bool) (q : nat) : st :=
  with_ms s (upd_ms a (fun x => {| ms_woken := ms_woken x; ms_auditing := auditing; ms_fsm := q |}) (s_ms s)).

(** checkEventForAuditor *)
Definition visit (c : acfg) (final : bool) (s : st) (ts : Q) (m : member) : st * list out * status :=
  match get_ms (m_name m) (s_ms s) with
  | None => (s, [], Running)
  | Some ms =>
    match wanted final s m with
    | None => (s, [], Aborted)
    | Some None => (s, [], Running)
    | Some (Some w) =>
      let starting := w && negb (ms_auditing ms) in
      let closing := negb w && ms_auditing ms in
      let q0 := if starting then match m_expect m with Some (tbl, _) => f_start tbl | None => ms_fsm ms end
                else ms_fsm ms in
      let auditing := ms_auditing ms || starting in
      (* startOfAuditPeriod logs the start state's name: an out-of-range start state panics *)
      if starting && negb (start_ok m) then (s, [OStart (m_name m)], Panicked) else
      let o_start := if starting then [OStart (m_name m)] else [] in
      let s0 := set_ms s (m_name m) auditing q0 in
      if negb auditing then (s0, o_start, Running) else
      let '(s1, o1, st1) := do_assigns c s0 ts (m_assigns m) in
      match st1 with
      | Running =>
          let '(q1, o2, ok2) := check_expect m s1 q0 in
          if negb ok2 then (s1, o_start ++ o1 ++ o2, Panicked) else
          let '(q2, o3, ok3) := period_end m closing q1 in
          if negb ok3 then (s1, o_start ++ o1 ++ o2 ++ o3, Panicked) else
          (set_ms s1 (m_name m) (if closing then false else auditing) q2, o_start ++ o1 ++ o2 ++ o3, Running)
      | stt => (s1, o_start ++ o1, stt)
      end
    end
  end.

Fixpoint visit_all (c : acfg) (final : bool) (s : st) (ts : Q) (l : list member) : st * list out * status :=
  match l with
  | [] => (s, [], Running)
  | m :: tl =>
      let '(s1, o1, st1) := visit c final s ts m in
      match st1 with
      | Running => let '(s2, o2, st2) := visit_all c final s1 ts tl in (s2, o1 ++ o2, st2)
      | stt => (s1, o1, stt)
      end
  end.

Fixpoint set_signals (c : acfg) (s : st) (ts : Q) (vs : list (var * value)) : st * list out :=
  match vs with
  | [] => (s, [])
  | (x, v) :: tl =>
      let '(s1, o1) := set_var c s x v ts in
      let '(s2, o2) := set_signals c s1 ts tl in
      (s2, o1 ++ (OObs x v ts :: o2))       (* the unconditional collectEvent of checkEvent *)
  end.

Definition t_var : var := (""%string, "t"%string).
Definition mood_var : var := (""%string, "mood"%string).
Definition moodt_var : var := (""%string, "moodt"%string).

(** checkEvent: one audit round.  Every auditor is visited; the per-expression
    dependency gates decide what is evaluated. *)
Definition round (c : acfg) (final : bool) (s : st) (ts : Q) (vs : list (var * value)) : st * list out * status :=
  let s0 := {| s_mood := s_mood s; s_mood_start := s_mood_start s; s_vals := s_vals s;
               s_act := filter (fun x => String.eqb (fst x) "") (s_act s);          (* resetSigVars *)
               s_ms := map (fun '(b, m) => (b, {| ms_woken := false; ms_auditing := ms_auditing m; ms_fsm := ms_fsm m |})) (s_ms s) |} in
  let '(s1, o1) := set_var c s0 t_var (VNum ts) ts in
  let '(s2, o2) := set_var c s1 mood_var (VStr (s_mood s1)) ts in
  let moodt := match s_mood_start s2 with None => ts | Some m0 => ts - m0 end in
  let '(s3, o3) := set_var c s2 moodt_var (VNum moodt) ts in
  let '(s4, o4) := set_signals c s3 ts vs in
  let '(s5, o5, stt) := visit_all c final s4 ts (c_members c) in
  (s5, o1 ++ o2 ++ o3 ++ o4 ++ o5, stt).

Inductive event :=
| EMood (ts : Q) (m : string)
| ESig (ts : Q) (vs : list (var * value))
| EFinal (ts : Q).

Definition with_mood (s : st) (m : string) (t0 : Q) : st :=
  {| s_mood := m; s_mood_start := Some t0; s_vals := s_vals s; s_act := s_act s; s_ms := s_ms s |}.

(** processMoodChange / collectAndAuditMood / checkFinal *)
Definition mood_change (c : acfg) (s : st) (at_end : bool) (ts : Q) (m : string) : st * list out * status :=
  let at_begin := match s_mood_start s with None => true | Some _ => false end in
  let '(s1, o1, st1) := if at_begin then (s, [], Running) else round c at_end s ts [] in
  match st1 with
  | Running =>
      if at_end then (s1, o1, Running)
      else let '(s2, o2, st2) := round c false (with_mood s1 m ts) ts [] in (s2, o1 ++ o2, st2)
  | stt => (s1, o1, stt)
  end.

Definition step_event (c : acfg) (s : st) (e : event) : st * list out * status :=
  match e with
  | EMood ts m => if String.eqb m (s_mood s) then (s, [], Running) else mood_change c s false ts m
  | ESig ts vs => round c false s ts vs
  | EFinal ts => mood_change c s true ts "clear"
  end.

Definition init_st (c : acfg) : st :=
  {| s_mood := "clear"; s_mood_start := None; s_vals := c_init c; s_act := [];
     s_ms := map (fun m => (m_name m, {| ms_woken := false; ms_auditing := false; ms_fsm := 0 |})) (c_members c) |}.

(** audit(): the initial round (processMoodChange atBegin at 0 with mood
    clear), then the events; per-event outputs are kept separate (round index
    -1 is the initial round).  After an evaluation error the loop stops but
    the deferred checkFinal still runs: remaining non-final events are
    skipped.  An error in the INITIAL round returns before that deferred
    function is registered: nothing else happens. *)
Fixpoint run_events (c : acfg) (s : st) (stt : status) (es : list event) : list (list out) * st * status :=
  match es with
  | [] => ([], s, stt)
  | e :: tl =>
      match stt, e with
      | Panicked, _ => ([], s, Panicked)
      | Aborted, EFinal _ =>
          let '(s1, o1, st1) := step_event c s e in
          let '(os, s2, st2) := run_events c s1 (match st1 with Running => Aborted | x => x end) tl in
          (o1 :: os, s2, st2)
      | Aborted, _ => let '(os, s2, st2) := run_events c s Aborted tl in ([] :: os, s2, st2)
      | Running, _ =>
          let '(s1, o1, st1) := step_event c s e in
          let '(os, s2, st2) := run_events c s1 st1 tl in
          (o1 :: os, s2, st2)
      end
  end.

Definition run_audition (c : acfg) (es : list event) : list (list out) * st * status :=
  let s0 := init_st c in
  let '(s1, o0, st0) := mood_change c s0 false 0 "clear" in
  match st0 with
  | Running => let '(os, s2, st2) := run_events c s1 Running es in (o0 :: os, s2, st2)
  | _ => ([o0], s1, st0)     (* audit() returns before its deferred final round is even registered *)
  end.
