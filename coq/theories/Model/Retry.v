(** Model of pkg/crdb/retry/retry.go (property C17).

    Numbers.  [time.Duration] is [Z] (nanoseconds; int64 overflow is outside
    the model).  The two float64 options (Multiplier, RandomizationFactor) and
    the jitter draw [rand.Float64()] are exact rationals [Q] — every float64
    is a dyadic rational, the harness prints it exactly — and the arithmetic
    of [retryIn] is done exactly over [Q]: float *rounding* is not modelled
    (the correspondence compares with a tolerance of 1 ns).  The conversion
    [time.Duration(float64)] truncates towards zero, and so does [Qtrunc].

    Control.  [Next] / [NextCh] / [Reset] are a labelled transition system.
    A call of [Next] that has to wait is three kinds of step: the call arms
    the timer ([PArmed]); the [select] statement polls its cases once
    ([LPoll]: Go picks *any* ready case; with none ready the goroutine parks,
    [PBlocked]); a parked [select] is completed by the first event that makes
    a case ready.  The environment closes the closer, cancels the context,
    lets time pass and fires the timer at any moment the guards allow.

    Executable definitions only; proofs are in Proofs/RetryProofs.v. *)
From Shk Require Import Base.Prelude.
From Coq Require Export QArith Qround Qminmax.
Open Scope Z_scope.

(** * Options and the back-off computation *)

Record opts := {
  init_backoff : Z;      (* InitialBackoff, ns *)
  max_backoff : Z;       (* MaxBackoff, ns *)
  multiplier : Q;        (* Multiplier *)
  max_retries : Z;       (* MaxRetries; 0 = unbounded *)
  rand_factor : Q;       (* RandomizationFactor *)
}.

(** The float64 nearest to the Go constant 0.15. *)
Definition default_rand_factor : Q := 5404319552844595 # 36028797018963968.

Definition q_is_zero (q : Q) : bool := Qnum q =? 0.

(** The defaulting done by [StartWithCtx]. *)
Definition normalize (o : opts) : opts :=
  {| init_backoff := if init_backoff o =? 0 then 50000000 else init_backoff o;
     max_backoff := if max_backoff o =? 0 then 2000000000 else max_backoff o;
     multiplier := if q_is_zero (multiplier o) then 2 # 1 else multiplier o;
     max_retries := max_retries o;
     rand_factor := if q_is_zero (rand_factor o) then default_rand_factor else rand_factor o |}.

(** [float64(Initial) * math.Pow(Multiplier, float64(n))], then the cap
    [if backoff > max { backoff = max }]. *)
Definition raw_backoff (o : opts) (n : Z) : Q :=
  inject_Z (init_backoff o) * Qpower (multiplier o) n.
Definition backoff (o : opts) (n : Z) : Q :=
  let b := raw_backoff o n in
  let m := inject_Z (max_backoff o) in
  if Qle_bool b m then b else m.

(** Go's float-to-integer conversion: the fraction is discarded. *)
Definition Qtrunc (x : Q) : Z := Z.quot (Qnum x) (Zpos (Qden x)).

(** [delta = rf*backoff; Duration(backoff - delta + u*(2*delta+1))] for the
    jitter draw [u] (in the code [0 <= u < 1]). *)
Definition jitter_at (base span u : Q) : Z := Qtrunc (base + u * span)%Q.
Definition jitter (b rf u : Q) : Z :=
  let delta := (rf * b)%Q in
  jitter_at (b - delta) ((2 # 1) * delta + 1) u.
Definition retry_in (o : opts) (n : Z) (u : Q) : Z :=
  jitter (backoff o n) (rand_factor o) u.

(** The randomisation band around [backoff n], in whole nanoseconds. *)
Definition lo (o : opts) (n : Z) : Z := Qfloor (backoff o n - rand_factor o * backoff o n)%Q.
Definition hi (o : opts) (n : Z) : Z := Qceiling (backoff o n + rand_factor o * backoff o n)%Q.

(** Option sets the band theorem speaks about. *)
Definition wf_opts (o : opts) : Prop :=
  0 <= init_backoff o /\ 0 <= max_backoff o /\
  (0 <= multiplier o)%Q /\ (0 <= rand_factor o)%Q /\ (rand_factor o <= 1)%Q.

(** * The Next / NextCh / Reset state machine *)

Inductive sel := SelTimer | SelCloser | SelCtx.

Inductive phase :=
| PIdle                                   (* not inside Next *)
| PArmed (d el : Z) (fired : bool)        (* time.After(d) evaluated [el] ago, select not polled yet *)
| PBlocked (d el : Z).                    (* select polled, nothing was ready: parked *)

Inductive chan := ChClosed | ChNil | ChTimer (d : Z).

Inductive label :=
| LCallNext (u : Q)        (* user calls Next; [u] is what rand.Float64 would return *)
| LCallNextCh (u : Q)      (* user calls NextCh *)
| LReset                   (* user calls Reset *)
| LTick (dt : Z)           (* time passes *)
| LTimerFires              (* the runtime sends on the time.After channel *)
| LCloserClosed            (* opts.Closer is closed *)
| LCtxCancelled            (* ctx.Done() is closed *)
| LPoll (pick : option sel). (* Next's select looks at its cases; [None] = none ready *)

Inductive obs :=
| ONone
| OYield (b : bool)        (* Next returned b *)
| OChan (c : chan)         (* NextCh returned c *)
| OResetDone (effective : bool).

Record rstate := {
  ropts : opts;            (* already normalised *)
  cur : Z;                 (* currentAttempt *)
  is_reset : bool;         (* isReset *)
  closed : bool;           (* opts.Closer is closed *)
  cancelled : bool;        (* ctxDoneChan is closed *)
  ph : phase;
  (* ghost fields: written, never read by a guard *)
  g_now : Z;               (* current instant *)
  g_call_at : Z;           (* instant of the last call of Next *)
  g_u : Q;                 (* jitter draw of the last retryIn *)
  g_attempts : Z;          (* attempts yielded since the last effective Reset *)
  g_clean : bool;          (* an effective Reset happened and only Next was used since *)
}.

(** The part of the state the code's behaviour depends on. *)
Definition core (s : rstate) := (ropts s, cur s, is_reset s, closed s, cancelled s, ph s).

(** [StartWithCtx]: normalise, then [Reset] (which does nothing if the closer
    is already closed or the context already cancelled). *)
Definition start (o : opts) (closed0 cancelled0 : bool) : rstate :=
  let eff := negb (closed0 || cancelled0) in
  {| ropts := normalize o; cur := 0; is_reset := eff;
     closed := closed0; cancelled := cancelled0; ph := PIdle;
     g_now := 0; g_call_at := 0; g_u := 0; g_attempts := 0; g_clean := eff |}.

(** rand.Float64 returns a value in [0,1). *)
Definition u_ok (u : Q) : bool := Qle_bool 0 u && negb (Qle_bool 1 u).

Definition max_reached_next (s : rstate) : bool :=
  (0 <? max_retries (ropts s)) && (max_retries (ropts s) <=? cur s).

Definition set_ph (s : rstate) (p : phase) : rstate :=
  {| ropts := ropts s; cur := cur s; is_reset := is_reset s; closed := closed s;
     cancelled := cancelled s; ph := p; g_now := g_now s; g_call_at := g_call_at s;
     g_u := g_u s; g_attempts := g_attempts s; g_clean := g_clean s |}.

(** The timer case of Next's select: [r.currentAttempt++; return true]. *)
Definition yield_timer (s : rstate) : rstate :=
  {| ropts := ropts s; cur := cur s + 1; is_reset := is_reset s; closed := closed s;
     cancelled := cancelled s; ph := PIdle; g_now := g_now s; g_call_at := g_call_at s;
     g_u := g_u s; g_attempts := g_attempts s + 1; g_clean := g_clean s |}.

Definition ready (s : rstate) (fired : bool) (c : sel) : bool :=
  match c with SelTimer => fired | SelCloser => closed s | SelCtx => cancelled s end.

Definition step (s : rstate) (l : label) : option (rstate * obs) :=
  match l with
  | LCallNext u =>
      if negb (u_ok u) then None else
      match ph s with
      | PIdle =>
          if is_reset s then
            Some ({| ropts := ropts s; cur := cur s; is_reset := false; closed := closed s;
                     cancelled := cancelled s; ph := PIdle; g_now := g_now s; g_call_at := g_now s;
                     g_u := g_u s; g_attempts := g_attempts s + 1; g_clean := g_clean s |}, OYield true)
          else if max_reached_next s then
            Some ({| ropts := ropts s; cur := cur s; is_reset := false; closed := closed s;
                     cancelled := cancelled s; ph := PIdle; g_now := g_now s; g_call_at := g_now s;
                     g_u := g_u s; g_attempts := g_attempts s; g_clean := g_clean s |}, OYield false)
          else
            Some ({| ropts := ropts s; cur := cur s; is_reset := false; closed := closed s;
                     cancelled := cancelled s; ph := PArmed (retry_in (ropts s) (cur s) u) 0 false;
                     g_now := g_now s; g_call_at := g_now s;
                     g_u := u; g_attempts := g_attempts s; g_clean := g_clean s |}, ONone)
      | _ => None
      end
  | LCallNextCh u =>
      if negb (u_ok u) then None else
      match ph s with
      | PIdle =>
          if is_reset s then
            Some ({| ropts := ropts s; cur := cur s; is_reset := false; closed := closed s;
                     cancelled := cancelled s; ph := PIdle; g_now := g_now s; g_call_at := g_call_at s;
                     g_u := g_u s; g_attempts := g_attempts s + 1; g_clean := false |}, OChan ChClosed)
          else
            let c := cur s + 1 in
            if (0 <? max_retries (ropts s)) && (max_retries (ropts s) <? c) then
              Some ({| ropts := ropts s; cur := c; is_reset := false; closed := closed s;
                       cancelled := cancelled s; ph := PIdle; g_now := g_now s; g_call_at := g_call_at s;
                       g_u := g_u s; g_attempts := g_attempts s; g_clean := false |}, OChan ChNil)
            else
              Some ({| ropts := ropts s; cur := c; is_reset := false; closed := closed s;
                       cancelled := cancelled s; ph := PIdle; g_now := g_now s; g_call_at := g_call_at s;
                       g_u := u; g_attempts := g_attempts s + 1; g_clean := false |},
                    OChan (ChTimer (retry_in (ropts s) c u)))
      | _ => None
      end
  | LReset =>
      match ph s with
      | PIdle =>
          if closed s || cancelled s then Some (s, OResetDone false)
          else
            Some ({| ropts := ropts s; cur := 0; is_reset := true; closed := closed s;
                     cancelled := cancelled s; ph := PIdle; g_now := g_now s; g_call_at := g_call_at s;
                     g_u := g_u s; g_attempts := 0; g_clean := true |}, OResetDone true)
      | _ => None
      end
  | LTick dt =>
      if dt <? 0 then None else
      let p := match ph s with
               | PIdle => PIdle
               | PArmed d el f => PArmed d (el + dt) f
               | PBlocked d el => PBlocked d (el + dt)
               end in
      Some ({| ropts := ropts s; cur := cur s; is_reset := is_reset s; closed := closed s;
               cancelled := cancelled s; ph := p; g_now := g_now s + dt; g_call_at := g_call_at s;
               g_u := g_u s; g_attempts := g_attempts s; g_clean := g_clean s |}, ONone)
  | LTimerFires =>
      match ph s with
      | PArmed d el false => if d <=? el then Some (set_ph s (PArmed d el true), ONone) else None
      | PBlocked d el => if d <=? el then Some (yield_timer s, OYield true) else None
      | _ => None
      end
  | LCloserClosed =>
      if closed s then None else
      let s' := {| ropts := ropts s; cur := cur s; is_reset := is_reset s; closed := true;
                   cancelled := cancelled s; ph := ph s; g_now := g_now s; g_call_at := g_call_at s;
                   g_u := g_u s; g_attempts := g_attempts s; g_clean := g_clean s |} in
      match ph s with
      | PBlocked _ _ => Some (set_ph s' PIdle, OYield false)
      | _ => Some (s', ONone)
      end
  | LCtxCancelled =>
      if cancelled s then None else
      let s' := {| ropts := ropts s; cur := cur s; is_reset := is_reset s; closed := closed s;
                   cancelled := true; ph := ph s; g_now := g_now s; g_call_at := g_call_at s;
                   g_u := g_u s; g_attempts := g_attempts s; g_clean := g_clean s |} in
      match ph s with
      | PBlocked _ _ => Some (set_ph s' PIdle, OYield false)
      | _ => Some (s', ONone)
      end
  | LPoll pick =>
      match ph s with
      | PArmed d el fired =>
          match pick with
          | Some c =>
              if ready s fired c then
                match c with
                | SelTimer => Some (yield_timer s, OYield true)
                | _ => Some (set_ph s PIdle, OYield false)
                end
              else None
          | None =>
              if fired || closed s || cancelled s then None
              else Some (set_ph s (PBlocked d el), ONone)
          end
      | _ => None
      end
  end.

(** Running a label list from a state; [None] if some label is not enabled. *)
Fixpoint run (s : rstate) (ls : list label) : option (rstate * list obs) :=
  match ls with
  | [] => Some (s, [])
  | l :: tl =>
      match step s l with
      | Some (s', o) =>
          match run s' tl with
          | Some (s'', os) => Some (s'', o :: os)
          | None => None
          end
      | None => None
      end
  end.

Inductive reachable (o : opts) (c0 x0 : bool) : rstate -> Prop :=
| reach_start : reachable o c0 x0 (start o c0 x0)
| reach_step s l s' ob : reachable o c0 x0 s -> step s l = Some (s', ob) -> reachable o c0 x0 s'.

(** * WithMaxAttempts (as repaired by /repo commit 7eb790f):

      opts.MaxRetries = n - 1; attempts := 0
      for r := StartWithCtx(ctx, opts); r.Next(); {
        err = fn(); if err == nil { return nil }
        if attempts++; attempts >= n { break }
      }
      if err == nil { err = <a non-nil error, whether or not ctx.Err() is nil> }
      return err

    composed with the machine above.  [succ k] is the outcome of the k-th call
    of [fn] (from 0): the success pattern. *)

Inductive wres := WNil | WErr.

Inductive wpc :=
| WArgError                  (* n <= 0: returned an error without starting *)
| WLoop                      (* at or inside r.Next(), or inside fn *)
| WDone (r : wres).

Record wstate := { wr : rstate; wn : Z; wcalls : Z; wpc_ : wpc }.

Definition with_max (o : opts) (n : Z) : opts :=
  {| init_backoff := init_backoff o; max_backoff := max_backoff o; multiplier := multiplier o;
     max_retries := n - 1; rand_factor := rand_factor o |}.

Definition wstart (o : opts) (n : Z) (c0 x0 : bool) : wstate :=
  {| wr := start (with_max o n) c0 x0; wn := n; wcalls := 0;
     wpc_ := if n <=? 0 then WArgError else WLoop |}.

(** After the loop.  [calls = 0] is [err == nil]: the function was never
    called; both branches of the repaired code produce a non-nil error. *)
Definition after_loop (r : rstate) (calls : Z) : wres :=
  if 0 <? calls then WErr else if cancelled r then WErr else WErr.

Definition wstep (succ : Z -> bool) (w : wstate) (l : label) : option wstate :=
  match wpc_ w with
  | WLoop =>
      match l with
      | LReset | LCallNextCh _ => None       (* the loop only calls Next *)
      | _ =>
          match step (wr w) l with
          | Some (r', OYield true) =>
              if succ (wcalls w)
              then Some {| wr := r'; wn := wn w; wcalls := wcalls w + 1; wpc_ := WDone WNil |}
              else if wn w <=? wcalls w + 1
              then Some {| wr := r'; wn := wn w; wcalls := wcalls w + 1; wpc_ := WDone WErr |}
              else Some {| wr := r'; wn := wn w; wcalls := wcalls w + 1; wpc_ := WLoop |}
          | Some (r', OYield false) =>
              Some {| wr := r'; wn := wn w; wcalls := wcalls w; wpc_ := WDone (after_loop r' (wcalls w)) |}
          | Some (r', _) => Some {| wr := r'; wn := wn w; wcalls := wcalls w; wpc_ := WLoop |}
          | None => None
          end
      end
  | _ => None
  end.

Inductive wreachable (succ : Z -> bool) (o : opts) (n : Z) (c0 x0 : bool) : wstate -> Prop :=
| wreach_start : wreachable succ o n c0 x0 (wstart o n c0 x0)
| wreach_step w l w' : wreachable succ o n c0 x0 w -> wstep succ w l = Some w' -> wreachable succ o n c0 x0 w'.

Fixpoint wrun (succ : Z -> bool) (w : wstate) (ls : list label) : option wstate :=
  match ls with
  | [] => Some w
  | l :: tl => match wstep succ w l with Some w' => wrun succ w' tl | None => None end
  end.
