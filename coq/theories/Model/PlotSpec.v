(** C19 — the statement of the property, written independently of the loops of
    Model/Plot.v as filters over the collected data and positions in the
    filtered lists ("the i-th shown ..." = [mapi]).  Shared with Plot.v: the
    data types, the file-name / title strings ([csv_file], [audit_file],
    [curve_title], [group_title]) — the property does not constrain their
    spelling — and the comparison of a possibly infinite time with a bound.
    No proofs here. *)
From Shk Require Import Base.Prelude Model.Plot.
Local Open Scope list_scope.
Local Open Scope Z_scope.

(** [mapi f l] = [f 0 x0; f 1 x1; ...]. *)
Fixpoint mapi_from {A B} (f : nat -> A -> B) (i : nat) (l : list A) : list B :=
  match l with
  | [] => []
  | x :: tl => f i x :: mapi_from f (S i) tl
  end.
Definition mapi {A B} (f : nat -> A -> B) (l : list A) : list B := mapi_from f 0 l.

Definition not_last {A} (i : nat) (l : list A) : bool := Nat.ltb (S i) (List.length l).

(** ** The action box: one lane per actor that performed an action, cast order *)
Definition lane_names (d : collected) : list str := map a_name (filter a_has (c_actors d)).

Definition spec_action_box (d : collected) : list directive :=
  let names := lane_names d in
  DActionBox (Z.of_nat (List.length names) + 1) ::
  match names with
  | [] => [DNothing]
  | _ => DPlot :: mapi (fun i nm => DLane nm (Z.of_nat i + 1) (not_last i names)) names
  end.

(** ** One box per member that received data and is not `only helps` *)
Definition shown (m : member) : bool := m_has m && negb (m_noplot m).
Definition shown_members (d : collected) : list member := filter shown (c_members d).

(** one curve per watched signal / variable that received data *)
Definition shown_vars (m : member) : list wvar := filter w_has (m_vars m).

(** events sit on their own lane: lane 1 + the number of event curves before *)
Definition lane_of (before : list wvar) : Z := 1 + Z.of_nat (List.length (filter w_events before)).

Definition spec_curve (obs : str) (vs : list wvar) (i : nat) (v : wvar) : curve :=
  {| k_file := csv_file obs (w_actor v) (w_sig v);
     k_style := if w_events v then SEvent (lane_of (firstn i vs)) (lane_of (firstn i vs)) else SLine;
     k_title := curve_title (w_actor v) (w_sig v) |}.

Definition spec_curves (m : member) : list curve :=
  mapi (spec_curve (m_name m) (shown_vars m)) (shown_vars m).

(** ... followed by the member's audit verdicts (when it has any) *)
Definition spec_verdicts (m : member) : list curve :=
  if m_audit_has m then
    [ {| k_file := audit_file (m_name m); k_style := SFace; k_title := [] |};
      {| k_file := audit_file (m_name m); k_style := SVerdict; k_title := [] |} ]
  else [].

Definition spec_box (m : member) : list directive :=
  let cs := spec_curves m ++ spec_verdicts m in
  let nev := List.length (filter w_events (shown_vars m)) in
  DGroup (group_title m) (match nev with O => None | _ => Some (Z.of_nat nev + 1) end) (m_ylabel m)
  :: DPlot
  :: mapi (fun i c => DCurve (k_file c) (k_style c) (k_title c) (not_last i cs)) cs.

(** ** Mood bands: every period that intersects the window, clipped to it *)
Definition visible (lo20 hi20 : Z) (p : mperiod) : bool :=
  negb (xt_ge (p_start p) hi20) && negb (xt_le (p_end p) lo20).

Definition clip_start (lo20 : Z) (t : xtime) : xbound :=
  match t with
  | Fin us => if lo20 <=? 20 * us then BFirst us else BGraph0
  | _ => BGraph0
  end.
Definition clip_end (hi20 : Z) (t : xtime) : xbound :=
  match t with
  | Fin us => if 20 * us <=? hi20 then BFirst us else BGraph1
  | _ => BGraph1
  end.

Definition spec_bands (lo20 hi20 : Z) (d : collected) : list directive :=
  mapi (fun i p => DRect (Z.of_nat i + 1) (clip_start lo20 (p_start p)) (clip_end hi20 (p_end p)) (p_mood p))
       (filter (visible lo20 hi20) (c_moods d)).

Definition spec_unset_bands (lo20 hi20 : Z) (d : collected) : list directive :=
  mapi (fun i (_ : mperiod) => DUnsetObject (Z.of_nat i + 1)) (filter (visible lo20 hi20) (c_moods d)).

(** ** Act starts after the first, inside the window *)
Definition spec_lines (lo20 : Z) (d : collected) : list directive :=
  map DArrow (filter (fun ts => lo20 <=? 20 * ts) (map fst (tl (c_acts d)))).

(** ** The whole script for the window [minT, maxT] *)
Definition spec_script (d : collected) (minT maxT : Z) : list directive :=
  let lo20 := 20 * minT - (maxT - minT) in
  let hi20 := 20 * maxT + (maxT - minT) in
  [DHeader; DMultiplot (Z.of_nat (List.length (shown_members d)) + 1); DMarginsFaces;
   DXRange lo20 hi20;
   if c_appmax d <? 10000000 then DXTics 1 2 else DXTics 5 5]
  ++ spec_lines lo20 d
  ++ spec_action_box d
  ++ spec_bands lo20 hi20 d
  ++ flat_map spec_box (shown_members d)
  ++ spec_unset_bands lo20 hi20 d
  ++ [DUnsetArrow; DUnsetMultiplot].

(** ** The repeated section: zoom on the last repetitions *)

(** start times of the act [r] *)
Definition occurrences (r : Z) (acts : list actchange) : list Z :=
  map fst (filter (fun a => snd a =? r) acts).

(** the next-to-last start of the repeated act if it started at least twice,
    its only start if it started once, nothing otherwise *)
Definition spec_repeat_start (r : Z) (acts : list actchange) : option Z :=
  if 0 <? r then
    match rev (occurrences r acts) with
    | _ :: before :: _ => Some before
    | [only] => Some only
    | [] => None
    end
  else None.

(** ** Mood periods: the maximal non-clear stretches *)

(** drop the mood changes that change nothing *)
Fixpoint effective (prev : str) (evs : list (Z * str)) : list (Z * str) :=
  match evs with
  | [] => []
  | (t, m) :: tl => if bytes_eqb m prev then effective prev tl else (t, m) :: effective m tl
  end.

(** each effective change lasts until the next one, the last until the end *)
Fixpoint spans (evs : list (Z * str)) (final : Z) : list mperiod :=
  match evs with
  | [] => []
  | (t, m) :: tl =>
      {| p_start := Fin t; p_end := Fin (match tl with (t', _) :: _ => t' | [] => final end); p_mood := m |}
      :: spans tl final
  end.

Definition spec_mood_periods (evs : list (Z * str)) (final : Z) : list mperiod :=
  filter (fun p => negb (is_clear (p_mood p))) (spans (effective clear evs) final).

(** * Projections of a script (used by the corollaries and by the oracle) *)
Definition xranges (ds : list directive) : list (Z * Z) :=
  flat_map (fun x => match x with DXRange a b => [(a, b)] | _ => [] end) ds.
Definition lanes_of (ds : list directive) : list (str * Z) :=
  flat_map (fun x => match x with DLane nm y _ => [(nm, y)] | _ => [] end) ds.
Definition bands_of (ds : list directive) : list (xbound * xbound * str) :=
  flat_map (fun x => match x with DRect _ a b m => [(a, b, m)] | _ => [] end) ds.
Definition lines_of (ds : list directive) : list Z :=
  flat_map (fun x => match x with DArrow t => [t] | _ => [] end) ds.

(** the curves directly following a box header *)
Fixpoint curves_prefix (ds : list directive) : list (str * cstyle) :=
  match ds with
  | DPlot :: tl => curves_prefix tl
  | DCurve f s _ _ :: tl => (f, s) :: curves_prefix tl
  | _ => []
  end.
Fixpoint boxes_of (ds : list directive) : list (str * list (str * cstyle)) :=
  match ds with
  | [] => []
  | DGroup t _ _ :: tl => (t, curves_prefix tl) :: boxes_of tl
  | _ :: tl => boxes_of tl
  end.


(** what a box shows: its title and the (file, style) of its curves *)
Definition box_view (m : member) : str * list (str * cstyle) :=
  (group_title m, map (fun c => (k_file c, k_style c)) (spec_curves m ++ spec_verdicts m)).

