(** Model of pkg/cmd/pred_fsm.go (table evaluator) and of the reporting /
    reset logic of processFsmStateChange (pkg/cmd/audit.go), property C01.

    The tables themselves are *not* written here: coq/gen/FsmTables.v is
    regenerated from pred_fsm.go by the translator on every run. *)
From Shk Require Import Base.Prelude.
From Coq Require Import String.
Open Scope string_scope.

Record fsm_table := {
  f_name : string;
  f_start : nat;
  f_states : list string;     (* stateNames *)
  f_labels : list string;     (* labels *)
  f_edges : list (list nat);  (* edges[state][label index] *)
}.

(** makeFsmEval builds labelMap by iterating over labels: a duplicate label
    keeps its *last* index. *)
Fixpoint last_index_aux (l : string) (ls : list string) (i : nat) (found : option nat) : option nat :=
  match ls with
  | [] => found
  | x :: tl => last_index_aux l tl (S i) (if String.eqb x l then Some i else found)
  end.
Definition label_index (tbl : fsm_table) (l : string) : option nat :=
  last_index_aux l (f_labels tbl) 0 None.

(** advance: unknown label panics; edges[cur][l] out of range panics.  [None]
    models the panic. *)
Definition advance (tbl : fsm_table) (q : nat) (l : string) : option nat :=
  match label_index tbl l with
  | None => None
  | Some li => match nth_error (f_edges tbl) q with
               | None => None
               | Some row => nth_error row li
               end
  end.

Definition state_name (tbl : fsm_table) (q : nat) : option string := nth_error (f_states tbl) q.

Inductive verdict := VGood | VBad | VInfo.     (* resOk = 0, resFailure = 2, resInfo = 3 *)
Definition is_bad (v : verdict) : bool := match v with VBad => true | _ => false end.
Definition is_good (v : verdict) : bool := match v with VGood => true | _ => false end.
Definition verdict_code (v : verdict) : Z := match v with VGood => 0%Z | VBad => 2%Z | VInfo => 3%Z end.

(** processFsmStateChange: advance, classify by the NAME of the new state, and
    after "bad" take the "reset" edge (and log the name of the state reached). *)
Definition step_report (tbl : fsm_table) (q : nat) (l : string) : option (nat * verdict) :=
  match state_name tbl q with          (* prevState := as.eval.state() *)
  | None => None
  | Some _ =>
    match advance tbl q l with
    | None => None
    | Some q' =>
      match state_name tbl q' with
      | None => None
      | Some n =>
          if String.eqb n "good" then Some (q', VGood)
          else if String.eqb n "bad" then
                 match advance tbl q' "reset" with
                 | None => None
                 | Some q'' => match state_name tbl q'' with
                               | None => None
                               | Some _ => Some (q'', VBad)
                               end
                 end
          else Some (q', VInfo)
      end
    end
  end.

Definition lbl (b : bool) : string := if b then "t" else "f".

(** One activation period: the observations, then the "end" edge.  The result
    is the list of verdicts reported, or [None] if the Go code would panic. *)
Fixpoint run_from (tbl : fsm_table) (q : nat) (tr : list bool) : option (list verdict) :=
  match tr with
  | [] => match step_report tbl q "end" with
          | Some (_, v) => Some [v]
          | None => None
          end
  | b :: tr' => match step_report tbl q (lbl b) with
                | Some (q', v) => option_map (cons v) (run_from tbl q' tr')
                | None => None
                end
  end.

Definition run_period (tbl : fsm_table) (tr : list bool) : option (list verdict) :=
  match state_name tbl (f_start tbl) with     (* startOfAuditPeriod logs the start state's name *)
  | None => None
  | Some _ => run_from tbl (f_start tbl) tr
  end.

Definition disappointed (vs : list verdict) : bool := existsb is_bad vs.
Definition ends_satisfied (vs : list verdict) : bool := is_good (last vs VInfo).

(** Arbitrary label sequences (what the hook is driven with): t / f / end /
    reset / an unknown label, in any order. *)
Fixpoint run_labels (tbl : fsm_table) (q : nat) (ls : list string) : option (list verdict) :=
  match ls with
  | [] => Some []
  | l :: tl => match step_report tbl q l with
               | Some (q', v) => option_map (cons v) (run_labels tbl q' tl)
               | None => None
               end
  end.

(** The map [automata]: r[f.name] = f in list order, so a later table with the
    same name replaces an earlier one. *)
Fixpoint lookup_last (n : string) (reg : list fsm_table) (found : option fsm_table) : option fsm_table :=
  match reg with
  | [] => found
  | t :: tl => lookup_last n tl (if String.eqb (f_name t) n then Some t else found)
  end.
Definition lookup (reg : list fsm_table) (n : string) : option fsm_table := lookup_last n reg None.
