(** Model of pkg/crdb/stop/stopper.go as a labelled transition system.

    One label = one atomic step of one goroutine: a region executed under
    [s.mu] (runPrelude, runPostlude, AddCloser, withCancel, the delete in the
    returned cancel function, the first region of Stop, each locked stretch of
    Quiesce, the region of Stop that closes [stopper]), one channel operation
    (a case of the [select]s of RunLimitedAsyncTask, [<-sem], [close(stopped)]),
    one WaitGroup operation ([Add], [Done], [Wait] returning), or the begin /
    end of a user callback.  The only region that spans two labels is the last
    one of Stop (closers are called, then [stopped] is closed, with the mutex
    held in between): [mu_held] is true in between and disables every other
    label that needs the mutex.

    Goroutines are explicit: every call of the API creates a record with its
    own program counter, so that any number of RunTask / RunAsyncTask /
    RunLimitedAsyncTask / RunWorker / AddCloser / WithCancelOn* / Stop /
    Quiesce calls interleave in every possible way.  "For every schedule" is
    "for every label list".

    Go panics are an explicit outcome ([Panics]): closing a closed channel and
    a negative WaitGroup counter.  [<-sem] on an empty semaphore blocks
    ([NotEnabled]).

    The fields [clock], [g_*], [*_at], [w_counted], [c_after_stop] are history
    variables: they record when things happened and influence no transition.

    No proofs here. *)
From Shk Require Import Base.Prelude.
Open Scope nat_scope.

(** * Data *)

Inductive ret := RNil | RUnavailable | RThrottled | RCanceled.

Inductive tkind :=
| KSync                                   (* RunTask *)
| KAsync                                  (* RunAsyncTask *)
| KLimited (sem : nat) (wait : bool) (ctx : option nat).
                                          (* RunLimitedAsyncTask on semaphore [sem];
                                             ctx = Some x: the context returned by the x-th
                                             WithCancelOn* call, None: a context never cancelled *)

Inductive tpc :=
| TSem0        (* limited: at the first select (with default) *)
| TSemWait     (* limited, wait=true: at the second select (no default) *)
| TCtxCheck    (* limited: got the slot, about to test ctx.Done() *)
| TPre         (* about to call runPrelude *)
| TRelRefused  (* limited: runPrelude said no, about to <-sem *)
| TAccepted    (* runPrelude said yes; f has not begun *)
| TBody        (* f is running *)
| TBodyDone    (* limited: f returned, about to <-sem *)
| TPost        (* about to call runPostlude *)
| TDone        (* runPostlude done *)
| TRefused.    (* the call returned an error; f is never called *)

Record task := {
  tk : tkind;
  pc : tpc;
  t_ret : option ret;            (* what the call returned, once it has *)
  t_acc_at : option nat;         (* history: step of the successful runPrelude *)
  t_begin_at : option nat;       (* history: f began *)
  t_end_at : option nat;         (* history: f returned *)
  t_post_at : option nat;        (* history: runPostlude *)
  t_panicked : bool              (* history: f panicked (the deferred calls ran during unwinding) *)
}.

Inductive wpc := WBody | WBodyDone | WDone.
Record worker := {
  wp : wpc;
  w_start_at : nat;              (* history: step of stop.Add(1) *)
  w_counted : bool;              (* history: Add(1) happened before Stop's stop.Wait() returned *)
  w_end_at : option nat          (* history: f returned *)
}.

Record closer := {
  c_listed : bool;               (* is in mu.closers *)
  c_calls : nat;                 (* how many times Close() was called *)
  c_added_at : nat;              (* history *)
  c_after_stop : bool;           (* history: AddCloser found [stopper] closed *)
  c_called_at : option nat       (* history: step of the (last) call *)
}.

Record cctx := {
  x_onq : bool;                  (* true: WithCancelOnQuiesce, false: WithCancelOnStop *)
  x_cancelled : bool;            (* the child context is cancelled *)
  x_registered : bool;           (* its cancel function is in mu.qCancels / mu.sCancels *)
  x_noop : bool;                 (* the returned function is [func() {}] *)
  x_mid : bool                   (* the returned function ran cancel() and is about to lock and delete *)
}.

Inductive spc :=
| SEnter       (* Stop: before its first locked region *)
| SQuiesce     (* Stop or Quiesce: before Quiesce's first locked region *)
| SQWait       (* in mu.quiesce.Wait() (mutex released) *)
| SQWoken      (* woken by a Broadcast, about to re-lock and test numTasks *)
| SStopClose   (* Stop: Quiesce returned; about to lock, cancel sCancels, close(stopper) *)
| SWgWait      (* Stop: in stop.Wait() *)
| SClosers     (* Stop: about to lock and call the closers *)
| SStopped     (* Stop: closers called, mutex held, about to close(stopped) *)
| SReturned.
Record sthread := { s_is_stop : bool; sp : spc }.

Record ghost := {
  g_quiesce_at : option nat;     (* quiescer closed *)
  g_drained_at : option nat;     (* Stop's Quiesce saw numTasks = 0 *)
  g_stop_at : option nat;        (* stopper closed *)
  g_wgdone_at : option nat;      (* Stop's stop.Wait() returned *)
  g_closers_at : option nat;     (* Stop called the registered closers *)
  g_stopped_at : option nat      (* stopped closed *)
}.

Record st := {
  clock : nat;
  mu_held : bool;                (* only between LClosersRun and LStoppedClose *)
  quiescing : bool;              (* mu.quiescing; the quiescer channel is closed iff true *)
  num_tasks : Z;                 (* mu.numTasks *)
  stop_called : bool;            (* mu.stopCalled *)
  stop_ch : bool;                (* stopper channel closed *)
  stopped_ch : bool;             (* stopped channel closed *)
  wg : Z;                        (* counter of the WaitGroup [stop] *)
  sems : list (nat * nat);       (* caller-owned semaphores: (capacity, length) *)
  tasks : list task;
  workers : list worker;
  closers : list closer;         (* every closer ever passed to AddCloser, in call order *)
  ctxs : list cctx;
  sthreads : list sthread;       (* the Stop and Quiesce calls *)
  gh : ghost
}.

Definition ghost0 : ghost := Build_ghost None None None None None None.

Definition init (caps : list nat) : st :=
  {| clock := 0; mu_held := false; quiescing := false; num_tasks := 0%Z; stop_called := false;
     stop_ch := false; stopped_ch := false; wg := 0%Z;
     sems := map (fun c => (c, 0)) caps;
     tasks := []; workers := []; closers := []; ctxs := []; sthreads := []; gh := ghost0 |}.

(** * Setters (Coq 8.16 has no record update) *)

Definition set_tasks s v :=
  {| clock := clock s; mu_held := mu_held s; quiescing := quiescing s; num_tasks := num_tasks s;
     stop_called := stop_called s; stop_ch := stop_ch s; stopped_ch := stopped_ch s; wg := wg s;
     sems := sems s; tasks := v; workers := workers s; closers := closers s; ctxs := ctxs s;
     sthreads := sthreads s; gh := gh s |}.
Definition set_sems s v :=
  {| clock := clock s; mu_held := mu_held s; quiescing := quiescing s; num_tasks := num_tasks s;
     stop_called := stop_called s; stop_ch := stop_ch s; stopped_ch := stopped_ch s; wg := wg s;
     sems := v; tasks := tasks s; workers := workers s; closers := closers s; ctxs := ctxs s;
     sthreads := sthreads s; gh := gh s |}.
Definition set_num_tasks s v :=
  {| clock := clock s; mu_held := mu_held s; quiescing := quiescing s; num_tasks := v;
     stop_called := stop_called s; stop_ch := stop_ch s; stopped_ch := stopped_ch s; wg := wg s;
     sems := sems s; tasks := tasks s; workers := workers s; closers := closers s; ctxs := ctxs s;
     sthreads := sthreads s; gh := gh s |}.
Definition set_workers s v (n : Z) :=
  {| clock := clock s; mu_held := mu_held s; quiescing := quiescing s; num_tasks := num_tasks s;
     stop_called := stop_called s; stop_ch := stop_ch s; stopped_ch := stopped_ch s; wg := n;
     sems := sems s; tasks := tasks s; workers := v; closers := closers s; ctxs := ctxs s;
     sthreads := sthreads s; gh := gh s |}.
Definition set_closers s v :=
  {| clock := clock s; mu_held := mu_held s; quiescing := quiescing s; num_tasks := num_tasks s;
     stop_called := stop_called s; stop_ch := stop_ch s; stopped_ch := stopped_ch s; wg := wg s;
     sems := sems s; tasks := tasks s; workers := workers s; closers := v; ctxs := ctxs s;
     sthreads := sthreads s; gh := gh s |}.
Definition set_ctxs s v :=
  {| clock := clock s; mu_held := mu_held s; quiescing := quiescing s; num_tasks := num_tasks s;
     stop_called := stop_called s; stop_ch := stop_ch s; stopped_ch := stopped_ch s; wg := wg s;
     sems := sems s; tasks := tasks s; workers := workers s; closers := closers s; ctxs := v;
     sthreads := sthreads s; gh := gh s |}.
Definition set_sthreads s v :=
  {| clock := clock s; mu_held := mu_held s; quiescing := quiescing s; num_tasks := num_tasks s;
     stop_called := stop_called s; stop_ch := stop_ch s; stopped_ch := stopped_ch s; wg := wg s;
     sems := sems s; tasks := tasks s; workers := workers s; closers := closers s; ctxs := ctxs s;
     sthreads := v; gh := gh s |}.
Definition set_stop_called s :=
  {| clock := clock s; mu_held := mu_held s; quiescing := quiescing s; num_tasks := num_tasks s;
     stop_called := true; stop_ch := stop_ch s; stopped_ch := stopped_ch s; wg := wg s;
     sems := sems s; tasks := tasks s; workers := workers s; closers := closers s; ctxs := ctxs s;
     sthreads := sthreads s; gh := gh s |}.
Definition set_quiescing s (g : ghost) :=
  {| clock := clock s; mu_held := mu_held s; quiescing := true; num_tasks := num_tasks s;
     stop_called := stop_called s; stop_ch := stop_ch s; stopped_ch := stopped_ch s; wg := wg s;
     sems := sems s; tasks := tasks s; workers := workers s; closers := closers s; ctxs := ctxs s;
     sthreads := sthreads s; gh := g |}.
Definition set_gh s (g : ghost) :=
  {| clock := clock s; mu_held := mu_held s; quiescing := quiescing s; num_tasks := num_tasks s;
     stop_called := stop_called s; stop_ch := stop_ch s; stopped_ch := stopped_ch s; wg := wg s;
     sems := sems s; tasks := tasks s; workers := workers s; closers := closers s; ctxs := ctxs s;
     sthreads := sthreads s; gh := g |}.
Definition set_stop_ch s (g : ghost) :=
  {| clock := clock s; mu_held := mu_held s; quiescing := quiescing s; num_tasks := num_tasks s;
     stop_called := stop_called s; stop_ch := true; stopped_ch := stopped_ch s; wg := wg s;
     sems := sems s; tasks := tasks s; workers := workers s; closers := closers s; ctxs := ctxs s;
     sthreads := sthreads s; gh := g |}.
Definition set_mu s (b : bool) :=
  {| clock := clock s; mu_held := b; quiescing := quiescing s; num_tasks := num_tasks s;
     stop_called := stop_called s; stop_ch := stop_ch s; stopped_ch := stopped_ch s; wg := wg s;
     sems := sems s; tasks := tasks s; workers := workers s; closers := closers s; ctxs := ctxs s;
     sthreads := sthreads s; gh := gh s |}.
Definition set_stopped_ch s (g : ghost) :=
  {| clock := clock s; mu_held := false; quiescing := quiescing s; num_tasks := num_tasks s;
     stop_called := stop_called s; stop_ch := stop_ch s; stopped_ch := true; wg := wg s;
     sems := sems s; tasks := tasks s; workers := workers s; closers := closers s; ctxs := ctxs s;
     sthreads := sthreads s; gh := g |}.
Definition tick s :=
  {| clock := S (clock s); mu_held := mu_held s; quiescing := quiescing s; num_tasks := num_tasks s;
     stop_called := stop_called s; stop_ch := stop_ch s; stopped_ch := stopped_ch s; wg := wg s;
     sems := sems s; tasks := tasks s; workers := workers s; closers := closers s; ctxs := ctxs s;
     sthreads := sthreads s; gh := gh s |}.

Definition first_time (o : option nat) (now : nat) : option nat :=
  match o with Some _ => o | None => Some now end.

Definition g_set_quiesce g now :=
  Build_ghost (first_time (g_quiesce_at g) now) (g_drained_at g) (g_stop_at g) (g_wgdone_at g)
              (g_closers_at g) (g_stopped_at g).
Definition g_set_drained g now :=
  Build_ghost (g_quiesce_at g) (first_time (g_drained_at g) now) (g_stop_at g) (g_wgdone_at g)
              (g_closers_at g) (g_stopped_at g).
Definition g_set_stop g now :=
  Build_ghost (g_quiesce_at g) (g_drained_at g) (first_time (g_stop_at g) now) (g_wgdone_at g)
              (g_closers_at g) (g_stopped_at g).
Definition g_set_wgdone g now :=
  Build_ghost (g_quiesce_at g) (g_drained_at g) (g_stop_at g) (first_time (g_wgdone_at g) now)
              (g_closers_at g) (g_stopped_at g).
Definition g_set_closers g now :=
  Build_ghost (g_quiesce_at g) (g_drained_at g) (g_stop_at g) (g_wgdone_at g)
              (first_time (g_closers_at g) now) (g_stopped_at g).
Definition g_set_stopped g now :=
  Build_ghost (g_quiesce_at g) (g_drained_at g) (g_stop_at g) (g_wgdone_at g)
              (g_closers_at g) (first_time (g_stopped_at g) now).

(** * List update *)
Fixpoint upd {A} (l : list A) (i : nat) (x : A) : list A :=
  match l, i with
  | [], _ => []
  | _ :: tl, O => x :: tl
  | y :: tl, S i' => y :: upd tl i' x
  end.

(** * Small accessors *)
Definition sem_of (k : tkind) : option nat :=
  match k with KLimited sm _ _ => Some sm | _ => None end.
Definition is_limited (k : tkind) : bool :=
  match k with KLimited _ _ _ => true | _ => false end.
Definition is_sync (k : tkind) : bool :=
  match k with KSync => true | _ => false end.
Definition ctx_of (k : tkind) : option nat :=
  match k with KLimited _ _ c => c | _ => None end.
Definition wait_of (k : tkind) : bool :=
  match k with KLimited _ w _ => w | _ => false end.

Definition ctx_done (s : st) (c : option nat) : bool :=
  match c with
  | None => false
  | Some x => match nth_error (ctxs s) x with Some cx => x_cancelled cx | None => false end
  end.

Definition sem_room (s : st) (k : nat) : bool :=
  match nth_error (sems s) k with Some (cap, len) => len <? cap | None => false end.

(** [sem <- struct{}{}] and [<-sem]; [None] = the operation would block. *)
Definition sem_inc (s : st) (k : nat) : option (list (nat * nat)) :=
  match nth_error (sems s) k with
  | Some (cap, len) => if len <? cap then Some (upd (sems s) k (cap, S len)) else None
  | None => None
  end.
Definition sem_dec (s : st) (k : nat) : option (list (nat * nat)) :=
  match nth_error (sems s) k with
  | Some (cap, S len) => Some (upd (sems s) k (cap, len))
  | _ => None
  end.

Definition with_pc (t : task) (p : tpc) : task :=
  {| tk := tk t; pc := p; t_ret := t_ret t; t_acc_at := t_acc_at t; t_begin_at := t_begin_at t;
     t_end_at := t_end_at t; t_post_at := t_post_at t; t_panicked := t_panicked t |}.
Definition refuse (t : task) (r : ret) : task :=
  {| tk := tk t; pc := TRefused; t_ret := Some r; t_acc_at := t_acc_at t; t_begin_at := t_begin_at t;
     t_end_at := t_end_at t; t_post_at := t_post_at t; t_panicked := t_panicked t |}.

Definition new_task (k : tkind) : task :=
  {| tk := k; pc := if is_limited k then TSem0 else TPre; t_ret := None;
     t_acc_at := None; t_begin_at := None; t_end_at := None; t_post_at := None;
     t_panicked := false |}.

(** runPostlude's Broadcast: every goroutine in Wait() is woken. *)
Definition wake (th : sthread) : sthread :=
  match sp th with SQWait => {| s_is_stop := s_is_stop th; sp := SQWoken |} | _ => th end.

(** The loops over mu.qCancels / mu.sCancels. *)
Definition cancel_registered (onq : bool) (c : cctx) : cctx :=
  if x_registered c && Bool.eqb (x_onq c) onq
  then {| x_onq := x_onq c; x_cancelled := true; x_registered := x_registered c;
          x_noop := x_noop c; x_mid := x_mid c |}
  else c.

(** The loop over mu.closers in Stop. *)
Definition run_closer (now : nat) (c : closer) : closer :=
  if c_listed c
  then {| c_listed := true; c_calls := S (c_calls c); c_added_at := c_added_at c;
          c_after_stop := c_after_stop c; c_called_at := Some now |}
  else c.

(** * Labels *)
Inductive label :=
(* Run*Task *)
| LCallTask (k : tkind)       (* some goroutine calls RunTask / RunAsyncTask / RunLimitedAsyncTask *)
| LSemAcquire (i : nat)       (* select case  sem <- struct{}{} *)
| LSemQuiesced (i : nat)      (* select case  <-s.ShouldQuiesce() *)
| LSemCtxDone (i : nat)       (* select case  <-ctx.Done() *)
| LSemDefault (i : nat)       (* select default: ErrThrottled, or go on to the blocking select *)
| LCtxCheck (i : nat)         (* the select on ctx.Done() after the slot was obtained *)
| LPrelude (i : nat)          (* runPrelude *)
| LSemRelRefused (i : nat)    (* <-sem after runPrelude said no *)
| LBodyBegin (i : nat)        (* f(ctx) begins *)
| LBodyEnd (i : nat)          (* f(ctx) returns *)
| LBodyPanic (i : nat)        (* f(ctx) panics: the deferred calls run while the stack unwinds *)
| LSemRelease (i : nat)       (* deferred <-sem *)
| LPostlude (i : nat)         (* runPostlude *)
(* RunWorker *)
| LWorkerStart                (* stop.Add(1); go ... *)
| LWorkerBodyEnd (w : nat)    (* the worker's f returns or panics: stop.Done() is deferred either way *)
| LWorkerDone (w : nat)       (* stop.Done() *)
(* AddCloser, WithCancelOn* *)
| LAddCloser
| LWithCancel (onq : bool)
| LCancelFn (x : nat)         (* the returned function is called: cancel() *)
| LCancelDel (x : nat)        (* ... then lock; delete(cancels, id) *)
(* Stop, Quiesce *)
| LCallStop
| LCallQuiesce
| LStopEnter (j : nat)        (* lock; stopCalled := s.mu.stopCalled; s.mu.stopCalled = true; unlock *)
| LQuiesceSet (j : nat)       (* lock; cancel qCancels; quiescing = true, close(quiescer); test numTasks *)
| LQRecheck (j : nat)         (* Wait() re-locks; test numTasks *)
| LStopClose (j : nat)        (* lock; cancel sCancels; close(stopper); unlock *)
| LWgWaitDone (j : nat)       (* stop.Wait() returns *)
| LClosersRun (j : nat)       (* lock; for c in closers: c.Close() *)
| LStoppedClose (j : nat).    (* close(stopped); unlock *)

Inductive res := Next (s : st) | NotEnabled | Panics.

Definition with_task (s : st) (i : nat) (f : task -> res) : res :=
  match nth_error (tasks s) i with Some t => f t | None => NotEnabled end.
Definition with_thread (s : st) (j : nat) (f : sthread -> res) : res :=
  match nth_error (sthreads s) j with Some t => f t | None => NotEnabled end.

Definition put_task (s : st) (i : nat) (t : task) : st := set_tasks s (upd (tasks s) i t).
Definition put_thread (s : st) (j : nat) (is_stop : bool) (p : spc) : st :=
  set_sthreads s (upd (sthreads s) j {| s_is_stop := is_stop; sp := p |}).

Definition at_select (p : tpc) : bool :=
  match p with TSem0 | TSemWait => true | _ => false end.

(** End of Quiesce for thread [j]: for a Stop caller the next thing is the
    region closing [stopper]; a plain Quiesce caller returns. *)
Definition quiesce_finish (s : st) (j : nat) (is_stop : bool) : st :=
  if is_stop
  then put_thread (set_gh s (g_set_drained (gh s) (clock s))) j true SStopClose
  else put_thread s j false SReturned.

(** Test of [for s.mu.numTasks > 0 { Wait() }]. *)
Definition quiesce_test (s : st) (j : nat) (is_stop : bool) : st :=
  if (0 <? num_tasks s)%Z then put_thread s j is_stop SQWait else quiesce_finish s j is_stop.

(** f returns, or f panics.  In both cases control reaches the deferred
    calls of the goroutine, in the same order: [<-sem] (limited), runPostlude,
    s.Recover.  (With an OnPanic handler Recover calls it and the goroutine --
    for RunTask: the call, with a nil error -- ends normally; the handler
    touches no Stopper state and is not modelled.  Without a handler the
    panic is re-raised and the process dies: outside the model.) *)
Definition end_body (s : st) (i : nat) (t : task) (panicked : bool) : res :=
  match pc t with
  | TBody =>
      Next (put_task s i {| tk := tk t; pc := if is_limited (tk t) then TBodyDone else TPost;
                            t_ret := t_ret t; t_acc_at := t_acc_at t;
                            t_begin_at := t_begin_at t; t_end_at := Some (clock s);
                            t_post_at := None; t_panicked := panicked |})
  | _ => NotEnabled
  end.

Definition step0 (s : st) (l : label) : res :=
  match l with
  | LCallTask k =>
      match k with
      | KLimited sm _ c =>
          match nth_error (sems s) sm, c with
          | None, _ => NotEnabled
          | Some _, Some x => match nth_error (ctxs s) x with
                              | Some _ => Next (set_tasks s (tasks s ++ [new_task k]))
                              | None => NotEnabled
                              end
          | Some _, None => Next (set_tasks s (tasks s ++ [new_task k]))
          end
      | _ => Next (set_tasks s (tasks s ++ [new_task k]))
      end
  | LSemAcquire i =>
      with_task s i (fun t =>
        match sem_of (tk t) with
        | Some k =>
            if at_select (pc t) then
              match sem_inc s k with
              | Some sm' => Next (put_task (set_sems s sm') i (with_pc t TCtxCheck))
              | None => NotEnabled
              end
            else NotEnabled
        | None => NotEnabled
        end)
  | LSemQuiesced i =>
      with_task s i (fun t =>
        if at_select (pc t) && quiescing s then Next (put_task s i (refuse t RUnavailable))
        else NotEnabled)
  | LSemCtxDone i =>
      with_task s i (fun t =>
        if at_select (pc t) && ctx_done s (ctx_of (tk t)) then Next (put_task s i (refuse t RCanceled))
        else NotEnabled)
  | LSemDefault i =>
      with_task s i (fun t =>
        match pc t, sem_of (tk t) with
        | TSem0, Some k =>
            if sem_room s k || quiescing s || ctx_done s (ctx_of (tk t)) then NotEnabled
            else if wait_of (tk t) then Next (put_task s i (with_pc t TSemWait))
            else Next (put_task s i (refuse t RThrottled))
        | _, _ => NotEnabled
        end)
  | LCtxCheck i =>
      with_task s i (fun t =>
        match pc t, sem_of (tk t) with
        | TCtxCheck, Some k =>
            if ctx_done s (ctx_of (tk t)) then
              match sem_dec s k with
              | Some sm' => Next (put_task (set_sems s sm') i (refuse t RCanceled))
              | None => NotEnabled
              end
            else Next (put_task s i (with_pc t TPre))
        | _, _ => NotEnabled
        end)
  | LPrelude i =>
      with_task s i (fun t =>
        match pc t with
        | TPre =>
            if mu_held s then NotEnabled
            else if quiescing s then
              Next (put_task s i (if is_limited (tk t) then with_pc t TRelRefused
                                  else refuse t RUnavailable))
            else
              Next (put_task (set_num_tasks s (num_tasks s + 1)%Z) i
                      {| tk := tk t; pc := TAccepted;
                         t_ret := if is_sync (tk t) then None else Some RNil;
                         t_acc_at := Some (clock s); t_begin_at := None; t_end_at := None;
                         t_post_at := None; t_panicked := false |})
        | _ => NotEnabled
        end)
  | LSemRelRefused i =>
      with_task s i (fun t =>
        match pc t, sem_of (tk t) with
        | TRelRefused, Some k =>
            match sem_dec s k with
            | Some sm' => Next (put_task (set_sems s sm') i (refuse t RUnavailable))
            | None => NotEnabled
            end
        | _, _ => NotEnabled
        end)
  | LBodyBegin i =>
      with_task s i (fun t =>
        match pc t with
        | TAccepted =>
            Next (put_task s i {| tk := tk t; pc := TBody; t_ret := t_ret t; t_acc_at := t_acc_at t;
                                  t_begin_at := Some (clock s); t_end_at := None; t_post_at := None;
                                  t_panicked := false |})
        | _ => NotEnabled
        end)
  | LBodyEnd i => with_task s i (fun t => end_body s i t false)
  | LBodyPanic i => with_task s i (fun t => end_body s i t true)
  | LSemRelease i =>
      with_task s i (fun t =>
        match pc t, sem_of (tk t) with
        | TBodyDone, Some k =>
            match sem_dec s k with
            | Some sm' => Next (put_task (set_sems s sm') i (with_pc t TPost))
            | None => NotEnabled
            end
        | _, _ => NotEnabled
        end)
  | LPostlude i =>
      with_task s i (fun t =>
        match pc t with
        | TPost =>
            if mu_held s then NotEnabled
            else
              let s1 := set_num_tasks s (num_tasks s - 1)%Z in
              let s2 := set_sthreads s1 (map wake (sthreads s1)) in
              Next (put_task s2 i {| tk := tk t; pc := TDone; t_ret := Some RNil;
                                     t_acc_at := t_acc_at t; t_begin_at := t_begin_at t;
                                     t_end_at := t_end_at t; t_post_at := Some (clock s);
                                     t_panicked := t_panicked t |})
        | _ => NotEnabled
        end)
  | LWorkerStart =>
      Next (set_workers s
              (workers s ++ [{| wp := WBody; w_start_at := clock s;
                                w_counted := match g_wgdone_at (gh s) with None => true | Some _ => false end;
                                w_end_at := None |}])
              (wg s + 1)%Z)
  | LWorkerBodyEnd w =>
      match nth_error (workers s) w with
      | Some wk =>
          match wp wk with
          | WBody => Next (set_workers s
                             (upd (workers s) w {| wp := WBodyDone; w_start_at := w_start_at wk;
                                                   w_counted := w_counted wk;
                                                   w_end_at := Some (clock s) |})
                             (wg s))
          | _ => NotEnabled
          end
      | None => NotEnabled
      end
  | LWorkerDone w =>
      match nth_error (workers s) w with
      | Some wk =>
          match wp wk with
          | WBodyDone =>
              if (wg s <=? 0)%Z then Panics    (* sync: negative WaitGroup counter *)
              else Next (set_workers s
                           (upd (workers s) w {| wp := WDone; w_start_at := w_start_at wk;
                                                 w_counted := w_counted wk; w_end_at := w_end_at wk |})
                           (wg s - 1)%Z)
          | _ => NotEnabled
          end
      | None => NotEnabled
      end
  | LAddCloser =>
      if mu_held s then NotEnabled
      else
        Next (set_closers s
                (closers s ++ [{| c_listed := negb (stop_ch s);
                                  c_calls := if stop_ch s then 1 else 0;
                                  c_added_at := clock s;
                                  c_after_stop := stop_ch s;
                                  c_called_at := if stop_ch s then Some (clock s) else None |}]))
  | LWithCancel onq =>
      if mu_held s then NotEnabled
      else
        let closed := if onq then quiescing s else stop_ch s in
        Next (set_ctxs s (ctxs s ++ [{| x_onq := onq; x_cancelled := closed;
                                        x_registered := negb closed; x_noop := closed;
                                        x_mid := false |}]))
  | LCancelFn x =>
      match nth_error (ctxs s) x with
      | Some c =>
          if x_mid c then NotEnabled
          else if x_noop c then Next s
          else Next (set_ctxs s (upd (ctxs s) x {| x_onq := x_onq c; x_cancelled := true;
                                                   x_registered := x_registered c;
                                                   x_noop := false; x_mid := true |}))
      | None => NotEnabled
      end
  | LCancelDel x =>
      match nth_error (ctxs s) x with
      | Some c =>
          if x_mid c && negb (mu_held s)
          then Next (set_ctxs s (upd (ctxs s) x {| x_onq := x_onq c; x_cancelled := x_cancelled c;
                                                   x_registered := false;
                                                   x_noop := false; x_mid := false |}))
          else NotEnabled
      | None => NotEnabled
      end
  | LCallStop => Next (set_sthreads s (sthreads s ++ [{| s_is_stop := true; sp := SEnter |}]))
  | LCallQuiesce => Next (set_sthreads s (sthreads s ++ [{| s_is_stop := false; sp := SQuiesce |}]))
  | LStopEnter j =>
      with_thread s j (fun th =>
        match sp th with
        | SEnter =>
            if mu_held s then NotEnabled
            else if stop_called s then Next (put_thread s j true SReturned)
            else Next (put_thread (set_stop_called s) j true SQuiesce)
        | _ => NotEnabled
        end)
  | LQuiesceSet j =>
      with_thread s j (fun th =>
        match sp th with
        | SQuiesce =>
            if mu_held s then NotEnabled
            else
              let s1 := set_ctxs s (map (cancel_registered true) (ctxs s)) in
              let s2 := set_quiescing s1 (g_set_quiesce (gh s1) (clock s)) in
              Next (quiesce_test s2 j (s_is_stop th))
        | _ => NotEnabled
        end)
  | LQRecheck j =>
      with_thread s j (fun th =>
        match sp th with
        | SQWoken => if mu_held s then NotEnabled else Next (quiesce_test s j (s_is_stop th))
        | _ => NotEnabled
        end)
  | LStopClose j =>
      with_thread s j (fun th =>
        match sp th with
        | SStopClose =>
            if mu_held s then NotEnabled
            else if stop_ch s then Panics       (* close of closed channel *)
            else
              let s1 := set_ctxs s (map (cancel_registered false) (ctxs s)) in
              let s2 := set_stop_ch s1 (g_set_stop (gh s1) (clock s)) in
              Next (put_thread s2 j true SWgWait)
        | _ => NotEnabled
        end)
  | LWgWaitDone j =>
      with_thread s j (fun th =>
        match sp th with
        | SWgWait =>
            if (wg s =? 0)%Z
            then Next (put_thread (set_gh s (g_set_wgdone (gh s) (clock s))) j true SClosers)
            else NotEnabled
        | _ => NotEnabled
        end)
  | LClosersRun j =>
      with_thread s j (fun th =>
        match sp th with
        | SClosers =>
            if mu_held s then NotEnabled
            else
              let s1 := set_closers s (map (run_closer (clock s)) (closers s)) in
              let s2 := set_gh (set_mu s1 true) (g_set_closers (gh s1) (clock s)) in
              Next (put_thread s2 j true SStopped)
        | _ => NotEnabled
        end)
  | LStoppedClose j =>
      with_thread s j (fun th =>
        match sp th with
        | SStopped =>
            if stopped_ch s then Panics         (* close of closed channel *)
            else Next (put_thread (set_stopped_ch s (g_set_stopped (gh s) (clock s))) j true SReturned)
        | _ => NotEnabled
        end)
  end.

Definition step (s : st) (l : label) : res :=
  match step0 s l with Next s' => Next (tick s') | r => r end.

(** Running a label list from a state; [None] if some label is not enabled or
    panics. *)
Fixpoint steps (s : st) (ls : list label) : option st :=
  match ls with
  | [] => Some s
  | l :: tl => match step s l with Next s' => steps s' tl | _ => None end
  end.

(** Reachability by any label sequence, for any set of semaphores. *)
Inductive reachable (caps : list nat) : st -> Prop :=
| reach_init : reachable caps (init caps)
| reach_step s l s' : reachable caps s -> step s l = Next s' -> reachable caps s'.

(** * Derived notions used by the statements *)

(** A limited task owns a slot of its semaphore in exactly these program
    points: from the successful [sem <- struct{}{}] to the matching [<-sem]. *)
Definition holds_slot (t : task) : bool :=
  is_limited (tk t) &&
  match pc t with
  | TCtxCheck | TPre | TRelRefused | TAccepted | TBody | TBodyDone => true
  | _ => false
  end.

Definition holds_slot_of (k : nat) (t : task) : bool :=
  holds_slot t && match sem_of (tk t) with Some k' => k' =? k | None => false end.

(** A task counted in numTasks: between runPrelude and runPostlude. *)
Definition in_flight (t : task) : bool :=
  match pc t with TAccepted | TBody | TBodyDone | TPost => true | _ => false end.

Definition count {A} (f : A -> bool) (l : list A) : nat := length (filter f l).

Definition worker_live (w : worker) : bool :=
  match wp w with WDone => false | _ => true end.
