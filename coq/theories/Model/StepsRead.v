(** Reading the text printed by [printSteps] back (property C06): the inverse
    direction of Model/StepsText.v, written as a reader of the dump a user sees
    with `-p`, not as a function of the compiler's data.

      - [parse_dur]: a printed duration -> nanoseconds;
      - [parse_line] / [decode_text]: the dump -> its lines as events;
      - [read_events]: the events -> per act its number and header, and for
        every scene that shows lines its number, the time in force (the last
        "wait until" printed so far in the act) and its lines; plus the time in
        force at the end of the act.

    Used by the oracle of Corr/C06.v on the REAL printSteps output, and proved
    in Proofs/StepsTextProofs.v to invert the model of the printer.
    Executable definitions only. *)
From Shk Require Import Base.Prelude Model.Storyline Model.Compile Model.Denote Model.StepsText.

(** * Numbers *)
Definition digit_of (c : byte) : option (Decimal.uint -> Decimal.uint) :=
  match c with
  | x30 => Some Decimal.D0 | x31 => Some Decimal.D1 | x32 => Some Decimal.D2
  | x33 => Some Decimal.D3 | x34 => Some Decimal.D4 | x35 => Some Decimal.D5
  | x36 => Some Decimal.D6 | x37 => Some Decimal.D7 | x38 => Some Decimal.D8
  | x39 => Some Decimal.D9 | _ => None
  end.

Definition is_digit (c : byte) : bool := match digit_of c with Some _ => true | None => false end.

Fixpoint read_uint (s : bytes) : Decimal.uint * bytes :=
  match s with
  | [] => (Decimal.Nil, [])
  | c :: tl => match digit_of c with
               | Some d => let '(u, r) := read_uint tl in (d u, r)
               | None => (Decimal.Nil, s)
               end
  end.

Definition read_N (s : bytes) : N * bytes := let '(u, r) := read_uint s in (N.of_uint u, r).


(** * Durations *)
Local Open Scope N_scope.
Definition digit_val (c : byte) : option N :=
  match c with
  | x30 => Some 0 | x31 => Some 1 | x32 => Some 2 | x33 => Some 3 | x34 => Some 4
  | x35 => Some 5 | x36 => Some 6 | x37 => Some 7 | x38 => Some 8 | x39 => Some 9
  | _ => None
  end.

Fixpoint read_digs (s : bytes) : list N * bytes :=
  match s with
  | [] => ([], [])
  | c :: tl => match digit_val c with
               | Some d => let '(ds, r) := read_digs tl in (d :: ds, r)
               | None => ([], s)
               end
  end.

Fixpoint val (prec : nat) (ds : list N) : N :=
  match prec, ds with
  | S p, d :: tl => d * 10 ^ N.of_nat p + val p tl
  | _, _ => 0
  end.

Definition read_frac (s : bytes) : list N * bytes :=
  match s with
  | x2e :: r => read_digs r
  | _ => ([], s)
  end.

Definition unit_of (r : bytes) : option (nat * N) :=      (* (digits of precision, ns per unit) *)
  match r with
  | [x6e; x73] => Some (0%nat, 1)
  | [xc2; xb5; x73] => Some (3%nat, 1000)
  | [x6d; x73] => Some (6%nat, 1000000)
  | [x73] => Some (9%nat, 1000000000)
  | _ => None
  end.

Definition parse_tail (n : N) (s : bytes) : option N :=
  let '(ds, r) := read_frac s in
  match unit_of r with
  | Some (prec, size) => Some (n * size + val prec ds)
  | None => None
  end.

Definition parse_secs (mins : N) (s : bytes) : option N :=
  let '(sec, r1) := read_N s in
  let '(ds, r2) := read_frac r1 in
  match r2 with
  | [x73] => Some ((mins * 60 + sec) * 1000000000 + val 9 ds)
  | _ => None
  end.

Definition parse_dur_abs (s : bytes) : option N :=
  let '(n1, r1) := read_N s in
  match r1 with
  | x68 :: r =>                                     (* h *)
      let '(n2, r2) := read_N r in
      match r2 with
      | x6d :: r3 => parse_secs (n1 * 60 + n2) r3
      | _ => None
      end
  | x6d :: d :: r => if is_digit d then parse_secs n1 (d :: r) else parse_tail n1 r1
  | _ => parse_tail n1 r1
  end.


Local Close Scope N_scope.
Definition parse_dur (s : bytes) : option Z :=
  match s with
  | x2d :: r => option_map (fun n => (- Z.of_N n)%Z) (parse_dur_abs r)
  | _ => option_map Z.of_N (parse_dur_abs s)
  end.


(** * Lines *)
Fixpoint strip_prefix (p s : bytes) : option bytes :=
  match p, s with
  | [], _ => Some s
  | x :: p', y :: s' => if Byte.eqb x y then strip_prefix p' s' else None
  | _ :: _, [] => None
  end.

Fixpoint skip_sp (s : bytes) : bytes :=
  match s with
  | x20 :: tl => skip_sp tl
  | _ => s
  end.

Fixpoint split_colon (s : bytes) : option (bytes * bytes) :=
  match s with
  | [] => None
  | c :: tl => if Byte.eqb c x3a then Some ([], tl)
               else match split_colon tl with
                    | Some (a, r) => Some (c :: a, r)
                    | None => None
                    end
  end.

Definition parse_body (i : Z) (b : bytes) : option pevent :=
  match strip_prefix t_wait b with
  | Some r =>
      match parse_dur (removelast r) with
      | Some d => if Byte.eqb (last r x00) b_rpar then Some (PWait i d) else None
      | None => None
      end
  | None =>
      if bytes_eqb b t_meanwhile then Some (PMeanwhile i)
      else match strip_prefix t_mood b with
           | Some r => if Byte.eqb (last r x00) b_rpar then Some (PMood i (removelast r)) else None
           | None =>
               match split_colon b with
               | Some (a, x20 :: r) =>
                   match r with
                   | [] => None
                   | _ => let mark := last r x00 in
                          if Byte.eqb mark b_qm then Some (PDo i a (removelast r) true)
                          else if Byte.eqb mark b_bang then Some (PDo i a (removelast r) false)
                          else None
                   end
               | _ => None
               end
           end
  end.

Definition parse_line (l : bytes) : option pevent :=
  match strip_prefix t_act l with
  | Some r =>
      let '(k, r1) := read_N r in
      if bytes_eqb r1 t_dashes then Some (PAct (Z.of_N k) None)
      else match strip_prefix t_colon_sp r1 with
           | Some r2 =>
               (* r2 = story ++ " --" *)
               let n := (List.length r2 - 3)%nat in
               if bytes_eqb (skipn n r2) t_dashes then Some (PAct (Z.of_N k) (Some (firstn n r2))) else None
           | None => None
           end
  | None =>
      match strip_prefix t_hash_sp l with
      | Some r =>
          let '(i, r1) := read_N (skip_sp r) in
          match strip_prefix t_colon_2sp r1 with
          | Some b => parse_body (Z.of_N i) b
          | None => None
          end
      | None => None
      end
  end.

Definition decode_text (text : bytes) : list pevent :=
  flat_map (fun l => match parse_line l with Some e => [e] | None => [] end) (pieces b_nl text []).


(** * Events -> schedule *)
Local Open Scope Z_scope.
Definition entry := (Z * Z * list sline)%type.

Record rstate := mkR { r_done : list (Z * option bytes * (list entry * Z));   (* finished acts, reversed *)
                       r_head : option (Z * option bytes);                    (* header of the current act *)
                       r_t : Z;                                               (* time in force *)
                       r_nl : bool;                                           (* next step starts a new line *)
                       r_ents : list entry }.                                 (* scenes of the current act, reversed *)

Definition extend_last (ls : list sline) (st : step) : list sline :=
  let l := last ls (mkLine None []) in
  removelast ls ++ [mkLine (ln_actor l) (ln_steps l ++ [st])].

Definition add_step (s : rstate) (i : Z) (ac : option bytes) (st : step) : rstate :=
  let ents :=
    match r_ents s with
    | (j, tj, ls) :: rest =>
        if j =? i then (j, tj, if r_nl s then ls ++ [mkLine ac [st]] else extend_last ls st) :: rest
        else (i, r_t s, [mkLine ac [st]]) :: r_ents s
    | [] => [(i, r_t s, [mkLine ac [st]])]
    end in
  mkR (r_done s) (r_head s) (r_t s) false ents.

Definition close_act (s : rstate) : list (Z * option bytes * (list entry * Z)) :=
  match r_head s with
  | Some (k, st) => (k, st, (rev (r_ents s), r_t s)) :: r_done s
  | None => r_done s
  end.

Definition rstep (s : rstate) (e : pevent) : rstate :=
  match e with
  | PAct k st => mkR (close_act s) (Some (k, st)) 0 true []
  | PWait _ ns => mkR (r_done s) (r_head s) ns (r_nl s) (r_ents s)
  | PMeanwhile _ => mkR (r_done s) (r_head s) (r_t s) true (r_ents s)
  | PDo i a x f => add_step s i (Some a) (mkStep false x f)
  | PMood i m => add_step s i None (mkStep true m false)
  end.

Definition read_events (evs : list pevent) : list (Z * option bytes * (list entry * Z)) :=
  rev (close_act (fold_left rstep evs (mkR [] None 0 true []))).

