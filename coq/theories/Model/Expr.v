(** The subset of govaluate expressions the audition models use, with
    govaluate 3.0.0's evaluation rules for that subset: float arithmetic
    (exact rationals here), string concatenation with [+], comparisons on
    two numbers or two strings, DeepEqual for [==]/[!=], boolean operators
    with short-circuit on the left value, function calls whose argument list
    is built by the left-associative separator operator (an array on the left
    is extended, never one on the right). *)
From Shk Require Import Base.Prelude Model.Value Model.Functions.
Open Scope Q_scope.

Definition var := (string * string)%type.      (* (actor, signal) ; actor = "" for t, mood, moodt and computed variables *)
Definition var_eqb (a b : var) : bool := String.eqb (fst a) (fst b) && String.eqb (snd a) (snd b).

Inductive binop := OAdd | OSub | OMul | ODiv | OLt | OLe | OGt | OGe | OEq | ONe | OAnd | OOr.

Inductive expr :=
| EConst (v : value)
| EVar (x : var)
| ENot (e : expr)
| ENeg (e : expr)
| EBin (o : binop) (a b : expr)
| ECall (f : string) (args : list expr).

(** Variable dependencies (expr.deps), as a duplicate-free list. *)
Fixpoint mem_var (x : var) (l : list var) : bool :=
  match l with [] => false | y :: tl => var_eqb x y || mem_var x tl end.
Definition add_var (x : var) (l : list var) : list var := if mem_var x l then l else l ++ [x].

Fixpoint deps_acc (e : expr) (acc : list var) : list var :=
  match e with
  | EConst _ => acc
  | EVar x => add_var x acc
  | ENot a | ENeg a => deps_acc a acc
  | EBin _ a b => deps_acc b (deps_acc a acc)
  | ECall _ args => (fix go (l : list expr) (acc : list var) : list var :=
                       match l with [] => acc | a :: tl => go tl (deps_acc a acc) end) args acc
  end.
Definition deps (e : expr) : list var := deps_acc e [].

Inductive eres := EV (v : value) | EErr.

Definition env := var -> value.

Definition arith (o : binop) (x y : Q) : Q :=
  match o with OAdd => x + y | OSub => x - y | OMul => x * y | _ => x / y end.

Definition cmp_num (o : binop) (x y : Q) : bool :=
  match o with
  | OLt => negb (Qle_bool y x)
  | OLe => Qle_bool x y
  | OGt => negb (Qle_bool x y)
  | _ => Qle_bool y x
  end.
Definition cmp_str (o : binop) (x y : string) : bool :=
  match String.compare x y, o with
  | Lt, (OLt | OLe) => true
  | Eq, (OLe | OGe) => true
  | Gt, (OGt | OGe) => true
  | _, _ => false
  end.

(** %v of a value, as the [+] operator renders a non-string operand next to a
    string.  Only integers are rendered (the generator keeps to them here). *)
Definition digit (n : nat) : string :=
  String (Ascii.ascii_of_nat (48 + n)) EmptyString.
Fixpoint pos_dec (fuel : nat) (n : nat) : string :=
  match fuel with
  | O => ""
  | S f => if Nat.ltb n 10 then digit n else (pos_dec f (n / 10) ++ digit (n mod 10))%string
  end.
Definition show_value (v : value) : option string :=
  match v with
  | VStr s => Some s
  | VBool true => Some "true"%string
  | VBool false => Some "false"%string
  | VNum q => if Qeq_bool q (inject_Z (Qnum q / Zpos (Qden q))) then
                let z := (Qnum q / Zpos (Qden q))%Z in
                Some ((if (z <? 0)%Z then "-" else "") ++ pos_dec 40 (Z.abs_nat z))%string
              else None
  | _ => None
  end.

Definition bin_apply (o : binop) (l r : value) : eres :=
  match o with
  | OAdd =>
      match l, r with
      | VNum x, VNum y => EV (VNum (x + y))
      | VStr _, _ | _, VStr _ =>
          match show_value l, show_value r with
          | Some a, Some b => EV (VStr (a ++ b))
          | _, _ => EErr          (* outside the modelled rendering *)
          end
      | _, _ => EErr
      end
  | OSub | OMul =>
      match l, r with VNum x, VNum y => EV (VNum (arith o x y)) | _, _ => EErr end
  | ODiv =>
      match l, r with
      | VNum x, VNum y => if Qeq_bool y 0 then EErr (* +-Inf / NaN: outside the model *) else EV (VNum (x / y))
      | _, _ => EErr
      end
  | OLt | OLe | OGt | OGe =>
      match l, r with
      | VNum x, VNum y => EV (VBool (cmp_num o x y))
      | VStr x, VStr y => EV (VBool (cmp_str o x y))
      | _, _ => EErr
      end
  | OEq => EV (VBool (value_eqb l r))
  | ONe => EV (VBool (negb (value_eqb l r)))
  | OAnd => match l, r with VBool x, VBool y => EV (VBool (x && y)) | _, _ => EErr end
  | OOr => match l, r with VBool x, VBool y => EV (VBool (x || y)) | _, _ => EErr end
  end.

(** The separator operator builds the argument list left to right. *)
Definition sep (l r : value) : value :=
  match l with VArr a => VArr (a ++ [r]) | _ => VArr [l; r] end.

Fixpoint eval (rho : env) (e : expr) : eres :=
  match e with
  | EConst v => EV v
  | EVar x => EV (rho x)
  | ENot a => match eval rho a with EV (VBool b) => EV (VBool (negb b)) | _ => EErr end
  | ENeg a => match eval rho a with EV (VNum q) => EV (VNum (- q)) | _ => EErr end
  | EBin o a b =>
      match eval rho a with
      | EErr => EErr
      | EV l =>
          match o, l with
          | OAnd, VBool false => EV (VBool false)        (* short circuit *)
          | OOr, VBool true => EV (VBool true)
          | _, _ => match eval rho b with
                    | EErr => EErr
                    | EV r => bin_apply o l r
                    end
          end
      end
  | ECall f args =>
      let fix evs (l : list expr) : option (list value) :=
          match l with
          | [] => Some []
          | a :: tl => match eval rho a, evs tl with
                       | EV v, Some r => Some (v :: r)
                       | _, _ => None
                       end
          end in
      match evs args with
      | None => EErr
      | Some vs =>
          let flat := match vs with
                      | [] => []
                      | [VArr a] => a                      (* a single array argument is spread *)
                      | [VNil] => []                       (* makeFunctionStage: right == nil calls function() *)
                      | [v] => [v]
                      | v1 :: v2 :: tl =>
                          match fold_left sep tl (sep v1 v2) with VArr a => a | _ => [] end
                      end in
          match apply_fn f flat with
          | FOk v => EV v
          | _ => EErr
          end
      end
  end.

(** evalBool: only the boolean [true] is true. *)
Definition truthy (r : eres) : option bool :=
  match r with
  | EErr => None
  | EV (VBool true) => Some true
  | EV _ => Some false
  end.
