(** Plain-meaning vocabulary of property C11 (collected and computed
    variables, array functions), written without reference to the insertion
    loops of Model/Functions.v: what "the first / last / N largest / N smallest
    values of a sequence" and "the latest non-nil value" mean.  Definitions
    only. *)
From Shk Require Import Base.Prelude Model.Value Model.Functions Model.Expr Model.Fsm Model.Audit.
From Coq Require Import Sorting.Sorted.
Open Scope list_scope.
Open Scope Q_scope.

(** Folding a collect function over the sequence of values an expression
    produced, starting from array [a] (processAssignments calls the collect
    function once per produced value, on the variable's current array). *)
Fixpoint collect_seq (m : amode) (n : nat) (a : list value) (xs : list value) : cres :=
  match xs with
  | [] => COk a
  | x :: tl => match collect m a n x with
               | COk a' => collect_seq m n a' tl
               | r => r
               end
  end.

(** The last [n] elements. *)
Definition lastn {A} (n : nat) (l : list A) : list A := skipn (List.length l - n) l.

(** numeric, boolean or nil — the values the property quantifies over *)
Definition scalar_or_nil (v : value) : bool :=
  match v with VNil | VNum _ | VBool _ => true | _ => false end.

Definition nil_free (l : list value) : bool := forallb (fun v => negb (is_nil v)) l.

(** The numbers a sequence of values denotes: nils dropped, booleans as 0/1
    (strings and arrays, which are errors for top/bottom/sum..., dropped too). *)
Definition nums (xs : list value) : list Q :=
  flat_map (fun v => match scalar_of v with Some q => [q] | None => [] end) xs.

(** Stable sorts, by insertion in order of arrival: every new element goes
    AFTER the elements already there that are >= it (descending) resp. <= it
    (ascending): among equal values the one that arrived first stays first.
    Proofs/FunctionsProofs.v shows they are sorted, stable permutations —
    which determines them. *)
Fixpoint ins_by (keep : Q -> Q -> bool) (x : Q) (l : list Q) : list Q :=
  match l with
  | [] => [x]
  | y :: tl => if keep y x then y :: ins_by keep x tl else x :: l
  end.
Definition sort_by (keep : Q -> Q -> bool) (l : list Q) : list Q :=
  fold_left (fun acc x => ins_by keep x acc) l [].

Definition sort_desc : list Q -> list Q := sort_by qge.
Definition sort_asc : list Q -> list Q := sort_by qle.

(** The elements of [l] that are numerically equal to [q], in order. *)
Definition equal_to (q : Q) (l : list Q) : list Q := filter (Qeq_bool q) l.

(** Sum as a right fold (the model's [qsum] is the left fold of the Go loop). *)
Definition qsum_r (l : list Q) : Q := fold_right Qplus 0 l.

(** [m] is a minimum (maximum) of [l]. *)
Definition is_min (m : Q) (l : list Q) : Prop := In m l /\ Forall (fun y => m <= y) l.
Definition is_max (m : Q) (l : list Q) : Prop := In m l /\ Forall (fun y => y <= m) l.

(** [s] is [l] sorted ascending. *)
Definition sorted_le (l : list Q) : Prop := Sorted Qle l.

(** [r] is the median of the ascending list [s]: its middle element, or the
    mean of the two middle ones. *)
Definition median_of_sorted (s : list Q) (r : Q) : Prop :=
  let n := List.length s in
  if Nat.odd n then nth_error s ((n - 1) / 2) = Some r
  else exists a b, nth_error s (n / 2 - 1) = Some a /\ nth_error s (n / 2) = Some b /\ r = (a + b) / 2.

(** The current array of a collected variable, as processAssignments reads it. *)
Definition cur_array (v : value) : list value :=
  match v with VArr arr => arr | VNil => [] | v => [v] end.

(** Threading [set_var] over a sequence of values (a `computes` clause
    evaluated repeatedly). *)
Definition set_seq (c : acfg) (s : st) (y : var) (xs : list value) (ts : Q) : st :=
  fold_left (fun s x => fst (set_var c s y x ts)) xs s.

(** The targets a member assigns. *)
Definition assigns_var (m : member) (y : var) : bool :=
  existsb (fun a => var_eqb (""%string, as_target a) y) (m_assigns m).

Definition auditing_in (s : st) (a : string) : bool :=
  match get_ms a (s_ms s) with Some ms => ms_auditing ms | None => false end.

(** A computed / collected variable: no actor part, and not one of the three
    predefined ones that every round overwrites. *)
Definition user_var (y : var) : bool :=
  String.eqb (fst y) "" && negb (String.eqb (snd y) "t") && negb (String.eqb (snd y) "mood")
  && negb (String.eqb (snd y) "moodt").

(** * The values a variable's clauses produced *)

Definition target_of (a : assignment) : var := (""%string, as_target a).

(** What one evaluated clause assigns: the value itself for `computes`, the
    result of one collect step on the current array for `collects` ([Some
    None]: the value is refused, [None]: the code panics). *)
Definition assigned_value (a : assignment) (cur : value) (x : value) : option (option value) :=
  match as_mode a with
  | ASingle => Some (Some x)
  | m => match collect m (cur_array cur) (as_n a) x with
         | COk r => Some (Some (VArr r))
         | CErr => Some None
         | CPanic => None
         end
  end.

(** One run of processAssignments: the values produced (and accepted) by the
    clauses that target [y], in order. *)
Fixpoint produced_assigns (c : acfg) (s : st) (ts : Q) (l : list assignment) (y : var) : list value :=
  match l with
  | [] => []
  | a :: tl =>
      if negb (has_deps s (as_expr a)) then produced_assigns c s ts tl y else
      match eval (env_of s) (as_expr a) with
      | EErr => []
      | EV x =>
          match assigned_value a (lookup_val (target_of a) (s_vals s)) x with
          | Some (Some v) =>
              (if var_eqb (target_of a) y then [x] else [])
              ++ produced_assigns c (fst (set_var c s (target_of a) v ts)) ts tl y
          | _ => []
          end
      end
  end.

(** The state in which an active auditor's clauses run (checkEventForAuditor
    up to processAssignments: only the auditor's own flags differ from [s]). *)
Definition visit_entry (s : st) (m : member) (ms : mstate) (w : bool) : st :=
  let starting := w && negb (ms_auditing ms) in
  set_ms s (m_name m) (ms_auditing ms || starting)
         (if starting then match m_expect m with Some (tbl, _) => f_start tbl | None => ms_fsm ms end
          else ms_fsm ms).

(** One visit of auditor [m]: what its clauses produced for [y] — nothing
    unless the auditor is active in this round (auditing already, which
    includes its closing round, or starting now). *)
Definition produced_visit (c : acfg) (final : bool) (s : st) (ts : Q) (m : member) (y : var) : list value :=
  match get_ms (m_name m) (s_ms s) with
  | None => []
  | Some ms =>
      match wanted final s m with
      | Some (Some w) =>
          if w && negb (ms_auditing ms) && negb (start_ok m) then []
          else if negb (ms_auditing ms || w && negb (ms_auditing ms)) then []
          else produced_assigns c (visit_entry s m ms w) ts (m_assigns m) y
      | _ => []
      end
  end.

Fixpoint produced_visit_all (c : acfg) (final : bool) (s : st) (ts : Q) (l : list member) (y : var) : list value :=
  match l with
  | [] => []
  | m :: tl =>
      produced_visit c final s ts m y ++
      (let '(s1, _, st1) := visit c final s ts m in
       match st1 with Running => produced_visit_all c final s1 ts tl y | _ => [] end)
  end.

(** The part of a round before the auditors are visited. *)
Definition prelude (c : acfg) (s : st) (ts : Q) (vs : list (var * value)) : st * list out :=
  let s0 := {| s_mood := s_mood s; s_mood_start := s_mood_start s; s_vals := s_vals s;
               s_act := filter (fun x => String.eqb (fst x) "") (s_act s);
               s_ms := map (fun '(b, m) => (b, {| ms_woken := false; ms_auditing := ms_auditing m; ms_fsm := ms_fsm m |})) (s_ms s) |} in
  let '(s1, o1) := set_var c s0 t_var (VNum ts) ts in
  let '(s2, o2) := set_var c s1 mood_var (VStr (s_mood s1)) ts in
  let moodt := match s_mood_start s2 with None => ts | Some m0 => (ts - m0)%Q end in
  let '(s3, o3) := set_var c s2 moodt_var (VNum moodt) ts in
  let '(s4, o4) := set_signals c s3 ts vs in
  (s4, o1 ++ o2 ++ o3 ++ o4).

Definition produced_round (c : acfg) (final : bool) (s : st) (ts : Q) (vs : list (var * value)) (y : var) : list value :=
  produced_visit_all c final (fst (prelude c s ts vs)) ts (c_members c) y.

(** A history as a sequence of audit rounds (every event of the audit loop is
    one or two: [event_rounds]). *)
Record rnd := { r_final : bool; r_ts : Q; r_vs : list (var * value); r_mood : option (string * Q) }.

Definition enter (s : st) (r : rnd) : st :=
  match r_mood r with Some (m, t0) => with_mood s m t0 | None => s end.

Fixpoint run_rounds (c : acfg) (s : st) (rs : list rnd) : st * status :=
  match rs with
  | [] => (s, Running)
  | r :: tl =>
      let '(s1, _, st1) := round c (r_final r) (enter s r) (r_ts r) (r_vs r) in
      match st1 with Running => run_rounds c s1 tl | stt => (s1, stt) end
  end.

Fixpoint produced_rounds (c : acfg) (s : st) (rs : list rnd) (y : var) : list value :=
  match rs with
  | [] => []
  | r :: tl =>
      produced_round c (r_final r) (enter s r) (r_ts r) (r_vs r) y ++
      (let '(s1, _, st1) := round c (r_final r) (enter s r) (r_ts r) (r_vs r) in
       match st1 with Running => produced_rounds c s1 tl y | _ => [] end)
  end.

Definition event_rounds (s : st) (e : event) : list rnd :=
  let at_begin := match s_mood_start s with None => true | Some _ => false end in
  match e with
  | EMood ts m =>
      if String.eqb m (s_mood s) then []
      else (if at_begin then [] else [{| r_final := false; r_ts := ts; r_vs := []; r_mood := None |}])
           ++ [{| r_final := false; r_ts := ts; r_vs := []; r_mood := Some (m, ts) |}]
  | ESig ts vs => [{| r_final := false; r_ts := ts; r_vs := vs; r_mood := None |}]
  | EFinal ts => if at_begin then [] else [{| r_final := true; r_ts := ts; r_vs := []; r_mood := None |}]
  end.

(** The rounds of a whole audition: the initial round, then those of the
    events (each in the state the previous ones left). *)
Fixpoint history_rounds (c : acfg) (s : st) (es : list event) : list rnd :=
  match es with
  | [] => []
  | e :: tl => event_rounds s e ++ history_rounds c (fst (run_rounds c s (event_rounds s e))) tl
  end.

Definition initial_round : rnd := {| r_final := false; r_ts := 0; r_vs := []; r_mood := Some ("clear"%string, 0) |}.

(** What a collected variable must hold after its clauses produced [xs]. *)
Definition collected (md : amode) (n : nat) (xs : list value) : list value :=
  match md with
  | ASingle => []
  | AFirst => firstn n (non_nil xs)
  | ALast => lastn n (non_nil xs)
  | ATop => map VNum (firstn n (sort_desc (nums xs)))
  | ABottom => map VNum (firstn n (sort_asc (nums xs)))
  end.

(** Every clause of the configuration that targets [y] is `collects y as md n`. *)
Definition clauses_ok (l : list assignment) (y : var) (md : amode) (n : nat) : Prop :=
  Forall (fun a => var_eqb (target_of a) y = true -> as_mode a = md /\ as_n a = n) l.

Definition samples_have_actors (vs : list (var * value)) : Prop :=
  forall x v, In (x, v) vs -> fst x <> ""%string.

(** Every clause of the configuration that targets [y] is a `computes`. *)
Definition clauses_single (l : list assignment) (y : var) : Prop :=
  Forall (fun a => var_eqb (target_of a) y = true -> as_mode a = ASingle) l.

(** The rounds of a whole audition ([run_audition]): the initial round, then
    the rounds of the events. *)
Definition audition_rounds (c : acfg) (es : list event) : list rnd :=
  initial_round :: history_rounds c (fst (run_rounds c (init_st c) [initial_round])) es.

Definition signals_have_actors (es : list event) : Prop :=
  Forall (fun e => match e with ESig _ vs => samples_have_actors vs | _ => True end) es.
