(** Plain-meaning vocabulary of property C11 (collected and computed
    variables, array functions), written without reference to the insertion
    loops of Model/Functions.v: what "the first / last / N largest / N smallest
    values of a sequence" and "the latest non-nil value" mean.  Definitions
    only. *)
From Shk Require Import Base.Prelude Model.Value Model.Functions Model.Expr Model.Audit.
From Coq Require Import Sorting.Sorted.
Open Scope list_scope.
Open Scope Q_scope.

(** Folding a collect function over the sequence of values an expression
    produced, starting from array [a] (processAssignments calls the collect
    function once per produced value, on the variable's current array). *)
Fixpoint collect_seq (m : amode) (n : nat) (a : list value) (xs : list value) : cres :=
  match xs with
  | [] => COk a
  | x :: tl => match collect m a n x with
               | COk a' => collect_seq m n a' tl
               | r => r
               end
  end.

(** The last [n] elements. *)
Definition lastn {A} (n : nat) (l : list A) : list A := skipn (List.length l - n) l.

(** numeric, boolean or nil — the values the property quantifies over *)
Definition scalar_or_nil (v : value) : bool :=
  match v with VNil | VNum _ | VBool _ => true | _ => false end.

Definition nil_free (l : list value) : bool := forallb (fun v => negb (is_nil v)) l.

(** The numbers a sequence of values denotes: nils dropped, booleans as 0/1
    (strings and arrays, which are errors for top/bottom/sum..., dropped too). *)
Definition nums (xs : list value) : list Q :=
  flat_map (fun v => match scalar_of v with Some q => [q] | None => [] end) xs.

(** Stable sorts, by insertion in order of arrival: every new element goes
    AFTER the elements already there that are >= it (descending) resp. <= it
    (ascending): among equal values the one that arrived first stays first.
    Proofs/FunctionsProofs.v shows they are sorted, stable permutations —
    which determines them. *)
Fixpoint ins_by (keep : Q -> Q -> bool) (x : Q) (l : list Q) : list Q :=
  match l with
  | [] => [x]
  | y :: tl => if keep y x then y :: ins_by keep x tl else x :: l
  end.
Definition sort_by (keep : Q -> Q -> bool) (l : list Q) : list Q :=
  fold_left (fun acc x => ins_by keep x acc) l [].

Definition sort_desc : list Q -> list Q := sort_by qge.
Definition sort_asc : list Q -> list Q := sort_by qle.

(** The elements of [l] that are numerically equal to [q], in order. *)
Definition equal_to (q : Q) (l : list Q) : list Q := filter (Qeq_bool q) l.

(** Sum as a right fold (the model's [qsum] is the left fold of the Go loop). *)
Definition qsum_r (l : list Q) : Q := fold_right Qplus 0 l.

(** [m] is a minimum (maximum) of [l]. *)
Definition is_min (m : Q) (l : list Q) : Prop := In m l /\ Forall (fun y => m <= y) l.
Definition is_max (m : Q) (l : list Q) : Prop := In m l /\ Forall (fun y => y <= m) l.

(** [s] is [l] sorted ascending. *)
Definition sorted_le (l : list Q) : Prop := Sorted Qle l.

(** [r] is the median of the ascending list [s]: its middle element, or the
    mean of the two middle ones. *)
Definition median_of_sorted (s : list Q) (r : Q) : Prop :=
  let n := List.length s in
  if Nat.odd n then nth_error s ((n - 1) / 2) = Some r
  else exists a b, nth_error s (n / 2 - 1) = Some a /\ nth_error s (n / 2) = Some b /\ r = (a + b) / 2.

(** The current array of a collected variable, as processAssignments reads it. *)
Definition cur_array (v : value) : list value :=
  match v with VArr arr => arr | VNil => [] | v => [v] end.

(** Threading [set_var] over a sequence of values (a `computes` clause
    evaluated repeatedly). *)
Definition set_seq (c : acfg) (s : st) (y : var) (xs : list value) (ts : Q) : st :=
  fold_left (fun s x => fst (set_var c s y x ts)) xs s.

(** The targets a member assigns. *)
Definition assigns_var (m : member) (y : var) : bool :=
  existsb (fun a => var_eqb (""%string, as_target a) y) (m_assigns m).

Definition auditing_in (s : st) (a : string) : bool :=
  match get_ms a (s_ms s) with Some ms => ms_auditing ms | None => false end.

(** A computed / collected variable: no actor part, and not one of the three
    predefined ones that every round overwrites. *)
Definition user_var (y : var) : bool :=
  String.eqb (fst y) "" && negb (String.eqb (snd y) "t") && negb (String.eqb (snd y) "mood")
  && negb (String.eqb (snd y) "moodt").
