(** Model of the one user of [timeutil.Timer] in pkg/cmd: the flush ticker of
    the collector loop (pkg/cmd/collector.go, [collect]):

      t := timeutil.NewTimer(); t.Reset(time.Second)
      for { select {
        case <-t.C:  t.Read = true; t.Reset(time.Second); of.Flush()
        case ... every other event of the loop (no Timer operation) ...
      } }

    The loop is a client of the Timer LTS of Model/Timeutil.v: its trace is an
    initial [LReset P None] followed, per loop event, by the labels below.
    Time passing and the runtime firing the timer are environment events; a
    flush is the receive (which sets [Read]) immediately followed by the
    re-arming Reset; every other case of the select touches no Timer state.

    Executable definitions only; proofs are in Proofs/TickerProofs.v. *)
From Shk Require Import Base.Prelude Model.Timeutil.
Open Scope Z_scope.
Open Scope list_scope.

Inductive cev :=
| CTime (dt : Z)     (* time passes while the select waits *)
| CFire              (* the runtime fires the inner timer *)
| CFlush             (* case <-t.C: t.Read = true; t.Reset(P); of.Flush() *)
| COther.            (* any other case of the select *)

Definition cev_labels (P : Z) (e : cev) : list label :=
  match e with
  | CTime dt => [LTick dt]
  | CFire => [LFire]
  | CFlush => [LRecv; LReset P None]
  | COther => []
  end.

Definition ticker_labels (P : Z) (es : list cev) : list label :=
  LReset P None :: flat_map (cev_labels P) es.

(** Running labels from any state, observations in order; [None] when a label
    is not enabled or would block.  [run] of Model/Timeutil.v is this from
    [t_init] (TickerProofs.run_aux_exec). *)
Fixpoint exec (s : tstate) (ls : list label) : option (tstate * list obs) :=
  match ls with
  | [] => Some (s, [])
  | l :: tl =>
      match step s l with
      | Next s' o =>
          match exec s' tl with
          | Some (s'', os) => Some (s'', o :: os)
          | None => None
          end
      | _ => None
      end
  end.

(** The instants of the receives (= of the flushes) among the observations. *)
Fixpoint recv_times (os : list obs) : list Z :=
  match os with
  | [] => []
  | ORecv t :: tl => t :: recv_times tl
  | _ :: tl => recv_times tl
  end.

(** Consecutive instants at least [P] apart, the first at least [P] after [last]. *)
Fixpoint spaced (P last : Z) (ts : list Z) : Prop :=
  match ts with
  | [] => True
  | t :: tl => last + P <= t /\ spaced P t tl
  end.

(** Executable form of [spaced], for the correspondence cases. *)
Fixpoint spacedb (P last : Z) (ts : list Z) : bool :=
  match ts with
  | [] => true
  | t :: tl => if last + P <=? t then spacedb P t tl else false
  end.
