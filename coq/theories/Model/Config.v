(** Model of the configuration BUILDER (property C10): what each accepted
    line of a configuration does to [cfg] (pkg/cmd/parsecfg.go: parseCfg,
    parseRole, parseActors, parseScript, parseAudience, parseInterpretation,
    preprocReplace; pkg/cmd/config.go: selectActors, addOrGetAudienceMember,
    addOrUpdateSignalSource, maybeAddSceneSpec, updateRepeat; pkg/cmd/expr.go:
    checkExpr) and what [printCfg] (config.go:296-484) prints back.

    Level.  A [clause] is one accepted line with its fields already split (a
    role is one clause: header, lines, `end`), so the lexical level (regexps
    that recognise a line, white space, continuation lines, comments,
    includes, section headers) is NOT in this model; it is exercised by the
    correspondence harness only.  Inside a clause the fields are the raw
    texts: parameter substitution ([preproc]), identifier checks, number
    parsing, every definition-before-use and duplicate check and the *Names
    order slices are modelled.

    Outside the model, supplied as [oracles] (any functions; the theorems hold
    for all of them, the correspondence cases instantiate them with tables
    computed by the real libraries): the expression compiler (which variables
    an expression mentions), Go's regexp (does it compile, its group names,
    MatchString, ReplaceAllString), time.ParseDuration / Duration.String.

    Not modelled (only in comment lines of the -p output, and in the
    CSV / plot fan-out): cfg.varNames order, variable watcher lists, actor
    sinks.  "Variable defined" is therefore derived: predefined, or the
    target of some member's collects / computes.

    Executable definitions only; proofs are in Proofs/ConfigProofs.v. *)
From Coq Require Import String DecimalString DecimalN Permutation.
From Shk Require Import Base.Prelude Model.Storyline.
Open Scope Z_scope.

Definition bs (s : string) : bytes := list_byte_of_string s.

(** * Small byte-string utilities *)

Definition b_tilde : byte := x7e.

Definition byte_in (lo hi : N) (c : byte) : bool :=
  let n := Byte.to_N c in (N.leb lo n) && (N.leb n hi).
Definition is_digit (c : byte) : bool := byte_in 48 57 c.
Definition is_alpha (c : byte) : bool := byte_in 65 90 c || byte_in 97 122 c.
Definition is_us_b (c : byte) : bool := Byte.eqb c x5f.
(** \w of Go's regexp: [0-9A-Za-z_]. *)
Definition is_word (c : byte) : bool := is_digit c || is_alpha c || is_us_b c.
(** ASCII members of \p{S}: $ + < = > ^ ` | ~ *)
Definition is_sym (c : byte) : bool :=
  match c with
  | x24 | x2b | x3c | x3d | x3e | x5e | x60 | x7c | x7e => true
  | _ => false
  end.
(** Bytes >= 0x80 stand for the UTF-8 encoding of letters (the generator only
    uses letters there); other non-ASCII classes are outside the model. *)
Definition is_high (c : byte) : bool := N.leb 128 (Byte.to_N c).
Definition ident_start (c : byte) : bool := is_alpha c || is_us_b c || is_sym c || is_high c.
Definition ident_rest (c : byte) : bool := ident_start c || is_digit c.

(** [checkIdent] (parsecfg.go:1057), identRe = ^[\p{L}\p{S}\p{M}_][\p{L}\p{S}\p{M}\p{N}_]*$ *)
Definition ident_ok (s : bytes) : bool :=
  match s with
  | [] => false
  | c :: tl => ident_start c && forallb ident_rest tl
  end.

Fixpoint mem_bytes (x : bytes) (l : list bytes) : bool :=
  match l with
  | [] => false
  | y :: tl => bytes_eqb x y || mem_bytes x tl
  end.

Fixpoint ends_with (suffix s : bytes) : bool :=
  bytes_eqb suffix s || match s with [] => false | _ :: tl => ends_with suffix tl end.

(** [strings.TrimSuffix(s, "s")] *)
Definition trim_suffix_s (s : bytes) : bytes :=
  match rev s with
  | x73 :: r => rev r
  | _ => s
  end.

(** [strings.HasSuffix(part, "?")] / [part[:len(part)-1]] *)
Definition strip_qm (s : bytes) : bytes :=
  match rev s with
  | x3f :: r => rev r
  | _ => s
  end.

Fixpoint is_prefix_b (p s : bytes) : bool :=
  match p, s with
  | [], _ => true
  | x :: p', y :: s' => Byte.eqb x y && is_prefix_b p' s'
  | _ :: _, [] => false
  end.

(** [strings.Replace(s, pat, rep, 1)] for a non-empty [pat] *)
Fixpoint replace_first (pat rep s : bytes) : bytes :=
  match s with
  | [] => []
  | c :: tl =>
      if is_prefix_b pat s then rep ++ skipn (List.length pat) s
      else c :: replace_first pat rep tl
  end.

Fixpoint contains_sub (pat s : bytes) : bool :=
  is_prefix_b pat s || match s with [] => false | _ :: tl => contains_sub pat tl end.

(** ** Decimal numbers: strconv.Itoa / Atoi / ParseInt(s, 10, 0), through the
    standard library's decimal printer (overflow is outside the model). *)
Definition itoa (n : N) : bytes :=
  list_byte_of_string (NilEmpty.string_of_uint (N.to_uint n)).

Definition atoi_digits (s : bytes) : option N :=
  match s with
  | [] => None
  | _ => option_map N.of_uint (NilEmpty.uint_of_string (string_of_list_byte s))
  end.

Definition parse_int (s : bytes) : option Z :=
  match s with
  | x2d :: tl => option_map (fun n => - Z.of_N n) (atoi_digits tl)     (* '-' *)
  | x2b :: tl => option_map Z.of_N (atoi_digits tl)                    (* '+' *)
  | _ => option_map Z.of_N (atoi_digits s)
  end.

Definition itoa_z (z : Z) : bytes :=
  if z <? 0 then x2d :: itoa (Z.to_N (- z)) else itoa (Z.to_N z).

(** * Parameter substitution: [preprocReplace] (parsecfg.go:1131),
    preprocRe = ~\w+~, leftmost non-overlapping matches, single pass (a value
    is not expanded again).  [pend] is the word read since an opening `~`
    (reversed), [None] outside a candidate.  An undefined name is [Err 1]. *)
Definition pvars := list (bytes * bytes).

Fixpoint lookup_b {A} (k : bytes) (l : list (bytes * A)) : option A :=
  match l with
  | [] => None
  | (k', v) :: tl => if bytes_eqb k k' then Some v else lookup_b k tl
  end.

Definition flush (pend : option bytes) : bytes :=
  match pend with None => [] | Some w => b_tilde :: rev w end.

Fixpoint pp (pv : pvars) (pend : option bytes) (s : bytes) : Outcome bytes :=
  match s with
  | [] => Ok (flush pend)
  | c :: tl =>
      match pend with
      | None =>
          if Byte.eqb c b_tilde then pp pv (Some []) tl
          else obind (pp pv None tl) (fun r => Ok (c :: r))
      | Some w =>
          if is_word c then pp pv (Some (c :: w)) tl
          else if Byte.eqb c b_tilde then
            match w with
            | [] => obind (pp pv (Some []) tl) (fun r => Ok (b_tilde :: r))
            | _ => match lookup_b (rev w) pv with
                   | Some v => obind (pp pv None tl) (fun r => Ok (v ++ r))
                   | None => Err 1
                   end
            end
          else obind (pp pv None tl) (fun r => Ok (b_tilde :: rev w ++ c :: r))
      end
  end.

Definition preproc (pv : pvars) (s : bytes) : Outcome bytes := pp pv None s.

(** [parseDefines] (config.go:242): -D name=value, first definition wins. *)
Fixpoint split_eq (s : bytes) : bytes * bytes :=
  match s with
  | [] => ([], [])
  | c :: tl => if Byte.eqb c x3d then ([], tl)
               else let '(a, b) := split_eq tl in (c :: a, b)
  end.

Definition add_pvar (pv : pvars) (n v : bytes) : pvars :=
  match lookup_b n pv with Some _ => pv | None => pv ++ [(n, v)] end.

Definition parse_defines (defs : list bytes) : pvars :=
  fold_left (fun pv d => let '(n, v) := split_eq d in add_pvar pv n v) defs [].

(** * Oracles: the libraries outside the model *)
Record oracles := mkOracles {
  (* govaluate: [None] = does not compile; else the names Vars() returns
     (`v` or `actor signal`) *)
  o_expr_vars : bytes -> option (list bytes);
  (* regexp.Compile + SubexpNames: [None] = does not compile *)
  o_re_groups : bytes -> option (list bytes);
  (* regexp.Compile(re) succeeds (repeat from, edit) *)
  o_re_ok : bytes -> bool;
  (* regexp.MustCompile(re).MatchString(act) *)
  o_re_match : bytes -> bytes -> bool;
  (* regexp.MustCompile(pat).ReplaceAllString(s, repl) *)
  o_re_replace : bytes -> bytes -> bytes -> bytes;
  (* time.ParseDuration, in nanoseconds *)
  o_dur_parse : bytes -> option Z;
  (* time.Duration.String *)
  o_dur_string : Z -> bytes
}.

(** * Clauses *)
Inductive role_line :=
| RAction (name cmd : bytes)
| RSpotlight (cmd : bytes)
| RCleanup (cmd : bytes)
| RSignal (name typ re : bytes).

Inductive target :=
| TActor (name : bytes)
| TEvery (role : bytes).

Inductive clause :=
| CTitle (t : bytes)
| CAuthor (t : bytes)
| CAttention (t : bytes)
| CParam (name val : bytes)
| CRole (name : bytes) (extends : option bytes) (lines : list role_line)
| CCast (actor : bytes) (star : bool) (mul : option bytes) (role : bytes) (env : bytes)
| CTempo (d : bytes)
| CEntails (ch : bytes) (tg : target) (actions : list bytes)
| CMoodStart (ch mood : bytes)
| CMoodEnd (ch mood : bytes)
| CStoryline (t : bytes)
| CEdit (pat repl : bytes)
| CRepeatFrom (re : bytes)
| CRepeatCount (n : bytes)
| CRepeatAlways
| CRepeatTime (d : bytes)
| CWatches (m : bytes) (tg : target) (sig : bytes)
| CWatchVar (m v : bytes)
| CMeasures (m l : bytes)
| COnlyHelps (m : bytes)
| CAudits (m e : bytes)
| CAuditsAll (m : bytes)
| CExpects (m modality e : bytes)
| CExpectsLike (m tgt : bytes)
| CCollects (m v mode n e : bytes)
| CComputes (m v e : bytes)
| CIgnoreAll (res : bytes)
| CInterp (mode tgt res : bytes).

(** * The configuration state *)
Inductive sigtyp := SEvent | SScalar | SDelta.

Record sigp := mkSig { sg_name : bytes; sg_typ : sigtyp; sg_re : bytes }.

Record role := mkRole {
  r_name : bytes;
  r_cleanup : bytes;              (* "" = none *)
  r_spotlight : bytes;            (* "" = none *)
  r_sigs : list sigp;             (* sigParsers, in order *)
  r_actions : list (bytes * bytes)  (* actionNames order, with actionCmds *)
}.

Record actor := mkActor { a_name : bytes; a_role : bytes; a_env : bytes }.

Record entail := mkEntail { e_actor : bytes; e_actions : list bytes }.

Record scenespec := mkScene {
  s_char : byte;
  s_entails : list entail;
  s_mstart : bytes;               (* "" = none *)
  s_mend : bytes
}.

(** varName{actorName, sigName}; actorName "" for a computed variable *)
Definition vname := (bytes * bytes)%type.
Definition vname_eqb (a b : vname) : bool := bytes_eqb (fst a) (fst b) && bytes_eqb (snd a) (snd b).

Record expr := mkExpr { x_src : bytes; x_deps : list vname }.

Inductive amode := ASingle | AFirst | ALast | ATop | ABottom.

Record assign := mkAssign { as_var : bytes; as_expr : expr; as_mode : amode; as_n : Z }.

Inductive foul := FIgnore | FNonZero | FZero.

Record member := mkMember {
  m_name : bytes;
  m_cond : option expr;           (* auditor.activeCond; None = src "" *)
  m_assigns : list assign;
  m_expect : option (bytes * expr);   (* expectFsm name, expectExpr *)
  m_obs : list vname;             (* observer.obsVarNames *)
  m_ylabel : bytes;
  m_noplot : bool;
  m_foulbad : foul;
  m_foulgood : foul
}.

Record cstate := mkState {
  c_pvars : pvars;
  c_titles : list bytes;
  c_authors : list bytes;
  c_seealso : list bytes;
  c_roles : list role;            (* roleNames order *)
  c_actors : list actor;          (* actorNames order *)
  c_scenes : list scenespec;      (* sceneSpecChars order *)
  c_tempo : Z;
  c_story : list bytes;
  c_from : option bytes;          (* repeatFrom source *)
  c_actnum : Z;
  c_timeout : Z;                  (* < 0 = unconstrained *)
  c_count : Z;                    (* < 0 = always *)
  c_aud : list member             (* audienceNames order *)
}.

Definition init_state (defs : list bytes) : cstate :=
  mkState (parse_defines defs) [] [] [] [] [] [] 1000000000 [] None 0 (-1) (-1) [].

(** ** Field updates *)
Definition set_titles s x := mkState (c_pvars s) x (c_authors s) (c_seealso s) (c_roles s) (c_actors s) (c_scenes s) (c_tempo s) (c_story s) (c_from s) (c_actnum s) (c_timeout s) (c_count s) (c_aud s).
Definition set_authors s x := mkState (c_pvars s) (c_titles s) x (c_seealso s) (c_roles s) (c_actors s) (c_scenes s) (c_tempo s) (c_story s) (c_from s) (c_actnum s) (c_timeout s) (c_count s) (c_aud s).
Definition set_seealso s x := mkState (c_pvars s) (c_titles s) (c_authors s) x (c_roles s) (c_actors s) (c_scenes s) (c_tempo s) (c_story s) (c_from s) (c_actnum s) (c_timeout s) (c_count s) (c_aud s).
Definition set_pvars s x := mkState x (c_titles s) (c_authors s) (c_seealso s) (c_roles s) (c_actors s) (c_scenes s) (c_tempo s) (c_story s) (c_from s) (c_actnum s) (c_timeout s) (c_count s) (c_aud s).
Definition set_roles s x := mkState (c_pvars s) (c_titles s) (c_authors s) (c_seealso s) x (c_actors s) (c_scenes s) (c_tempo s) (c_story s) (c_from s) (c_actnum s) (c_timeout s) (c_count s) (c_aud s).
Definition set_actors s x := mkState (c_pvars s) (c_titles s) (c_authors s) (c_seealso s) (c_roles s) x (c_scenes s) (c_tempo s) (c_story s) (c_from s) (c_actnum s) (c_timeout s) (c_count s) (c_aud s).
Definition set_scenes s x := mkState (c_pvars s) (c_titles s) (c_authors s) (c_seealso s) (c_roles s) (c_actors s) x (c_tempo s) (c_story s) (c_from s) (c_actnum s) (c_timeout s) (c_count s) (c_aud s).
Definition set_tempo s x := mkState (c_pvars s) (c_titles s) (c_authors s) (c_seealso s) (c_roles s) (c_actors s) (c_scenes s) x (c_story s) (c_from s) (c_actnum s) (c_timeout s) (c_count s) (c_aud s).
Definition set_story s x := mkState (c_pvars s) (c_titles s) (c_authors s) (c_seealso s) (c_roles s) (c_actors s) (c_scenes s) (c_tempo s) x (c_from s) (c_actnum s) (c_timeout s) (c_count s) (c_aud s).
Definition set_from s x := mkState (c_pvars s) (c_titles s) (c_authors s) (c_seealso s) (c_roles s) (c_actors s) (c_scenes s) (c_tempo s) (c_story s) x (c_actnum s) (c_timeout s) (c_count s) (c_aud s).
Definition set_actnum s x := mkState (c_pvars s) (c_titles s) (c_authors s) (c_seealso s) (c_roles s) (c_actors s) (c_scenes s) (c_tempo s) (c_story s) (c_from s) x (c_timeout s) (c_count s) (c_aud s).
Definition set_timeout s x := mkState (c_pvars s) (c_titles s) (c_authors s) (c_seealso s) (c_roles s) (c_actors s) (c_scenes s) (c_tempo s) (c_story s) (c_from s) (c_actnum s) x (c_count s) (c_aud s).
Definition set_count s x := mkState (c_pvars s) (c_titles s) (c_authors s) (c_seealso s) (c_roles s) (c_actors s) (c_scenes s) (c_tempo s) (c_story s) (c_from s) (c_actnum s) (c_timeout s) x (c_aud s).
Definition set_aud s x := mkState (c_pvars s) (c_titles s) (c_authors s) (c_seealso s) (c_roles s) (c_actors s) (c_scenes s) (c_tempo s) (c_story s) (c_from s) (c_actnum s) (c_timeout s) (c_count s) x.

(** ** Lookups *)
Definition find_role (n : bytes) (l : list role) : option role :=
  find (fun r => bytes_eqb n (r_name r)) l.
Definition find_actor (n : bytes) (l : list actor) : option actor :=
  find (fun a => bytes_eqb n (a_name a)) l.
Definition find_member (n : bytes) (l : list member) : option member :=
  find (fun m => bytes_eqb n (m_name m)) l.
Definition find_sig (n : bytes) (l : list sigp) : option sigp :=
  find (fun g => bytes_eqb n (sg_name g)) l.
Definition has_action (n : bytes) (r : role) : bool :=
  existsb (fun a => bytes_eqb n (fst a)) (r_actions r).

(** Error codes (only accept / reject is compared with the implementation). *)
Definition E_param : N := 1.     (* undefined parameter *)
Definition E_ident : N := 2.     (* not a valid identifier *)
Definition E_dup : N := 3.       (* duplicate definition *)
Definition E_undef : N := 4.     (* unknown role / actor / action / signal / variable / member *)
Definition E_syntax : N := 5.    (* number, duration, regexp, type, modality, shorthand... *)
Definition E_rule : N := 6.      (* a rule of the clause: star, spotlight, only one expects... *)

Definition check {A} (b : bool) (code : N) (k : Outcome A) : Outcome A :=
  if b then k else Err code.

Definition of_opt {A} (o : option A) (code : N) : Outcome A :=
  match o with Some a => Ok a | None => Err code end.

(** * Roles: [parseRole] *)

Definition ts_pseudo : list (bytes * bytes) :=
  [ (bs "(?P<ts_rfc3339>)", bs "(?P<ts_rfc3339>\d\d\d\d-\d\d-\d\dT\d\d:\d\d:\d\d(?:\.\d+)?Z)");
    (bs "(?P<ts_log>)", bs "(?P<ts_log>\d{6} \d\d:\d\d:\d\d\.\d{6})");
    (bs "(?P<ts_deltasecs>)", bs "(?P<ts_deltasecs>(?:\d+(?:\.\d+)?|\.\d+))") ].

(** "Expand commonly known time formats": three [strings.Replace(.., 1)]. *)
Definition expand_ts (re : bytes) : bytes :=
  fold_left (fun r pr => if contains_sub (fst pr) r then replace_first (fst pr) (snd pr) r else r) ts_pseudo re.

Definition decode_typ (t : bytes) : option sigtyp :=
  if bytes_eqb t (bs "event") then Some SEvent
  else if bytes_eqb t (bs "scalar") then Some SScalar
  else if bytes_eqb t (bs "delta") then Some SDelta
  else None.
Definition typ_text (t : sigtyp) : bytes :=
  match t with SEvent => bs "event" | SScalar => bs "scalar" | SDelta => bs "delta" end.

Definition has_ts_group (groups : list bytes) : bool :=
  mem_bytes (bs "ts_rfc3339") groups || mem_bytes (bs "ts_log") groups
  || mem_bytes (bs "ts_now") groups || mem_bytes (bs "ts_deltasecs") groups.

(** One line of a role section; [own] = parserNames: the signal names of the
    role so far (inherited ones included). *)
Definition role_line_step (orc : oracles) (st : role * list bytes) (l : role_line)
  : Outcome (role * list bytes) :=
  let '(r, own) := st in
  match l with
  | RAction n cmd =>
      check (ident_ok n) E_ident (
      check (negb (has_action n r)) E_dup (
      Ok (mkRole (r_name r) (r_cleanup r) (r_spotlight r) (r_sigs r) (r_actions r ++ [(n, cmd)]), own)))
  | RSpotlight cmd => Ok (mkRole (r_name r) (r_cleanup r) cmd (r_sigs r) (r_actions r), own)
  | RCleanup cmd => Ok (mkRole (r_name r) cmd (r_spotlight r) (r_sigs r) (r_actions r), own)
  | RSignal n typ re =>
      check (ident_ok n) E_ident (
      let re' := expand_ts re in
      obind (of_opt (o_re_groups orc re') E_syntax) (fun groups =>
      check (negb (mem_bytes n own)) E_dup (
      obind (of_opt (decode_typ typ) E_syntax) (fun t =>
      check (mem_bytes (typ_text t) groups) E_syntax (
      check (has_ts_group groups) E_syntax (
      Ok (mkRole (r_name r) (r_cleanup r) (r_spotlight r) (r_sigs r ++ [mkSig n t re']) (r_actions r),
          own ++ [n])))))))
  end.

Fixpoint role_lines (orc : oracles) (st : role * list bytes) (ls : list role_line)
  : Outcome (role * list bytes) :=
  match ls with
  | [] => Ok st
  | l :: tl => obind (role_line_step orc st l) (fun st' => role_lines orc st' tl)
  end.

Definition is_nil {A} (l : list A) : bool := match l with [] => true | _ => false end.

Definition apply_role (orc : oracles) (s : cstate) (name : bytes) (ext : option bytes)
           (ls : list role_line) : Outcome cstate :=
  obind (preproc (c_pvars s) name) (fun name' =>
  check (ident_ok name') E_ident (
  obind (match ext with None => Ok [] | Some e => preproc (c_pvars s) e end) (fun ext' =>
  check (negb (existsb (fun r => bytes_eqb name' (r_name r)) (c_roles s))) E_dup (
  obind (match ext' with
         | [] => Ok (mkRole name' [] [] [] [])
         | _ => match find_role ext' (c_roles s) with
                | Some p => Ok (mkRole name' (r_cleanup p) (r_spotlight p) (r_sigs p) (r_actions p))
                | None => Err E_undef
                end
         end) (fun r0 =>
  obind (role_lines orc (r0, map sg_name (r_sigs r0)) ls) (fun st =>
  let r := fst st in
  check (is_nil (r_sigs r) || negb (is_nil (r_spotlight r))) E_rule (
  Ok (set_roles s (c_roles s ++ [r]))))))))).

(** * Cast: [parseActors] *)

Definition add_actor (l : list actor) (a : actor) : Outcome (list actor) :=
  check (negb (existsb (fun x => bytes_eqb (a_name a) (a_name x)) l)) E_dup (Ok (l ++ [a])).

(** the loop [for i := 0; i < int(n); i++], as a recursion on [k] remaining
    iterations; [i] = the Go loop variable *)
Fixpoint add_many (l : list actor) (base rn env : bytes) (i : N) (k : nat) : Outcome (list actor) :=
  match k with
  | O => Ok l
  | S k' =>
      let env_i := bs "i=" ++ itoa i ++ (match env with [] => [] | _ => bs "; " ++ env end) in
      obind (add_actor l (mkActor (base ++ itoa (N.succ i)) rn env_i)) (fun l' =>
      add_many l' base rn env (N.succ i) k')
  end.

Definition apply_cast (s : cstate) (an : bytes) (star : bool) (mul : option bytes) (rn env : bytes)
  : Outcome cstate :=
  obind (preproc (c_pvars s) rn) (fun rn' =>
  check (ident_ok rn') E_ident (
  check (ident_ok an) E_ident (
  obind (match mul with None => Ok [] | Some m => preproc (c_pvars s) m end) (fun mul' =>
  obind (match find_role rn' (c_roles s) with
         | Some r => Ok r
         | None =>
             if is_nil mul' then Err E_undef
             else of_opt (find_role (trim_suffix_s rn') (c_roles s)) E_undef
         end) (fun r =>
  obind (preproc (c_pvars s) env) (fun env' =>
  if is_nil mul' then
    check (negb star) E_rule (
    obind (add_actor (c_actors s) (mkActor an (r_name r) env')) (fun l => Ok (set_actors s l)))
  else
    check star E_rule (
    obind (of_opt (parse_int mul') E_syntax) (fun n =>
    obind (add_many (c_actors s) an (r_name r) env' 0 (Z.to_nat n)) (fun l =>
    Ok (set_actors s l)))))))))).

(** * [selectActors] *)
Definition select_actors (s : cstate) (tg : target) : Outcome (role * list actor) :=
  match tg with
  | TEvery rn =>
      obind (preproc (c_pvars s) rn) (fun rn' =>
      check (ident_ok rn') E_ident (
      obind (of_opt (find_role rn' (c_roles s)) E_undef) (fun r =>
      Ok (r, filter (fun a => bytes_eqb (a_role a) (r_name r)) (c_actors s)))))
  | TActor an =>
      check (ident_ok an) E_ident (
      obind (of_opt (find_actor an (c_actors s)) E_undef) (fun a =>
      (* act.role is a pointer in the Go code; a dangling role name cannot
         arise (invariant [wf_state]): [Panic] marks the impossible branch *)
      match find_role (a_role a) (c_roles s) with
      | Some r => Ok (r, [a])
      | None => Panic
      end))
  end.

(** * Script: [parseScript] *)

(** [validateShorthand]: one byte, a letter or a digit (ASCII in the model). *)
Definition shorthand (ch : bytes) : Outcome byte :=
  match ch with
  | [c] => if is_alpha c || is_digit c then Ok c else Err E_syntax
  | _ => Err E_syntax
  end.

Definition find_scene (c : byte) (l : list scenespec) : option scenespec :=
  find (fun sc => Byte.eqb c (s_char sc)) l.

(** [maybeAddSceneSpec] followed by an update [f] of that scene. *)
Fixpoint upd_scene (c : byte) (f : scenespec -> scenespec) (l : list scenespec) : list scenespec :=
  match l with
  | [] => [f (mkScene c [] [] [])]
  | sc :: tl => if Byte.eqb c (s_char sc) then f sc :: tl else sc :: upd_scene c f tl
  end.

Definition scene_defined (s : cstate) (c : byte) : bool :=
  existsb (fun sc => Byte.eqb c (s_char sc)) (c_scenes s).

Fixpoint first_match (p : bytes -> bool) (l : list bytes) (i : Z) : option Z :=
  match l with
  | [] => None
  | a :: tl => if p a then Some i else first_match p tl (i + 1)
  end.

(** [updateRepeat] (config.go:1010): with a repetition regexp, the act number
    is the first matching act, 0 when none matches (the previous value is
    forgotten first). *)
Definition update_repeat (orc : oracles) (s : cstate) : cstate :=
  match c_from s with
  | None => s
  | Some re =>
      match first_match (o_re_match orc re) (c_story s) 1 with
      | Some n => set_actnum s n
      | None => set_actnum s 0
      end
  end.

Definition apply_entails (s : cstate) (ch : bytes) (tg : target) (acts : list bytes) : Outcome cstate :=
  obind (shorthand ch) (fun c =>
  obind (select_actors s tg) (fun ra =>
  let '(r, found) := ra in
  match found with
  | [] => Ok s                               (* warning only; nothing is added *)
  | _ =>
      check (forallb (fun a => has_action (strip_qm a) r) acts) E_undef (
      Ok (set_scenes s (upd_scene c (fun sc =>
            mkScene (s_char sc) (s_entails sc ++ map (fun a => mkEntail (a_name a) acts) found)
                    (s_mstart sc) (s_mend sc)) (c_scenes s))))
  end)).

Definition apply_mood (s : cstate) (ch mood : bytes) (starts : bool) : Outcome cstate :=
  check (ident_ok mood) E_ident (
  obind (shorthand ch) (fun c =>
  Ok (set_scenes s (upd_scene c (fun sc =>
        if starts then mkScene (s_char sc) (s_entails sc) mood (s_mend sc)
        else mkScene (s_char sc) (s_entails sc) (s_mstart sc) mood) (c_scenes s))))).

Definition unconstrained : bytes := bs "unconstrained".

(** * Audience: [parseAudience], [checkExpr] *)

Definition builtin_vars : list bytes := [bs "t"; bs "mood"; bs "moodt"].

(** cfg.vars has the computed variable [v]: predefined, or assigned by some
    member (watcher lists and varNames order are not modelled). *)
Definition vars_of (aud : list member) : list bytes :=
  flat_map (fun m => map as_var (m_assigns m)) aud.
Definition defined_in (defd : list bytes) (v : bytes) : bool :=
  mem_bytes v builtin_vars || mem_bytes v defd.
Definition var_defined (aud : list member) (v : bytes) : bool := defined_in (vars_of aud) v.

Definition new_member (n : bytes) : member :=
  mkMember n None [] None [] [] false FNonZero FIgnore.

(** [addOrGetAudienceMember] *)
Definition get_member (aud : list member) (n : bytes) : member :=
  match find_member n aud with Some m => m | None => new_member n end.

(** write the member back (replace it, or append a new one) *)
Fixpoint put_member (aud : list member) (m : member) : list member :=
  match aud with
  | [] => [m]
  | x :: tl => if bytes_eqb (m_name m) (m_name x) then m :: tl else x :: put_member tl m
  end.

Definition add_obs (obs : list vname) (v : vname) : list vname :=
  if existsb (vname_eqb v) obs then obs else obs ++ [v].

Definition set_obs (m : member) (o : list vname) : member :=
  mkMember (m_name m) (m_cond m) (m_assigns m) (m_expect m) o (m_ylabel m) (m_noplot m) (m_foulbad m) (m_foulgood m).
Definition set_cond (m : member) (c : option expr) : member :=
  mkMember (m_name m) c (m_assigns m) (m_expect m) (m_obs m) (m_ylabel m) (m_noplot m) (m_foulbad m) (m_foulgood m).
Definition set_assigns (m : member) (a : list assign) : member :=
  mkMember (m_name m) (m_cond m) a (m_expect m) (m_obs m) (m_ylabel m) (m_noplot m) (m_foulbad m) (m_foulgood m).
Definition set_expect (m : member) (e : option (bytes * expr)) : member :=
  mkMember (m_name m) (m_cond m) (m_assigns m) e (m_obs m) (m_ylabel m) (m_noplot m) (m_foulbad m) (m_foulgood m).
Definition set_ylabel (m : member) (l : bytes) : member :=
  mkMember (m_name m) (m_cond m) (m_assigns m) (m_expect m) (m_obs m) l (m_noplot m) (m_foulbad m) (m_foulgood m).
Definition set_noplot (m : member) (b : bool) : member :=
  mkMember (m_name m) (m_cond m) (m_assigns m) (m_expect m) (m_obs m) (m_ylabel m) b (m_foulbad m) (m_foulgood m).
Definition set_foulbad (m : member) (f : foul) : member :=
  mkMember (m_name m) (m_cond m) (m_assigns m) (m_expect m) (m_obs m) (m_ylabel m) (m_noplot m) f (m_foulgood m).
Definition set_foulgood (m : member) (f : foul) : member :=
  mkMember (m_name m) (m_cond m) (m_assigns m) (m_expect m) (m_obs m) (m_ylabel m) (m_noplot m) (m_foulbad m) f.

(** [a.addOrUpdateSignalSource(r, vn)]: the signal must exist in the role. *)
Definition add_signal_source (r : role) (m : member) (vn : vname) : Outcome member :=
  match find_sig (snd vn) (r_sigs r) with
  | None => Err E_undef
  | Some _ => Ok (set_obs m (add_obs (m_obs m) vn))
  end.

Definition has_dot (s : bytes) : bool := existsb (fun c => Byte.eqb c x2e) s.

(** One variable name returned by Vars(): `v`, or `actor signal`
    ([strings.Split(v, " ")]); an empty actor name is not an identifier. *)
Definition parse_dep (v : bytes) : option vname :=
  match split_on is_sp v with
  | [x] => if has_dot x then None else Some ([], x)
  | [a; g] => if is_nil a then None else Some (a, g)
  | _ => None
  end.

Definition dep_step (s : cstate) (aud : list member) (st : member * list vname) (v : bytes)
  : Outcome (member * list vname) :=
  let '(m, deps) := st in
  obind (of_opt (parse_dep v) E_syntax) (fun d =>
  match fst d with
  | [] =>
      check (ident_ok (snd d)) E_ident (
      check (var_defined aud (snd d)) E_undef (
      Ok (m, deps ++ [d])))
  | a =>
      check (ident_ok a && ident_ok (snd d)) E_ident (
      obind (of_opt (find_actor a (c_actors s)) E_undef) (fun act =>
      match find_role (a_role act) (c_roles s) with
      | None => Panic
      | Some r =>
          obind (add_signal_source r m d) (fun m' =>
          Ok (m', deps ++ [d]))
      end))
  end).

Fixpoint dep_steps (s : cstate) (aud : list member) (st : member * list vname) (vs : list bytes)
  : Outcome (member * list vname) :=
  match vs with
  | [] => Ok st
  | v :: tl => obind (dep_step s aud st v) (fun st' => dep_steps s aud st' tl)
  end.

(** [a.checkExpr(cfg, src)]: the member (with the signal sources the
    expression adds) and the expression.  [aud] is the audience against which
    "variable defined" is checked (the member being built is already in it,
    as in the Go code where the member is registered first). *)
Definition check_expr (orc : oracles) (s : cstate) (aud : list member) (m : member) (src : bytes)
  : Outcome (member * expr) :=
  obind (preproc (c_pvars s) src) (fun src' =>
  obind (of_opt (o_expr_vars orc src') E_syntax) (fun vars =>
  obind (dep_steps s aud (m, []) vars) (fun st =>
  Ok (fst st, mkExpr src' (snd st))))).

Definition true_src : bytes := bs "true".

(** [ensureAuditCond] *)
Definition ensure_cond (orc : oracles) (s : cstate) (aud : list member) (m : member) : Outcome member :=
  match m_cond m with
  | Some _ => Ok m
  | None => obind (check_expr orc s aud m true_src) (fun me => Ok (set_cond (fst me) (Some (snd me))))
  end.

Definition modalities : list bytes :=
  [bs "always"; bs "never"; bs "not always"; bs "eventually"; bs "always eventually";
   bs "eventually always"; bs "once"; bs "twice"; bs "thrice"; bs "at most once"].

Definition decode_mode (t : bytes) : option amode :=
  if bytes_eqb t (bs "last") then Some ALast
  else if bytes_eqb t (bs "first") then Some AFirst
  else if bytes_eqb t (bs "bottom") then Some ABottom
  else if bytes_eqb t (bs "top") then Some ATop
  else None.
Definition mode_text (m : amode) : bytes :=
  match m with
  | ASingle => [] | AFirst => bs "first" | ALast => bs "last" | ATop => bs "top" | ABottom => bs "bottom"
  end.

Definition with_member (s : cstate) (m : member) : cstate := set_aud s (put_member (c_aud s) m).

(** the audience with member [n] registered (addOrGetAudienceMember happened) *)
Definition aud_with (s : cstate) (n : bytes) : list member :=
  put_member (c_aud s) (get_member (c_aud s) n).

Definition apply_assign (orc : oracles) (s : cstate) (mn v : bytes) (mode : amode) (n : Z) (e : bytes)
  : Outcome cstate :=
  let aud := aud_with s mn in
  let m := get_member (c_aud s) mn in
  obind (ensure_cond orc s aud m) (fun m1 =>
  obind (check_expr orc s aud m1 e) (fun me =>
  check (negb (var_defined aud v)) E_dup (
  Ok (with_member s (set_assigns (fst me) (m_assigns (fst me) ++ [mkAssign v (snd me) mode n])))))).

Definition decode_result (r : bytes) : option bool :=      (* true = disappointment *)
  if bytes_eqb r (bs "disappointment") then Some true
  else if bytes_eqb r (bs "satisfaction") then Some false
  else None.

Definition set_foul (bad : bool) (f : foul) (m : member) : member :=
  if bad then set_foulbad m f else set_foulgood m f.

(** * [apply]: one clause *)
Definition apply (orc : oracles) (s : cstate) (c : clause) : Outcome cstate :=
  match c with
  | CTitle t =>
      check (negb (is_nil t)) E_syntax (
      obind (preproc (c_pvars s) t) (fun t' => Ok (set_titles s (c_titles s ++ [t']))))
  | CAttention t =>
      check (negb (is_nil t)) E_syntax (
      obind (preproc (c_pvars s) t) (fun t' => Ok (set_seealso s (c_seealso s ++ [t']))))
  | CAuthor t =>
      check (negb (is_nil t)) E_syntax (Ok (set_authors s (c_authors s ++ [t])))
  | CParam n v =>
      check (ident_ok n) E_ident (Ok (set_pvars s (add_pvar (c_pvars s) n v)))
  | CRole n ext ls => apply_role orc s n ext ls
  | CCast an star mul rn env => apply_cast s an star mul rn env
  | CTempo d => obind (of_opt (o_dur_parse orc d) E_syntax) (fun ns => Ok (set_tempo s ns))
  | CEntails ch tg acts => apply_entails s ch tg acts
  | CMoodStart ch mood => apply_mood s ch mood true
  | CMoodEnd ch mood => apply_mood s ch mood false
  | CStoryline t =>
      obind (do_storyline (scene_defined s) (c_story s) t) (fun st =>
      Ok (update_repeat orc (set_story s st)))
  | CEdit pat repl =>
      check (o_re_ok orc pat) E_syntax (
      obind (do_edit (scene_defined s) (c_story s) (o_re_replace orc pat repl)) (fun st =>
      Ok (update_repeat orc (set_story s st))))
  | CRepeatFrom re =>
      check (o_re_ok orc re) E_syntax (Ok (update_repeat orc (set_from s (Some re))))
  | CRepeatCount n =>
      obind (preproc (c_pvars s) n) (fun n' =>
      obind (of_opt (parse_int n') E_syntax) (fun k => Ok (set_count s k)))
  | CRepeatAlways => Ok (set_count s (-1))
  | CRepeatTime d =>
      obind (preproc (c_pvars s) d) (fun d' =>
      if bytes_eqb d' unconstrained then Ok (set_timeout s (-1))
      else obind (of_opt (o_dur_parse orc d') E_syntax) (fun ns => Ok (set_timeout s ns)))
  | CWatches mn tg sg =>
      check (ident_ok mn) E_ident (
      check (ident_ok sg) E_ident (
      obind (select_actors s tg) (fun ra =>
      let '(r, found) := ra in
      match found with
      | [] => Ok s                             (* warning only; the member is not even created *)
      | _ =>
          obind (fold_left (fun acc a => obind acc (fun m => add_signal_source r m (a_name a, sg)))
                           found (Ok (get_member (c_aud s) mn))) (fun m =>
          Ok (with_member s m))
      end)))
  | CWatchVar mn v =>
      check (ident_ok mn) E_ident (
      check (ident_ok v) E_ident (
      check (var_defined (c_aud s) v) E_undef (
      let m := get_member (c_aud s) mn in
      Ok (with_member s (set_obs m (add_obs (m_obs m) ([], v)))))))
  | CMeasures mn l =>
      check (ident_ok mn) E_ident (
      check (negb (is_nil l)) E_syntax (
      Ok (with_member s (set_ylabel (get_member (c_aud s) mn) l))))
  | COnlyHelps mn =>
      check (ident_ok mn) E_ident (
      Ok (with_member s (set_noplot (get_member (c_aud s) mn) true)))
  | CExpects mn modality e =>
      check (ident_ok mn) E_ident (
      let aud := aud_with s mn in
      obind (ensure_cond orc s aud (get_member (c_aud s) mn)) (fun m1 =>
      check (match m_expect m1 with None => true | Some _ => false end) E_rule (
      check (mem_bytes modality modalities) E_syntax (
      obind (check_expr orc s aud m1 e) (fun me =>
      Ok (with_member s (set_expect (fst me) (Some (modality, snd me)))))))))
  | CExpectsLike mn tn =>
      check (ident_ok mn) E_ident (
      check (ident_ok tn) E_ident (
      obind (of_opt (find_member tn (c_aud s)) E_undef) (fun tg =>
      obind (of_opt (m_expect tg) E_rule) (fun ex =>
      let aud := aud_with s mn in
      let m := get_member (c_aud s) mn in
      check (match m_expect m with None => true | Some _ => false end) E_rule (
      obind (match m_cond m with
             | Some _ => Ok m
             | None =>
                 (* the target's condition is parsed again from its source;
                    a target with an expectation always has a condition *)
                 match m_cond tg with
                 | None => Panic
                 | Some tc => obind (check_expr orc s aud m (x_src tc)) (fun me =>
                              Ok (set_cond (fst me) (Some (snd me))))
                 end
             end) (fun m1 =>
      (* the predicate is checked again, from its source, on behalf of this
         member (which registers the member for the signals it mentions) *)
      obind (check_expr orc s aud m1 (x_src (snd ex))) (fun me =>
      Ok (with_member s (set_expect (fst me) (Some (fst ex, snd me)))))))))))
  | CAudits mn e =>
      check (ident_ok mn) E_ident (
      let aud := aud_with s mn in
      let m := get_member (c_aud s) mn in
      check (match m_cond m with None => true | Some _ => false end) E_rule (
      obind (check_expr orc s aud m e) (fun me =>
      Ok (with_member s (set_cond (fst me) (Some (snd me)))))))
  | CAuditsAll mn =>
      check (ident_ok mn) E_ident (
      let aud := aud_with s mn in
      let m := get_member (c_aud s) mn in
      check (match m_cond m with None => true | Some _ => false end) E_rule (
      obind (check_expr orc s aud m true_src) (fun me =>
      Ok (with_member s (set_cond (fst me) (Some (snd me)))))))
  | CCollects mn v mode n e =>
      check (ident_ok mn) E_ident (
      check (ident_ok v) E_ident (
      obind (of_opt (decode_mode mode) E_syntax) (fun md =>
      obind (of_opt (atoi_digits n) E_syntax) (fun k =>
      check (1 <=? Z.of_N k) E_rule (
      apply_assign orc s mn v md (Z.of_N k) e)))))
  | CComputes mn v e =>
      check (ident_ok mn) E_ident (
      check (ident_ok v) E_ident (
      apply_assign orc s mn v ASingle 0 e))
  | CIgnoreAll res =>
      obind (of_opt (decode_result res) E_syntax) (fun bad =>
      Ok (set_aud s (map (set_foul bad FIgnore) (c_aud s))))
  | CInterp mode tn res =>
      obind (of_opt (if bytes_eqb mode (bs "ignore") then Some FIgnore
                     else if bytes_eqb mode (bs "foul") then Some FNonZero
                     else if bytes_eqb mode (bs "require") then Some FZero else None) E_syntax) (fun f =>
      check (ident_ok tn) E_ident (
      obind (of_opt (decode_result res) E_syntax) (fun bad =>
      obind (of_opt (find_member tn (c_aud s)) E_undef) (fun m =>
      Ok (with_member s (set_foul bad f m))))))
  end.

Fixpoint run (orc : oracles) (cl : list clause) (s : cstate) : Outcome cstate :=
  match cl with
  | [] => Ok s
  | c :: tl => obind (apply orc s c) (run orc tl)
  end.

(** * [print]: printCfg's order *)

Definition print_role (r : role) : clause :=
  CRole (r_name r) None
    ((if is_nil (r_cleanup r) then [] else [RCleanup (r_cleanup r)])
     ++ (if is_nil (r_spotlight r) then [] else [RSpotlight (r_spotlight r)])
     ++ map (fun g => RSignal (sg_name g) (typ_text (sg_typ g)) (sg_re g)) (r_sigs r)
     ++ map (fun a => RAction (fst a) (snd a)) (r_actions r)).

Definition print_actor (a : actor) : clause :=
  CCast (a_name a) false None (a_role a) (a_env a).

Definition print_scene (sc : scenespec) : list clause :=
  map (fun e => CEntails [s_char sc] (TActor (e_actor e)) (e_actions e)) (s_entails sc)
  ++ (if is_nil (s_mstart sc) then [] else [CMoodStart [s_char sc] (s_mstart sc)])
  ++ (if is_nil (s_mend sc) then [] else [CMoodEnd [s_char sc] (s_mend sc)]).

Definition print_repeat (orc : oracles) (s : cstate) : list clause :=
  match c_from s with
  | None => []
  | Some re =>
      [CRepeatFrom re;
       CRepeatTime (if c_timeout s <? 0 then unconstrained else o_dur_string orc (c_timeout s));
       (if 0 <=? c_count s then CRepeatCount (itoa_z (c_count s)) else CRepeatAlways)]
  end.

Definition print_script (orc : oracles) (s : cstate) : list clause :=
  CTempo (o_dur_string orc (c_tempo s))
  :: flat_map print_scene (c_scenes s)
  ++ (match c_story s with
      | [] => []
      | _ => CStoryline (join_sp (c_story s)) :: print_repeat orc s
      end).

Definition print_watch (mn : bytes) (v : vname) : clause :=
  match fst v with
  | [] => CWatchVar mn (snd v)
  | a => CWatches mn (TActor a) (snd v)
  end.

Definition print_assign (mn : bytes) (a : assign) : clause :=
  match as_mode a with
  | ASingle => CComputes mn (as_var a) (x_src (as_expr a))
  | md => CCollects mn (as_var a) (mode_text md) (itoa_z (as_n a)) (x_src (as_expr a))
  end.

Definition print_member (m : member) : list clause :=
  (match m_cond m with
   | None => []
   | Some e => if bytes_eqb (x_src e) true_src then [CAuditsAll (m_name m)] else [CAudits (m_name m) (x_src e)]
   end)
  ++ map (print_assign (m_name m)) (m_assigns m)
  ++ (match m_expect m with
      | None => []
      | Some (f, e) => [CExpects (m_name m) f (x_src e)]
      end)
  ++ map (print_watch (m_name m)) (m_obs m)
  ++ (if is_nil (m_ylabel m) then [] else [CMeasures (m_name m) (m_ylabel m)])
  ++ (if m_noplot m then [COnlyHelps (m_name m)] else []).

Definition foul_text (f : foul) : bytes :=
  match f with FIgnore => bs "ignore" | FNonZero => bs "foul" | FZero => bs "require" end.

(** [fmtFoul], only for members that expect something *)
Definition print_interp (m : member) : list clause :=
  match m_expect m with
  | None => []
  | Some _ =>
      [CInterp (foul_text (m_foulbad m)) (m_name m) (bs "disappointment");
       CInterp (foul_text (m_foulgood m)) (m_name m) (bs "satisfaction")]
  end.

Definition print (orc : oracles) (s : cstate) : list clause :=
  map CTitle (c_titles s) ++ map CAuthor (c_authors s) ++ map CAttention (c_seealso s)
  ++ map print_role (c_roles s)
  ++ map print_actor (c_actors s)
  ++ print_script orc s
  ++ flat_map print_member (c_aud s)
  ++ flat_map print_interp (c_aud s).

(** * The reload, its hypotheses and its conclusion (statement level) *)

(** [reload]: the printed clauses applied to a fresh configuration (no -D). *)
Definition reload (orc : oracles) (s : cstate) : Outcome cstate :=
  run orc (print orc s) (init_state []).

(** A text that parameter substitution leaves alone. *)
Definition inert (t : bytes) : bool :=
  match preproc [] t with Ok t' => bytes_eqb t' t | _ => false end.

Definition plain_deps (e : expr) : list bytes :=
  map snd (filter (fun d => is_nil (fst d)) (x_deps e)).
Definition sig_deps (e : expr) : list vname :=
  filter (fun d => negb (is_nil (fst d))) (x_deps e).
Definition plain_obs (m : member) : list bytes :=
  map snd (filter (fun d => is_nil (fst d)) (m_obs m)).

(** ** Definition before use IN PRINT ORDER (the listed findings
    watches-before-computes / uses-before-computes are its negation):
    members in declaration order; inside a member: audits, then collects /
    computes in order, then expects, then watches. *)
Definition all_defined (defd : list bytes) (vs : list bytes) : bool :=
  forallb (defined_in defd) vs.

Fixpoint assigns_ordered (defd : list bytes) (l : list assign) : bool :=
  match l with
  | [] => true
  | a :: tl => all_defined defd (plain_deps (as_expr a)) && assigns_ordered (defd ++ [as_var a]) tl
  end.

Definition member_ordered (defd : list bytes) (m : member) : bool :=
  (match m_cond m with None => true | Some e => all_defined defd (plain_deps e) end)
  && assigns_ordered defd (m_assigns m)
  && (let defd' := defd ++ map as_var (m_assigns m) in
      (match m_expect m with None => true | Some fe => all_defined defd' (plain_deps (snd fe)) end)
      && all_defined defd' (plain_obs m)).

Fixpoint aud_ordered (defd : list bytes) (aud : list member) : bool :=
  match aud with
  | [] => true
  | m :: tl => member_ordered defd m && aud_ordered (defd ++ map as_var (m_assigns m)) tl
  end.

Definition member_exprs (m : member) : list expr :=
  (match m_cond m with None => [] | Some e => [e] end)
  ++ map as_expr (m_assigns m)
  ++ (match m_expect m with None => [] | Some fe => [snd fe] end).

Definition outcome_is {A} (eqb : A -> A -> bool) (o : Outcome A) (a : A) : bool :=
  match o with Ok x => eqb x a | _ => false end.

(** [printable]: what the listed findings violate.  A state that is not
    printable is one of: a substituted text that is empty or not inert
    (the substituted-value findings), a signal regexp still holding a pseudo-pattern
    (ts-pseudo-pattern-twice), an audience not in definition order
    (watches- / uses-before-computes).  [story_printable] is no finding: it
    is an invariant of the storyline functions (C06), assumed here. *)
Definition texts_printable (s : cstate) : bool :=
  forallb (fun t => inert t && negb (is_nil t)) (c_titles s ++ c_seealso s)
  && forallb (fun r => inert (r_name r)) (c_roles s)
  && forallb (fun a => inert (a_env a)) (c_actors s)
  && forallb (fun m => forallb (fun e => inert (x_src e)) (member_exprs m)) (c_aud s).

Definition regexps_printable (s : cstate) : bool :=
  forallb (fun r => forallb (fun g => bytes_eqb (expand_ts (sg_re g)) (sg_re g)) (r_sigs r)) (c_roles s).

Definition story_printable (s : cstate) : bool :=
  outcome_is (list_eqb bytes_eqb) (do_storyline (scene_defined s) [] (join_sp (c_story s))) (c_story s).

Definition printable (s : cstate) : bool :=
  texts_printable s && regexps_printable s && aud_ordered [] (c_aud s) && story_printable s.

(** ** Well-formedness: what every state built by accepted clauses satisfies
    (the invariant of the construction). *)
Fixpoint nodup_b (l : list bytes) : bool :=
  match l with
  | [] => true
  | x :: tl => negb (mem_bytes x tl) && nodup_b tl
  end.

Definition sig_wf (orc : oracles) (g : sigp) : bool :=
  ident_ok (sg_name g)
  && match o_re_groups orc (sg_re g) with
     | Some gs => mem_bytes (typ_text (sg_typ g)) gs && has_ts_group gs
     | None => false
     end.

Definition role_wf (orc : oracles) (r : role) : bool :=
  ident_ok (r_name r)
  && forallb (fun a => ident_ok (fst a)) (r_actions r) && nodup_b (map fst (r_actions r))
  && forallb (sig_wf orc) (r_sigs r) && nodup_b (map sg_name (r_sigs r))
  && (is_nil (r_sigs r) || negb (is_nil (r_spotlight r))).

Definition actor_wf (s : cstate) (a : actor) : bool :=
  ident_ok (a_name a) && existsb (fun r => bytes_eqb (a_role a) (r_name r)) (c_roles s).

Definition entail_wf (s : cstate) (e : entail) : bool :=
  match find_actor (e_actor e) (c_actors s) with
  | None => false
  | Some a =>
      match find_role (a_role a) (c_roles s) with
      | None => false
      | Some r => forallb (fun x => has_action (strip_qm x) r) (e_actions e)
      end
  end.

Definition scene_wf (s : cstate) (sc : scenespec) : bool :=
  (is_alpha (s_char sc) || is_digit (s_char sc))
  && forallb (entail_wf s) (s_entails sc)
  && (is_nil (s_mstart sc) || ident_ok (s_mstart sc))
  && (is_nil (s_mend sc) || ident_ok (s_mend sc))
  && (negb (is_nil (s_entails sc)) || negb (is_nil (s_mstart sc)) || negb (is_nil (s_mend sc))).

Definition repeat_wf (orc : oracles) (s : cstate) : bool :=
  match c_from s with
  | None => c_actnum s =? 0
  | Some re =>
      o_re_ok orc re
      && (c_actnum s =? match first_match (o_re_match orc re) (c_story s) 1 with Some n => n | None => 0 end)
  end.

(** the dependency names an expression has, as the parser computed them: a
    function of its source (the oracle is a function) *)
Definition ovname_eqb (a : option vname) (b : vname) : bool :=
  match a with Some x => vname_eqb x b | None => false end.

Fixpoint deps_match (vs : list bytes) (deps : list vname) : bool :=
  match vs, deps with
  | [], [] => true
  | v :: vs', d :: deps' => ovname_eqb (parse_dep v) d && deps_match vs' deps'
  | _, _ => false
  end.

Definition sigref_wf (s : cstate) (d : vname) : bool :=
  ident_ok (fst d) && ident_ok (snd d)
  && match find_actor (fst d) (c_actors s) with
     | None => false
     | Some a =>
         match find_role (a_role a) (c_roles s) with
         | None => false
         | Some r => match find_sig (snd d) (r_sigs r) with Some _ => true | None => false end
         end
     end.

Definition dep_wf (s : cstate) (d : vname) : bool :=
  if is_nil (fst d) then ident_ok (snd d) else sigref_wf s d.

Definition expr_wf (orc : oracles) (s : cstate) (e : expr) : bool :=
  match o_expr_vars orc (x_src e) with
  | None => false
  | Some vs => deps_match vs (x_deps e) && forallb (dep_wf s) (x_deps e)
  end.

Fixpoint nodup_v (l : list vname) : bool :=
  match l with
  | [] => true
  | x :: tl => negb (existsb (vname_eqb x) tl) && nodup_v tl
  end.

Definition assign_wf (a : assign) : bool :=
  ident_ok (as_var a) && match as_mode a with ASingle => as_n a =? 0 | _ => 1 <=? as_n a end.

Definition member_wf (orc : oracles) (s : cstate) (m : member) : bool :=
  ident_ok (m_name m)
  && forallb (expr_wf orc s) (member_exprs m)
  && forallb assign_wf (m_assigns m)
  && (match m_expect m with None => true | Some fe => mem_bytes (fst fe) modalities end)
  && (match m_cond m with Some _ => true | None => is_nil (m_assigns m) && match m_expect m with None => true | Some _ => false end end)
  && nodup_v (m_obs m)
  && forallb (dep_wf s) (m_obs m)
  && forallb (fun e => forallb (fun d => existsb (vname_eqb d) (m_obs m)) (sig_deps e)) (member_exprs m)
  && (match m_cond m with Some _ => true | None => false end
      || negb (is_nil (m_obs m)) || negb (is_nil (m_ylabel m)) || m_noplot m).

Definition wf_state (orc : oracles) (s : cstate) : bool :=
  forallb (fun t => negb (is_nil t)) (c_authors s)
  && forallb (role_wf orc) (c_roles s) && nodup_b (map r_name (c_roles s))
  && forallb (actor_wf s) (c_actors s) && nodup_b (map a_name (c_actors s))
  && forallb (scene_wf s) (c_scenes s) && nodup_b (map (fun sc => [s_char sc]) (c_scenes s))
  && repeat_wf orc s
  && forallb (member_wf orc s) (c_aud s) && nodup_b (map m_name (c_aud s))
  && nodup_b (builtin_vars ++ vars_of (c_aud s)).

(** ** Conclusion: the same play *)

(** what the conductor does with the repetition clauses *)
Definition eff_repeat (s : cstate) : option (Z * Z * Z) :=
  if 0 <? c_actnum s then
    Some (c_actnum s, (if c_timeout s <? 0 then -1 else c_timeout s), (if c_count s <? 0 then -1 else c_count s))
  else None.

Definition same_member (m m' : member) : Prop :=
  m_name m = m_name m' /\ m_cond m = m_cond m' /\ m_assigns m = m_assigns m'
  /\ m_expect m = m_expect m' /\ Permutation (m_obs m) (m_obs m')
  /\ m_ylabel m = m_ylabel m' /\ m_noplot m = m_noplot m'
  /\ (m_expect m <> None -> m_foulbad m = m_foulbad m' /\ m_foulgood m = m_foulgood m').

(** Roles, cast, scenes, tempo and storyline (hence the compiled play, which
    compileV2 computes from exactly these), the effective repetition, the
    audience clauses (watches as a set) and the interpretation of the members
    that expect something (the only ones it applies to). *)
Definition same_play (s s' : cstate) : Prop :=
  c_titles s = c_titles s' /\ c_authors s = c_authors s' /\ c_seealso s = c_seealso s'
  /\ c_roles s = c_roles s' /\ c_actors s = c_actors s' /\ c_scenes s = c_scenes s'
  /\ c_tempo s = c_tempo s' /\ c_story s = c_story s'
  /\ eff_repeat s = eff_repeat s'
  /\ Forall2 same_member (c_aud s) (c_aud s').

(** "Up to the order of one observer's watches": the least equivalence that
    is a congruence for [::] and swaps two adjacent watch clauses of the same
    member. *)
Definition watch_of (c : clause) : option bytes :=
  match c with
  | CWatches m _ _ => Some m
  | CWatchVar m _ => Some m
  | _ => None
  end.

Inductive print_equiv : list clause -> list clause -> Prop :=
| pe_nil : print_equiv [] []
| pe_cons c l l' : print_equiv l l' -> print_equiv (c :: l) (c :: l')
| pe_swap c d m l : watch_of c = Some m -> watch_of d = Some m -> print_equiv (c :: d :: l) (d :: c :: l)
| pe_trans l1 l2 l3 : print_equiv l1 l2 -> print_equiv l2 l3 -> print_equiv l1 l3.

(** * [render]: the concrete text of a clause list, in printCfg's layout
    (sections opened when the kind of clause changes, two blanks of
    indentation, commands and `with` environments through escapeNl, the one
    comment printCfg emits even without comments after `repeat from`).
    Applied to a printed clause list it gives the bytes printCfg writes; the
    correspondence run checks that on every case, so that the clause lists it
    compares stand for the real text. *)
Definition esc_nl (s : bytes) : bytes :=
  flat_map (fun c => if Byte.eqb c x0a then [x5c; x0a] else [c]) s.

Fixpoint join_with (sep : bytes) (l : list bytes) : bytes :=
  match l with
  | [] => []
  | [x] => x
  | x :: tl => x ++ sep ++ join_with sep tl
  end.

Definition render_target (tg : target) : bytes :=
  match tg with TActor a => a | TEvery r => bs "every " ++ r end.

Definition render_role_line (l : role_line) : bytes :=
  match l with
  | RAction n c => bs ":" ++ n ++ bs " " ++ esc_nl c
  | RSpotlight c => bs "spotlight " ++ esc_nl c
  | RCleanup c => bs "cleanup " ++ esc_nl c
  | RSignal n t r => bs "signal " ++ n ++ bs " " ++ t ++ bs " at " ++ r
  end.

Inductive section := SecTop | SecCast | SecScript | SecAudience | SecInterp.

Definition section_of (c : clause) : section :=
  match c with
  | CTitle _ | CAuthor _ | CAttention _ | CParam _ _ | CRole _ _ _ => SecTop
  | CCast _ _ _ _ _ => SecCast
  | CTempo _ | CEntails _ _ _ | CMoodStart _ _ | CMoodEnd _ _ | CStoryline _ | CEdit _ _
  | CRepeatFrom _ | CRepeatCount _ | CRepeatAlways | CRepeatTime _ => SecScript
  | CIgnoreAll _ | CInterp _ _ _ => SecInterp
  | _ => SecAudience
  end.

Definition section_eqb (a b : section) : bool :=
  match a, b with
  | SecTop, SecTop | SecCast, SecCast | SecScript, SecScript | SecAudience, SecAudience | SecInterp, SecInterp => true
  | _, _ => false
  end.

Definition section_header (s : section) : bytes :=
  match s with
  | SecTop => []
  | SecCast => bs "cast"
  | SecScript => bs "script"
  | SecAudience => bs "audience"
  | SecInterp => bs "interpretation"
  end.

(** one clause as one line (a role: its header line) *)
Definition render_line (c : clause) : bytes :=
  match c with
  | CTitle t => bs "title " ++ t
  | CAuthor t => bs "author " ++ t
  | CAttention t => bs "attention " ++ t
  | CParam n v => bs "parameter " ++ n ++ bs " defaults to " ++ v
  | CRole n ext _ => bs "role " ++ n ++ (match ext with None => [] | Some e => bs " extends " ++ e end)
  | CCast a star mul r env =>
      a ++ (if star then bs "*" else [])
      ++ (match mul with None => bs " plays " | Some m => bs " play " ++ m ++ bs " " end)
      ++ r ++ (if is_nil env then [] else bs " with " ++ esc_nl env)
  | CTempo d => bs "tempo " ++ d
  | CEntails ch tg acts =>
      bs "scene " ++ ch ++ bs " entails for " ++ render_target tg ++ bs ": " ++ join_with (bs "; ") acts
  | CMoodStart ch m => bs "scene " ++ ch ++ bs " mood starts " ++ m
  | CMoodEnd ch m => bs "scene " ++ ch ++ bs " mood ends " ++ m
  | CStoryline t => bs "storyline " ++ t
  | CEdit p r => bs "edit s/" ++ p ++ bs "/" ++ r ++ bs "/"
  | CRepeatFrom re => bs "repeat from " ++ re
  | CRepeatCount n => bs "repeat " ++ n ++ bs " times"
  | CRepeatAlways => bs "repeat always"
  | CRepeatTime d => bs "repeat time " ++ d
  | CWatches m tg g => m ++ bs " watches " ++ render_target tg ++ bs " " ++ g
  | CWatchVar m v => m ++ bs " watches " ++ v
  | CMeasures m l => m ++ bs " measures " ++ l
  | COnlyHelps m => m ++ bs " only helps"
  | CAudits m e => m ++ bs " audits only while " ++ e
  | CAuditsAll m => m ++ bs " audits throughout"
  | CExpects m f e => m ++ bs " expects " ++ f ++ bs ": " ++ e
  | CExpectsLike m t => m ++ bs " expects like " ++ t
  | CCollects m v md n e => m ++ bs " collects " ++ v ++ bs " as " ++ md ++ bs " " ++ n ++ bs " " ++ e
  | CComputes m v e => m ++ bs " computes " ++ v ++ bs " as " ++ e
  | CIgnoreAll r => bs "ignore " ++ r
  | CInterp md t r =>
      (if bytes_eqb md (bs "foul") then bs "foul upon" else md) ++ bs " " ++ t ++ bs " " ++ r
  end.

Definition nl : bytes := [x0a].
Definition end_line : bytes := bs "end" ++ nl.

Definition close_section (open : section) : bytes :=
  match open with SecTop => [] | _ => end_line end.

Definition repeat_comment (actnum : Z) : bytes :=
  if 0 <? actnum then bs "  # (repeating act " ++ itoa_z actnum ++ bs " and following)" ++ nl
  else bs "  # (no matching act, nothing is repeated)" ++ nl.

Fixpoint render_from (open : section) (actnum : Z) (cl : list clause) : bytes :=
  match cl with
  | [] => close_section open
  | c :: tl =>
      let sec := section_of c in
      match sec with
      | SecTop =>
          close_section open
          ++ render_line c ++ nl
          ++ (match c with
              | CRole _ _ ls => flat_map (fun l => bs "  " ++ render_role_line l ++ nl) ls ++ end_line
              | _ => []
              end)
          ++ render_from SecTop actnum tl
      | _ =>
          (if section_eqb sec open then [] else close_section open ++ section_header sec ++ nl)
          ++ bs "  " ++ render_line c ++ nl
          ++ (match c with CRepeatFrom _ => repeat_comment actnum | _ => [] end)
          ++ render_from sec actnum tl
      end
  end.

Definition render (actnum : Z) (cl : list clause) : bytes := render_from SecTop actnum cl.
