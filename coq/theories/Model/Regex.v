(** A small regular-expression matcher with Perl / Go semantics (leftmost
    match, alternatives tried in order — "leftmost-first", NOT
    leftmost-longest; greedy and lazy repetition) and Go's
    [Regexp.ReplaceAllString] loop on top of it (property C06, `edit`
    clauses).

    This is NOT a model of Go's regexp package (that package is not modelled:
    the theorems about `edit` quantify over every substitution function).  It
    is an independent matcher for the oracle of the correspondence check: for a
    fixed corpus of patterns, written twice by hand — as Go pattern text and
    as a term of [re] — the storyline an `edit` clause must produce is computed
    here and compared with what the real parser produced with the real regexp
    package.

    Subset: literal bytes, `.`, byte sets `[..]` / `[^..]`, the empty
    expression, alternation, concatenation, `*` `+` `?` and their lazy forms
    (through [Star]), `^` and `$` (no multi-line mode).  No captures: the
    replacement is literal text (no `$`).  Repetition of an expression that
    can match the empty string is outside the subset (an iteration that
    consumes nothing is cut, which is what RE2 does for the simple cases but
    is not claimed in general).  Bytes, not runes: ASCII input only. *)
From Shk Require Import Base.Prelude.

Inductive re :=
| Chr (c : byte)
| Any                                   (* `.`: any byte but newline *)
| Set_ (neg : bool) (cs : list byte)    (* [cs] / [^cs] *)
| Eps
| Alt (a b : re)                        (* a|b, a preferred *)
| Cat (a b : re)
| Star (greedy : bool) (a : re)         (* a* / a*? *)
| Bol                                   (* ^ *)
| Eol.                                  (* $ *)

Definition Plus (g : bool) (a : re) : re := Cat a (Star g a).      (* a+ / a+? *)
Definition Opt (g : bool) (a : re) : re := if g then Alt a Eps else Alt Eps a.   (* a? / a?? *)

Definition mem (c : byte) (cs : list byte) : bool := existsb (Byte.eqb c) cs.

(** [mt r total s k]: match [r] at the front of [s] (a suffix of the subject,
    whose length is [total]), then continue with [k] on what is left; the
    first success in priority order wins (backtracking). *)
Fixpoint mt (r : re) (total : nat) (s : list byte) (k : list byte -> option (list byte))
  : option (list byte) :=
  match r with
  | Chr c => match s with x :: tl => if Byte.eqb x c then k tl else None | [] => None end
  | Any => match s with x :: tl => if Byte.eqb x x0a then None else k tl | [] => None end
  | Set_ neg cs => match s with
                   | x :: tl => if Bool.eqb (mem x cs) (negb neg) then k tl else None
                   | [] => None
                   end
  | Eps => k s
  | Alt a b => match mt a total s k with Some x => Some x | None => mt b total s k end
  | Cat a b => mt a total s (fun s' => mt b total s' k)
  | Star greedy a =>
      (fix loop (fuel : nat) (s : list byte) : option (list byte) :=
         match fuel with
         | O => k s
         | S fuel' =>
             let more := mt a total s (fun s' => if Nat.ltb (List.length s') (List.length s)
                                                  then loop fuel' s' else None) in
             if greedy then match more with Some x => Some x | None => k s end
             else match k s with Some x => Some x | None => more end
         end) (S (List.length s)) s
  | Bol => if Nat.eqb (List.length s) total then k s else None
  | Eol => match s with [] => k s | _ => None end
  end.

(** The leftmost match at or after the front of [s]: (bytes skipped, rest
    after the match). *)
Fixpoint find_match (r : re) (total : nat) (s : list byte) (skipped : list byte)
  : option (list byte * list byte) :=
  match mt r total s (fun x => Some x) with
  | Some rest => Some (rev skipped, rest)
  | None => match s with
            | [] => None
            | c :: tl => find_match r total tl (c :: skipped)
            end
  end.

(** Go's [replaceAll] loop (regexp.go), with positions as suffixes:
    [s] = src[searchPos:], [gap] = src[lastMatchEnd:searchPos] reversed.

      a := leftmost match [a0,a1) at or after searchPos; none: stop
      copy src[lastMatchEnd:a0]
      insert the replacement unless the match is empty and ends where the
        previous one ended (a1 = lastMatchEnd) and a0 <> 0
      lastMatchEnd := a1
      searchPos := a1, but at least one byte further than before.      *)
Definition is_nil {A} (l : list A) : bool := match l with [] => true | _ => false end.

Fixpoint replace_loop (fuel : nat) (r : re) (repl : list byte) (total : nat)
         (s gap : list byte) : list byte :=
  match fuel with
  | O => rev gap ++ s
  | S fuel' =>
      match find_match r total s [] with
      | None => rev gap ++ s
      | Some (skipped, rest) =>
          let mlen := (List.length s - List.length skipped - List.length rest)%nat in
          let here := Nat.eqb mlen 0 && is_nil skipped in            (* a0 = a1 = searchPos *)
          let insert := negb (here && is_nil gap && negb (Nat.eqb (List.length s) total)) in
          let out := rev gap ++ skipped ++ (if insert then repl else []) in
          if here then
            match s with
            | c :: tl => out ++ replace_loop fuel' r repl total tl [c]
            | [] => out
            end
          else out ++ replace_loop fuel' r repl total rest []
      end
  end.

(** [Regexp.ReplaceAllString(src, repl)] for a [$]-free replacement. *)
Definition re_replace (r : re) (repl src : list byte) : list byte :=
  replace_loop (2 * List.length src + 3) r repl (List.length src) src [].
