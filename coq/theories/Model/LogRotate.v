(** Model of log file rotation and garbage collection (pkg/crdb/log):
    syncBuffer.Write / rotateFile (clog.go:1058-1142), create()'s monotonic
    file time stamps (file.go:227-270), gcOldFiles (clog.go:1264-1297) and
    selectFiles (file.go:410-422), over an abstract directory.

    A file is (time stamp of its name, size in bytes, identifiers of the user
    messages written to it, oldest first).  The directory is kept newest first.
    What is abstracted: a message is its identifier and the length of its
    formatted entry; the header entries rotateFile writes into every new file are
    a size [h] (their text is decoded back by the harness like any other entry
    but they are not user messages); the clock is a label of every operation,
    so every theorem holds for all clocks; sizes are sizes after a flush (the
    harness flushes before it looks, and before it runs GC).  [create] opens
    with O_APPEND|O_CREATE: the model assumes the generated name is new, which
    the monotonic time stamps guarantee for one logger. *)
From Shk Require Import Base.Prelude.
Open Scope Z_scope.

Record lfile := mkFile { f_stamp : Z; f_size : Z; f_msgs : list Z }.

Record lstate := mkState {
  dir : list lfile;        (* newest first *)
  is_open : bool;          (* l.file != nil *)
  nbytes : Z;              (* syncBuffer.nbytes *)
  last_rot : Z;            (* syncBuffer.lastRotation *)
  maxsz : Z                (* LogFileMaxSize *)
}.

Definition init_state (planted : list lfile) (m : Z) : lstate := mkState planted false 0 0 m.

(** rotateFile + create: the new name's time stamp is the clock, or one more
    than the previous one if the clock has not advanced past it. *)
Definition do_rotate (now h : Z) (s : lstate) : lstate :=
  let st := if now <=? last_rot s then last_rot s + 1 else now in
  mkState (mkFile st h [] :: dir s) true h st (maxsz s).

Definition append_msg (id len : Z) (s : lstate) : lstate :=
  match dir s with
  | f :: tl =>
      mkState (mkFile (f_stamp f) (f_size f + len) (f_msgs f ++ [id]) :: tl)
              (is_open s) (nbytes s + len) (last_rot s) (maxsz s)
  | [] => s   (* no file: cannot happen after a rotation *)
  end.

(** outputLogEntry: ensureFile (first rotation, clock [now1]), then
    syncBuffer.Write: rotate (clock [now2]) if nbytes + len >= LogFileMaxSize,
    then write. *)
Definition do_log (now1 now2 h id len : Z) (s : lstate) : lstate :=
  let s1 := if is_open s then s else do_rotate now1 h s in
  let s2 := if maxsz s1 <=? nbytes s1 + len then do_rotate now2 h s1 else s1 in
  append_msg id len s2.

(** selectFiles: newest first (insertion sort on the time stamp; ties keep
    their relative order, the harness never generates ties). *)
Fixpoint insert_desc (f : lfile) (l : list lfile) : list lfile :=
  match l with
  | [] => [f]
  | g :: tl => if f_stamp g <? f_stamp f then f :: l else g :: insert_desc f tl
  end.
Fixpoint sort_desc (l : list lfile) : list lfile :=
  match l with
  | [] => []
  | f :: tl => insert_desc f (sort_desc tl)
  end.

(** The loop of gcOldFiles over files[1:]: [sum] keeps growing over deleted
    files too. *)
Fixpoint gc_loop (bound sum : Z) (l : list lfile) : list lfile :=
  match l with
  | [] => []
  | f :: tl =>
      let sum' := sum + f_size f in
      if sum' <? bound then f :: gc_loop bound sum' tl else gc_loop bound sum' tl
  end.

Definition gc_select (bound : Z) (sorted : list lfile) : list lfile :=
  match sorted with
  | [] => []
  | newest :: tl => newest :: gc_loop bound (f_size newest) tl
  end.

Definition gc (bound : Z) (files : list lfile) : list lfile := gc_select bound (sort_desc files).

Definition do_gc (bound : Z) (s : lstate) : lstate :=
  mkState (gc bound (dir s)) (is_open s) (nbytes s) (last_rot s) (maxsz s).

Inductive rop :=
| RLog (now1 now2 id len : Z)
| RSetMax (m : Z)
| RGc (bound : Z)
| RSnap.

Definition rstep (h : Z) (s : lstate) (o : rop) : lstate :=
  match o with
  | RLog n1 n2 id len => do_log n1 n2 h id len s
  | RSetMax m => mkState (dir s) (is_open s) (nbytes s) (last_rot s) m
  | RGc b => do_gc b s
  | RSnap => s
  end.

Definition rrun (h : Z) (s : lstate) (ops : list rop) : lstate := fold_left (rstep h) ops s.

(** What is read back: the messages of the files, oldest file first. *)
Definition readback (s : lstate) : list Z := concat (map f_msgs (rev (dir s))).

Fixpoint logged (ops : list rop) : list Z :=
  match ops with
  | [] => []
  | RLog _ _ id _ :: tl => id :: logged tl
  | _ :: tl => logged tl
  end.

Fixpoint no_gc (ops : list rop) : bool :=
  match ops with
  | [] => true
  | RGc _ :: _ => false
  | _ :: tl => no_gc tl
  end.

(** Snapshots, for the correspondence: after every RGc and RSnap, the
    directory oldest first as (size, messages). *)
Definition snapshot (s : lstate) : list (Z * list Z) :=
  map (fun f => (f_size f, f_msgs f)) (rev (dir s)).

Fixpoint rrun_snaps (h : Z) (s : lstate) (ops : list rop) : list (list (Z * list Z)) :=
  match ops with
  | [] => []
  | o :: tl =>
      let s' := rstep h s o in
      match o with
      | RGc _ | RSnap => snapshot s' :: rrun_snaps h s' tl
      | _ => rrun_snaps h s' tl
      end
  end.

Definition sum_sizes (l : list lfile) : Z := fold_right (fun f a => f_size f + a) 0 l.
