(** Model of log file rotation and garbage collection (pkg/crdb/log):
    syncBuffer.Write / rotateFile (clog.go:1058-1142), create()'s monotonic
    file time stamps (file.go:227-270), gcOldFiles (clog.go:1264-1297) and
    selectFiles (file.go:410-422), over an abstract directory.

    A file is (time stamp of its name, size in bytes, identifiers of the user
    messages written to it, oldest first).  The directory is kept newest first.
    What is abstracted: a message is its identifier and the length of its
    formatted entry; the header entries rotateFile writes into every new file are
    a size [h] (their text is decoded back by the harness like any other entry
    but they are not user messages); the clock is a label of every operation,
    so every theorem holds for all clocks.  [dir] holds the *logical* content of
    the files (what has been written through syncBuffer); the bytes and
    messages of the newest file that still sit in its bufio.Writer are counted
    by [ubytes]/[ucount], and [on_disk] is what a reader of the directory sees.
    Flush() (in either mode) leaves nothing buffered; in sync mode
    (SetSync(true), which itself flushes) writeToFile flushes after every write;
    rotateFile flushes the old file and writes the header of the new one
    directly.  The harness looks at the directory only right after a flush, and
    runs GC right after one, so GC works on the sizes a flush leaves.

    create() opens the generated name with O_APPEND|O_CREATE.  Within one
    syncBuffer the monotonic time stamps make every name new; but closing the
    file (directory re-targeted, end of a scope, the CloseFile hook) discards
    the syncBuffer and its lastRotation, so a re-open within the same second
    generates the name of the file written last: its content stays and the
    header entries and the new messages are appended to it, while
    syncBuffer.nbytes restarts from the header alone.  The model follows a
    collision with the newest file; the clock being behind the newest file's
    name (possible after several rotations within one second, each bumping the
    stamp by one) is excluded by the hypotheses of the theorems and never
    produced by the harness.  [create] opens
    with O_APPEND|O_CREATE: the model assumes the generated name is new, which
    the monotonic time stamps guarantee for one logger. *)
From Shk Require Import Base.Prelude.
Open Scope Z_scope.

Record lfile := mkFile { f_stamp : Z; f_size : Z; f_msgs : list Z }.

Record lstate := mkState {
  dir : list lfile;        (* newest first *)
  is_open : bool;          (* l.file != nil *)
  nbytes : Z;              (* syncBuffer.nbytes *)
  last_rot : Z;            (* syncBuffer.lastRotation *)
  maxsz : Z;               (* LogFileMaxSize *)
  syncw : bool;            (* l.syncWrites *)
  ubytes : Z;              (* bytes of the newest file still in its bufio.Writer *)
  ucount : nat             (* ... and how many of its messages they are *)
}.

Definition init_state (planted : list lfile) (m : Z) : lstate := mkState planted false 0 0 m false 0 0.

(** Flush() / flushAndSync: nothing stays buffered. *)
Definition do_flush (s : lstate) : lstate :=
  mkState (dir s) (is_open s) (nbytes s) (last_rot s) (maxsz s) (syncw s) 0 0.

(** What is in the files of the directory (newest first). *)
Definition on_disk (s : lstate) : list lfile :=
  match dir s with
  | f :: tl =>
      mkFile (f_stamp f) (f_size f - ubytes s)
             (firstn (length (f_msgs f) - ucount s) (f_msgs f)) :: tl
  | [] => []
  end.

(** rotateFile + create: the new name's time stamp is the clock, or one more
    than the previous one if the clock has not advanced past it. *)
Definition do_rotate (now h : Z) (s : lstate) : lstate :=
  let st := if now <=? last_rot s then last_rot s + 1 else now in
  let fresh := mkState (mkFile st h [] :: dir s) true h st (maxsz s) (syncw s) 0 0 in
  match dir s with
  | f :: tl =>
      if f_stamp f =? st
      then (* the name exists: O_APPEND keeps what is there *)
        mkState (mkFile st (f_size f + h) (f_msgs f) :: tl) true h st (maxsz s) (syncw s) 0 0
      else fresh
  | [] => fresh
  end.

(** closeFileLocked after a flush (the CloseFile hook): the next write creates
    a new syncBuffer, whose lastRotation is 0. *)
Definition do_close (s : lstate) : lstate :=
  mkState (dir s) false (nbytes s) 0 (maxsz s) (syncw s) 0 0.

Definition append_msg (id len : Z) (s : lstate) : lstate :=
  match dir s with
  | f :: tl =>
      mkState (mkFile (f_stamp f) (f_size f + len) (f_msgs f ++ [id]) :: tl)
              (is_open s) (nbytes s + len) (last_rot s) (maxsz s) (syncw s)
              (ubytes s + len) (S (ucount s))
  | [] => s   (* no file: cannot happen after a rotation *)
  end.

(** outputLogEntry: ensureFile (first rotation, clock [now1]), then
    syncBuffer.Write: rotate (clock [now2]) if nbytes + len >= LogFileMaxSize,
    then write; writeToFile then flushes if syncWrites is set. *)
Definition do_log (now1 now2 h id len : Z) (s : lstate) : lstate :=
  let s1 := if is_open s then s else do_rotate now1 h s in
  let s2 := if maxsz s1 <=? nbytes s1 + len then do_rotate now2 h s1 else s1 in
  let s3 := append_msg id len s2 in
  if syncw s3 then do_flush s3 else s3.

(** selectFiles: newest first (insertion sort on the time stamp; ties keep
    their relative order, the harness never generates ties). *)
Fixpoint insert_desc (f : lfile) (l : list lfile) : list lfile :=
  match l with
  | [] => [f]
  | g :: tl => if f_stamp g <? f_stamp f then f :: l else g :: insert_desc f tl
  end.
Fixpoint sort_desc (l : list lfile) : list lfile :=
  match l with
  | [] => []
  | f :: tl => insert_desc f (sort_desc tl)
  end.

(** The loop of gcOldFiles over files[1:]: [sum] keeps growing over deleted
    files too. *)
Fixpoint gc_loop (bound sum : Z) (l : list lfile) : list lfile :=
  match l with
  | [] => []
  | f :: tl =>
      let sum' := sum + f_size f in
      if sum' <? bound then f :: gc_loop bound sum' tl else gc_loop bound sum' tl
  end.

Definition gc_select (bound : Z) (sorted : list lfile) : list lfile :=
  match sorted with
  | [] => []
  | newest :: tl => newest :: gc_loop bound (f_size newest) tl
  end.

Definition gc (bound : Z) (files : list lfile) : list lfile := gc_select bound (sort_desc files).

Definition do_gc (bound : Z) (s : lstate) : lstate :=
  mkState (gc bound (dir s)) (is_open s) (nbytes s) (last_rot s) (maxsz s) (syncw s) (ubytes s) (ucount s).

Inductive rop :=
| RLog (now1 now2 id len : Z)
| RSetMax (m : Z)
| RGc (bound : Z)
| RSetSync (b : bool)      (* SetSync(b); SetSync(true) also calls Flush() *)
| RClose                   (* flush and close the file; the next write re-opens *)
| RSnap                    (* Flush(), then look at the directory *)
| RPeek.                   (* look at the directory without flushing *)

Definition rstep (h : Z) (s : lstate) (o : rop) : lstate :=
  match o with
  | RLog n1 n2 id len => do_log n1 n2 h id len s
  | RSetMax m => mkState (dir s) (is_open s) (nbytes s) (last_rot s) m (syncw s) (ubytes s) (ucount s)
  | RGc b => do_gc b s
  | RSetSync b =>
      let s' := mkState (dir s) (is_open s) (nbytes s) (last_rot s) (maxsz s) b (ubytes s) (ucount s) in
      if b then do_flush s' else s'
  | RClose => do_close s
  | RSnap => do_flush s
  | RPeek => s
  end.

Definition rrun (h : Z) (s : lstate) (ops : list rop) : lstate := fold_left (rstep h) ops s.

(** What is read back: the messages of the files, oldest file first. *)
Definition readback_of (d : list lfile) : list Z := concat (map f_msgs (rev d)).
Definition readback (s : lstate) : list Z := readback_of (dir s).           (* everything written *)
Definition readback_disk (s : lstate) : list Z := readback_of (on_disk s).  (* what a reader finds *)

Fixpoint logged (ops : list rop) : list Z :=
  match ops with
  | [] => []
  | RLog _ _ id _ :: tl => id :: logged tl
  | _ :: tl => logged tl
  end.

Fixpoint no_gc (ops : list rop) : bool :=
  match ops with
  | [] => true
  | RGc _ :: _ => false
  | _ :: tl => no_gc tl
  end.

(** Snapshots, for the correspondence: after every RGc, RSnap and RPeek, the
    directory oldest first as (size, messages). *)
Definition snapshot (s : lstate) : list (Z * list Z) :=
  map (fun f => (f_size f, f_msgs f)) (rev (on_disk s)).

Fixpoint rrun_snaps (h : Z) (s : lstate) (ops : list rop) : list (list (Z * list Z)) :=
  match ops with
  | [] => []
  | o :: tl =>
      let s' := rstep h s o in
      match o with
      | RGc _ | RSnap | RPeek => snapshot s' :: rrun_snaps h s' tl
      | _ => rrun_snaps h s' tl
      end
  end.

Definition sum_sizes (l : list lfile) : Z := fold_right (fun f a => f_size f + a) 0 l.

(** * Several loggers in one directory

    A log file's name is program.host.user.timestamp.pid.log; a logger's
    program is its prefix (the main logger: <program>; a secondary logger:
    <program>-<name>).  listLogFiles (file.go:283-310) parses every name and
    keeps the files whose parsed Program field *equals* the logger's prefix:
    the main logger's prefix is a proper prefix of every secondary logger's,
    and "audit" of "audit-x", so anything weaker than equality mixes them up.
    gcOldFiles lists with that filter, selects, and removes by name. *)
Record dfile := mkD { d_prog : list byte; d_file : lfile }.

Definition is_prog (p : list byte) (x : dfile) : bool := bytes_eqb (d_prog x) p.

(** listLogFiles of the logger with prefix [p] *)
Definition list_files (p : list byte) (d : list dfile) : list lfile :=
  map d_file (filter (is_prog p) d).

Definition stamp_in (l : list lfile) (f : lfile) : bool :=
  existsb (fun g => f_stamp g =? f_stamp f) l.

(** gcOldFiles of the logger with prefix [p] on the whole directory: only files
    it listed and did not select are removed (by name = program + time stamp). *)
Definition gc_dir (p : list byte) (bound : Z) (d : list dfile) : list dfile :=
  let kept := gc bound (list_files p d) in
  filter (fun x => negb (is_prog p x) || stamp_in kept (d_file x)) d.

(** The loggers of a process: prefix and own state; their files together are
    the directory. *)
Definition mstate := list (list byte * lstate).

Definition flat_dir (ms : mstate) : list dfile :=
  concat (map (fun ps => map (mkD (fst ps)) (dir (snd ps))) ms).

Definition set_dir (s : lstate) (d : list lfile) : lstate :=
  mkState d (is_open s) (nbytes s) (last_rot s) (maxsz s) (syncw s) (ubytes s) (ucount s).

Definition on_logger (p : list byte) (f : lstate -> lstate) (ms : mstate) : mstate :=
  map (fun ps => if bytes_eqb (fst ps) p then (fst ps, f (snd ps)) else ps) ms.

Inductive mop :=
| MLog (p : list byte) (now1 now2 id len : Z)
| MSetMax (m : Z)               (* LogFileMaxSize is one variable for all loggers *)
| MGc (p : list byte) (bound : Z)
| MSnap.                        (* Flush() reaches every logger *)

Definition mstep (h : Z) (ms : mstate) (o : mop) : mstate :=
  match o with
  | MLog p n1 n2 id len => on_logger p (do_log n1 n2 h id len) ms
  | MSetMax m => map (fun ps => (fst ps, rstep h (snd ps) (RSetMax m))) ms
  | MGc p b =>
      let d' := gc_dir p b (flat_dir ms) in
      map (fun ps => (fst ps, set_dir (snd ps) (list_files (fst ps) d'))) ms
  | MSnap => map (fun ps => (fst ps, do_flush (snd ps))) ms
  end.

(** per logger: the files on disk oldest first, and how many files its
    listLogFiles returns *)
Definition msnapshot (ms : mstate) : list (list (Z * list Z) * Z) :=
  let d := flat_dir ms in
  map (fun ps => (snapshot (snd ps), Z.of_nat (length (list_files (fst ps) d)))) ms.

Fixpoint mrun_snaps (h : Z) (ms : mstate) (ops : list mop) : list (list (list (Z * list Z) * Z)) :=
  match ops with
  | [] => []
  | o :: tl =>
      let ms' := mstep h ms o in
      match o with
      | MGc _ _ | MSnap => msnapshot ms' :: mrun_snaps h ms' tl
      | _ => mrun_snaps h ms' tl
      end
  end.

(** The other fields of a file name — host, user, process id — are parsed by
    listLogFiles but take no part in listing, selection or removal. *)
Record nfile := mkN { n_host : list byte; n_user : list byte; n_pid : Z; n_d : dfile }.

Definition gc_names (p : list byte) (bound : Z) (l : list nfile) : list nfile :=
  let kept := gc bound (list_files p (map n_d l)) in
  filter (fun x => negb (is_prog p (n_d x)) || stamp_in kept (d_file (n_d x))) l.
