(** Model of the log entry codec of pkg/crdb/log (clog.go):

    - [format]   = formatHeader + formatLogEntry (clog.go:451-581) with the nil
                   colour profile (what Entry.Format and the file sink use);
    - [decode_stream] = NewEntryDecoder + a loop over EntryDecoder.Decode until
                   io.EOF or an error (clog.go:318-424), i.e. the split function
                   driven by bufio.Scanner, the regexp [entryRE], time.Parse with
                   MessageTimeFormat, strconv.Atoi and strings.TrimSpace.

    Strings are [list byte] (Go indexes bytes).  Entries carry *civil* time
    fields: the conversions time.Unix(0,ns).UTC().Date()/Clock() (formatter) and
    time.Parse(...).UnixNano() (decoder) are outside the model; the harness
    supplies / reads back civil fields through the real time package.

    Oddities of the code that are kept on purpose:
    - severity outside INFO..FATAL is printed as 'I'; a year before 2000 as 00;
      a negative line as 0; a goroutine id <= 0 is omitted;
    - the regexp is [(?m)^([IWEF])(\d{6} \d{2}:\d{2}:\d{2}.\d{6}) (?:(\d+) )?([^:]+):(\d+)]:
      the fraction separator is an unescaped [.] (any byte but newline), the
      goroutine group is optional and greedy, [[^:]+] also spans newlines;
    - split looks for the next header in data[1:], whose first byte therefore
      counts as a line start; Decode takes the message from b[len(m[0]):] even
      if the match does not start at offset 0 of the token;
    - the message is passed through strings.TrimSpace (Unicode White_Space).

    Not modelled (stated in the evidence): bufio.Scanner's buffer (the model's
    split sees the whole remaining input, which is what the real one computes as
    long as an entry plus the header of the next one fits in
    bufio.MaxScanTokenSize = 65536 bytes; longer entries are truncated by the
    real decoder); multi-byte runes matched by the regexp's [.] (a single byte
    here).  No Go panic is reachable in the formatter for civil fields produced
    by the time package (all digit indexings are on non-negative numbers: year
    clamped to >= 2000, goroutine printed only when > 0, line clamped to >= 0),
    so [format] is a total function and [d mod 10] (Coq, floor) coincides with
    Go's [d % 10] (truncation) on every number it is applied to. *)
From Shk Require Import Base.Prelude.
Open Scope Z_scope.

Record entry := mkEntry {
  e_sev : Z;        (* Severity enum: 1 INFO, 2 WARNING, 3 ERROR, 4 FATAL *)
  e_year : Z; e_month : Z; e_day : Z;
  e_hour : Z; e_min : Z; e_sec : Z; e_micro : Z;
  e_gid : Z;        (* Goroutine *)
  e_file : list byte;
  e_line : Z;
  e_msg : list byte
}.

Definition nl : byte := x0a.
Definition sp : byte := x20.
Definition colon : byte := x3a.

(** * Digits *)
Definition digit_byte (d : Z) : byte :=
  match d with
  | 0 => x30 | 1 => x31 | 2 => x32 | 3 => x33 | 4 => x34
  | 5 => x35 | 6 => x36 | 7 => x37 | 8 => x38 | 9 => x39
  | _ => x30
  end.

Definition digit_val (b : byte) : option Z :=
  match b with
  | x30 => Some 0 | x31 => Some 1 | x32 => Some 2 | x33 => Some 3 | x34 => Some 4
  | x35 => Some 5 | x36 => Some 6 | x37 => Some 7 | x38 => Some 8 | x39 => Some 9
  | _ => None
  end.

Definition is_digit (b : byte) : bool :=
  match digit_val b with Some _ => true | None => false end.

(** twoDigits / nDigits: the [n] low decimal digits, zero padded. *)
Fixpoint ndigits (n : nat) (d : Z) : list byte :=
  match n with
  | O => []
  | S n' => ndigits n' (d / 10) ++ [digit_byte (d mod 10)]
  end.

(** someDigits: variable width, at least one digit.  The fuel (20) is at least
    the number of decimal digits of any int64, so it never runs out on a
    representable value. *)
Fixpoint some_digits_aux (fuel : nat) (d : Z) (acc : list byte) : list byte :=
  match fuel with
  | O => acc
  | S f =>
      let acc' := digit_byte (d mod 10) :: acc in
      if d / 10 =? 0 then acc' else some_digits_aux f (d / 10) acc'
  end.
Definition some_digits (d : Z) : list byte := some_digits_aux 20 d [].

(** * Formatter *)
Definition sev_char (s : Z) : byte :=
  if (4 <? s) || (s <=? 0) then x49 (* I *)
  else match s with
       | 1 => x49 (* I *) | 2 => x57 (* W *) | 3 => x45 (* E *) | _ => x46 (* F *)
       end.

(** The header followed by [k] (continuation style keeps every append
    right-nested, which is what the proofs rewrite on). *)
Definition header_k (e : entry) (k : list byte) : list byte :=
  let year := if e_year e <? 2000 then 2000 else e_year e in
  let line := if e_line e <? 0 then 0 else e_line e in
  sev_char (e_sev e) ::
  ndigits 2 (year - 2000) ++ ndigits 2 (e_month e) ++ ndigits 2 (e_day e) ++
  sp :: ndigits 2 (e_hour e) ++ colon :: ndigits 2 (e_min e) ++ colon :: ndigits 2 (e_sec e) ++
  x2e :: ndigits 6 (e_micro e) ++ sp ::
  (if 0 <? e_gid e then some_digits (e_gid e) ++ [sp] else []) ++
  e_file e ++ colon :: some_digits line ++ sp :: sp :: k.

Definition format_header (e : entry) : list byte := header_k e [].

Fixpoint ends_nl (l : list byte) : bool :=
  match l with
  | [] => false
  | [c] => Byte.eqb c nl
  | _ :: tl => ends_nl tl
  end.

(** formatLogEntry with no stack trace. *)
Definition format (e : entry) : list byte :=
  let b := header_k e (e_msg e) in
  if ends_nl b then b else b ++ [nl].

(** * The recogniser for entryRE *)
Definition is_sev (c : byte) : bool :=
  match c with x49 | x57 | x45 | x46 => true | _ => false end.

Definition sev_of (c : byte) : Z :=
  match c with x49 => 1 | x57 => 2 | x45 => 3 | x46 => 4 | _ => 0 end.

Definition dv (c : byte) : Z := match digit_val c with Some v => v | None => 0 end.

(** [\d{n}] *)
Fixpoint take_digits (n : nat) (s : list byte) (acc : Z) : option (Z * list byte) :=
  match n with
  | O => Some (acc, s)
  | S n' =>
      match s with
      | c :: s' => if is_digit c then take_digits n' s' (acc * 10 + dv c) else None
      | [] => None
      end
  end.

Definition expect (c : byte) (s : list byte) : option (list byte) :=
  match s with
  | x :: s' => if Byte.eqb x c then Some s' else None
  | [] => None
  end.

(** [\d*], greedy: value, number of digits, rest. *)
Fixpoint span_digits (s : list byte) (acc : Z) (n : Z) : Z * Z * list byte :=
  match s with
  | c :: s' => if is_digit c then span_digits s' (acc * 10 + dv c) (n + 1) else (acc, n, s)
  | [] => (acc, n, s)
  end.

(** [[^:]*], greedy (newlines included). *)
Fixpoint span_noncolon (s : list byte) : list byte * list byte :=
  match s with
  | c :: s' =>
      if Byte.eqb c colon then ([], s)
      else let '(f, r) := span_noncolon s' in (c :: f, r)
  | [] => ([], [])
  end.

(** [([^:]+):(\d+)]: the file is everything up to the first colon (backtracking
    to a shorter file cannot help: the next byte would not be a colon). *)
Definition file_line (s : list byte) : option (list byte * Z * list byte) :=
  let '(f, r) := span_noncolon s in
  match f, r with
  | _ :: _, _ :: r' =>
      let '(l, n, rest) := span_digits r' 0 0 in
      if 0 <? n then Some (f, l, rest) else None
  | _, _ => None
  end.

Record hdr := mkHdr {
  h_sev : Z; h_yy : Z; h_mo : Z; h_dd : Z; h_hh : Z; h_mi : Z; h_ss : Z;
  h_sep : byte; h_us : Z;
  h_gid : option Z;   (* None: group 3 did not participate *)
  h_file : list byte; h_line : Z
}.

(** Does the regexp match at the head of [s] (which the caller knows to be a
    line start)?  Returns the captures and what follows the match.  Leftmost-
    first semantics: the optional goroutine group is tried first (with the
    longest digit run; a shorter one would be followed by a digit, not a space)
    and abandoned only if the rest cannot match. *)
Definition match_at (s : list byte) : option (hdr * list byte) :=
  match s with
  | c :: s0 =>
    if is_sev c then
    match take_digits 2 s0 0 with Some (yy, s1) =>
    match take_digits 2 s1 0 with Some (mo, s2) =>
    match take_digits 2 s2 0 with Some (dd, s3) =>
    match expect sp s3 with Some s4 =>
    match take_digits 2 s4 0 with Some (hh, s5) =>
    match expect colon s5 with Some s6 =>
    match take_digits 2 s6 0 with Some (mi, s7) =>
    match expect colon s7 with Some s8 =>
    match take_digits 2 s8 0 with Some (ss, s9) =>
    match s9 with sep :: s10 =>
    if Byte.eqb sep nl then None else
    match take_digits 6 s10 0 with Some (us, s11) =>
    match expect sp s11 with Some s12 =>
      let mk g f l := mkHdr (sev_of c) yy mo dd hh mi ss sep us g f l in
      let '(g, n, r) := span_digits s12 0 0 in
      let alt_a :=
        if 0 <? n then
          match r with
          | x :: r' => if Byte.eqb x sp then file_line r' else None
          | [] => None
          end
        else None in
      match alt_a with
      | Some (f, l, rest) => Some (mk (Some g) f l, rest)
      | None =>
          match file_line s12 with
          | Some (f, l, rest) => Some (mk None f l, rest)
          | None => None
          end
      end
    | None => None end | None => None end | [] => None end
    | None => None end | None => None end | None => None end | None => None end
    | None => None end | None => None end | None => None end | None => None end
    | None => None end
    else None
  | [] => None
  end.

Definition is_match (s : list byte) : bool :=
  match match_at s with Some _ => true | None => false end.

(** * bufio.Scanner + EntryDecoder.split on the whole input

    The token that starts at some position ends just before the first later
    position that is a line start (or the byte right after the token's first
    byte: the search runs on data[1:]) where the regexp matches. *)
Definition is_nl (c : byte) : bool := Byte.eqb c nl.

Fixpoint split_go (ls : bool) (cur : list byte) (s : list byte) : list (list byte) :=
  match s with
  | [] => [rev cur]
  | c :: s' =>
      if ls && is_match s then rev cur :: split_go true [c] s'
      else split_go (is_nl c) (c :: cur) s'
  end.

Definition split_tokens (s : list byte) : list (list byte) :=
  match s with
  | [] => []
  | c :: s' => split_go true [c] s'
  end.

(** * strings.TrimSpace *)
Definition ascii_space (b : byte) : bool :=
  match b with x09 | x0a | x0b | x0c | x0d | x20 => true | _ => false end.

Definition beq := Byte.eqb.

(** third byte of U+2000..U+200A, U+2028, U+2029, U+202F after E2 80 *)
Definition e280_space (c : byte) : bool :=
  match c with
  | x80 | x81 | x82 | x83 | x84 | x85 | x86 | x87 | x88 | x89 | x8a
  | xa8 | xa9 | xaf => true
  | _ => false
  end.

(** Remove one leading white-space rune: the ASCII ones, U+0085, U+00A0,
    U+1680, U+2000-200A, U+2028, U+2029, U+202F, U+205F, U+3000 in UTF-8. *)
Definition strip1 (s : list byte) : option (list byte) :=
  match s with
  | c1 :: r1 =>
      if ascii_space c1 then Some r1
      else match r1 with
           | c2 :: r2 =>
               if beq c1 xc2 && (beq c2 x85 || beq c2 xa0) then Some r2
               else match r2 with
                    | c3 :: r3 =>
                        if (beq c1 xe1 && beq c2 x9a && beq c3 x80)
                           || (beq c1 xe2 && beq c2 x80 && e280_space c3)
                           || (beq c1 xe2 && beq c2 x81 && beq c3 x9f)
                           || (beq c1 xe3 && beq c2 x80 && beq c3 x80)
                        then Some r3 else None
                    | [] => None
                    end
           | [] => None
           end
  | [] => None
  end.

(** The same on the reversed string (last rune first). *)
Definition strip1r (s : list byte) : option (list byte) :=
  match s with
  | c1 :: r1 =>
      if ascii_space c1 then Some r1
      else match r1 with
           | c2 :: r2 =>
               if beq c2 xc2 && (beq c1 x85 || beq c1 xa0) then Some r2
               else match r2 with
                    | c3 :: r3 =>
                        if (beq c3 xe1 && beq c2 x9a && beq c1 x80)
                           || (beq c3 xe2 && beq c2 x80 && e280_space c1)
                           || (beq c3 xe2 && beq c2 x81 && beq c1 x9f)
                           || (beq c3 xe3 && beq c2 x80 && beq c1 x80)
                        then Some r3 else None
                    | [] => None
                    end
           | [] => None
           end
  | [] => None
  end.

Fixpoint strip_all (strip : list byte -> option (list byte)) (fuel : nat) (s : list byte) : list byte :=
  match fuel with
  | O => s
  | S f => match strip s with Some r => strip_all strip f r | None => s end
  end.

Definition trim_left (s : list byte) : list byte := strip_all strip1 (length s) s.
Definition trim_right (s : list byte) : list byte := rev (strip_all strip1r (length s) (rev s)).
Definition trim_space (s : list byte) : list byte := trim_right (trim_left s).

(** * time.Parse("060102 15:04:05.999999", m[2]) *)
Definition leap (y : Z) : bool :=
  ((y mod 4 =? 0) && negb (y mod 100 =? 0)) || (y mod 400 =? 0).

Definition days_in (y m : Z) : Z :=
  match m with
  | 2 => if leap y then 29 else 28
  | 4 | 6 | 9 | 11 => 30
  | _ => 31
  end.

Definition year_of_yy (yy : Z) : Z := if 69 <=? yy then 1900 + yy else 2000 + yy.

Definition time_ok (h : hdr) : bool :=
  (beq (h_sep h) x2e || beq (h_sep h) x2c)        (* '.' or, since Go 1.17, ',' *)
  && (1 <=? h_mo h) && (h_mo h <=? 12)
  && (1 <=? h_dd h) && (h_dd h <=? days_in (year_of_yy (h_yy h)) (h_mo h))
  && (h_hh h <? 24) && (h_mi h <? 60) && (h_ss h <? 60).

(** * EntryDecoder.Decode on one token *)
Inductive tok_result :=
| TSkip                      (* no header in the token: Decode loops to the next one *)
| TEntry (e : entry)
| TErr (kind : Z).           (* 1: time.Parse failed; 2: strconv.Atoi failed (out of range) *)

Definition max_int : Z := 9223372036854775807.

(** leftmost match in the token: offset, captures, what follows the match *)
Fixpoint find_match_aux (ls : bool) (p : nat) (s : list byte) : option (nat * hdr * list byte) :=
  match s with
  | [] => None
  | c :: s' =>
      match (if ls then match_at s else None) with
      | Some (h, r) => Some (p, h, r)
      | None => find_match_aux (is_nl c) (S p) s'
      end
  end.
Definition find_match (b : list byte) := find_match_aux true 0 b.

Definition decode_token (b : list byte) : tok_result :=
  match find_match b with
  | None => TSkip
  | Some (p, h, rest) =>
      if negb (time_ok h) then TErr 1 else
      let g := match h_gid h with Some g => g | None => 0 end in
      if max_int <? g then TErr 2 else
      if max_int <? h_line h then TErr 2 else
      (* b[len(m[0]):] — the length of the match, not its end offset *)
      let region :=
        match p with
        | O => rest
        | _ => skipn (length b - p - length rest) b
        end in
      TEntry (mkEntry (h_sev h) (year_of_yy (h_yy h)) (h_mo h) (h_dd h)
                      (h_hh h) (h_mi h) (h_ss h) (h_us h)
                      g (h_file h) (h_line h) (trim_space region))
  end.

(** The caller's loop: entries until EOF (status 0) or the first error. *)
Fixpoint decode_tokens (ts : list (list byte)) : list entry * Z :=
  match ts with
  | [] => ([], 0)
  | b :: ts' =>
      match decode_token b with
      | TSkip => decode_tokens ts'
      | TEntry e => let '(es, k) := decode_tokens ts' in (e :: es, k)
      | TErr k => ([], k)
      end
  end.

Definition decode_stream (s : list byte) : list entry * Z := decode_tokens (split_tokens s).
Definition decode_all (s : list byte) : list entry := fst (decode_stream s).

(** * Well-formed entries: what the round-trip theorem needs.
    Clauses 1-5 are the statement's own "fields in their representable ranges";
    the rest is what the format cannot carry (each is discussed, with the real
    code's behaviour, in Properties/C16.v). *)
Definition no_byte (c : byte) (l : list byte) : Prop := ~ In c l.

(** goroutine field omitted and the file name itself looks like "<digits> <more>" *)
Definition ambiguous_file (f : list byte) : bool :=
  let '(_, n, r) := span_digits f 0 0 in
  (0 <? n) && match r with
              | x :: _ :: _ => Byte.eqb x sp
              | _ => false
              end.

Definition valid_civil (e : entry) : Prop :=
  1 <= e_month e <= 12 /\ 1 <= e_day e <= days_in (e_year e) (e_month e) /\
  0 <= e_hour e < 24 /\ 0 <= e_min e < 60 /\ 0 <= e_sec e < 60 /\
  0 <= e_micro e < 1000000.

Record wf (e : entry) : Prop := {
  wf_sev : 1 <= e_sev e <= 4;
  wf_year : 2000 <= e_year e <= 2068;
  wf_civil : valid_civil e;
  wf_gid : 0 <= e_gid e <= max_int;
  wf_line : 0 <= e_line e <= max_int;
  wf_file_nonempty : e_file e <> [];
  wf_file_colon : no_byte colon (e_file e);
  wf_file_nl : no_byte nl (e_file e);
  wf_unambiguous : ~ (e_gid e = 0 /\ ambiguous_file (e_file e) = true);
  wf_msg_nl : no_byte nl (e_msg e);
  wf_msg_trimmed : trim_space (e_msg e) = e_msg e
}.

(** Executable equality, for the correspondence functions. *)
Definition entry_eqb (a b : entry) : bool :=
  (e_sev a =? e_sev b) && (e_year a =? e_year b) && (e_month a =? e_month b) &&
  (e_day a =? e_day b) && (e_hour a =? e_hour b) && (e_min a =? e_min b) &&
  (e_sec a =? e_sec b) && (e_micro a =? e_micro b) && (e_gid a =? e_gid b) &&
  bytes_eqb (e_file a) (e_file b) && (e_line a =? e_line b) && bytes_eqb (e_msg a) (e_msg b).
