(** Correspondence functions for the end-to-end "ledger" plays (C04; the case
    record is shared with C05).  The harness (harness/c04/main.go) runs generated
    plays through the real binary; every action command appends its own start
    and end instants to a ledger.  Here:
    - [c04_model_bad]: the ledger is NOT a run of the timed model
      ([Model.Prompt.timed_play]) for any non-negative latencies.  Decided by
      constructing the earliest-possible latencies from the observations,
      re-running the model with them and comparing its events with the ledger.
    - [c04_oracle_bad]: the plain inequalities of the property, evaluated on the
      ledger and the CSV rows independently of the model.
    Every inequality is of the form "observed instant >= lower bound made of
    earlier observed instants": added delay can only help. *)
From Shk Require Import Base.Prelude Model.Prompt.
Open Scope Z_scope.

Record lrow := mkLrow { lr_actor : N; lr_action : N; lr_n : N; lr_start : Z; lr_end : Z (* -1: none *); lr_rc : Z }.
Record crow := mkCrow { cr_actor : N; cr_action : N; cr_start : Z; cr_dur : Z; cr_status : N }.
Record clrow := mkClrow { cl_actor : N; cl_n : N; cl_start : Z; cl_end : Z; cl_rc : Z }.
Record lcase := mkLcase {
  lc_play : play;                    (* the compiled play, from the real parser + compiler *)
  lc_script : play;                  (* what the script TEXT denotes, from the generator's own description *)
  lc_marks : list (N * bool);        (* per action name: does the script TEXT mark it `?` (names are unique per line and step) *)
  lc_ran : nat; lc_count : Z; lc_timeout : Z; lc_tempo : Z;
  lc_spot : N;                       (* 0 none, 1 keep running, 2 all exit 0 by themselves, 3 one exits non-zero *)
  lc_rdv : N;                        (* 1: the actions of the play rendezvous (they must all run at the same instant);
                                        2: the same actor runs the same action twice at once (a scene named twice in
                                        a group): csv rows and ledger rows of one action cannot be paired one to one,
                                        the bracket check is skipped; 0: neither *)
  lc_launch : Z; lc_exit_t : Z; lc_exit : Z;
  lc_cleanups : list clrow; lc_ledger : list lrow; lc_csv : list crow }.

(** ** Occurrence numbering: the n-th time an actor runs an action. *)
Definition key := (N * N)%type.
Definition key_eqb (a b : key) : bool := ((fst a =? fst b) && (snd a =? snd b))%N.

Fixpoint bump (k : key) (cnt : list (key * N)) : N * list (key * N) :=
  match cnt with
  | [] => (1%N, [(k, 1%N)])
  | (k', n) :: tl =>
      if key_eqb k k' then (N.succ n, (k', N.succ n) :: tl)
      else let '(m, tl') := bump k tl in (m, (k', n) :: tl')
  end.

Fixpoint number_occ {A} (kf : A -> key) (l : list A) (cnt : list (key * N)) : list (A * N) :=
  match l with
  | [] => []
  | x :: tl => let '(n, cnt') := bump (kf x) cnt in (x, n) :: number_occ kf tl cnt'
  end.

Definition find_row (led : list lrow) (k : key) (n : N) : option lrow :=
  find (fun r => key_eqb (lr_actor r, lr_action r) k && (lr_n r =? n)%N) led.

(** ** The acts actually performed when nothing fails: every act once, then the
    repeated part another K-1 times. *)
Fixpoint rep_list {A} (n : nat) (l : list A) : list A :=
  match n with O => [] | S n' => l ++ rep_list n' l end.
Definition unroll (p : play) (ran : nat) (K : nat) : list act :=
  match ran with
  | O => p
  | _ => p ++ rep_list (K - 1) (skipn (ran - 1) p)
  end.

Definition atime0 := mkAtime 0 0 0.
Definition sctime0 := mkSctime 0 (fun _ _ => 0) (fun _ _ => atime0) 0.
Definition ptime0 := mkPtime (fun _ => 0) (fun _ _ => sctime0).

(** The skeleton: the model's events with all times 0, numbered. *)
Definition skeleton (p : play) (ran K : nat) : list (ev * N) :=
  number_occ (fun e => (e_actor e, e_action e)) (timed_play ptime0 0 (unroll p ran K)) [].

Definition cand_K (c : lcase) : list nat :=
  match lc_ran c with
  | O => [1%nat]
  | _ => if (lc_timeout c <? 0) && (0 <? lc_count c) then [Z.to_nat (lc_count c)]
         else seq 1 (if 0 <? lc_count c then Z.to_nat (lc_count c) else 40%nat)
  end.

(** The number of iterations the ledger shows: the first admissible K whose
    skeleton has as many actions as the ledger has rows. *)
Definition choose_K_for (p : play) (c : lcase) : option nat :=
  find (fun K => Nat.eqb (length (skeleton p (lc_ran c) K)) (length (lc_ledger c))) (cand_K c).
Definition choose_K (c : lcase) : option nat := choose_K_for (lc_play c) c.

(** Structural equality of plays. *)
Definition stepk_eqb (a b : stepk) : bool :=
  match a, b with
  | SDo x f, SDo y g => (x =? y)%N && Bool.eqb f g
  | SAmb x, SAmb y => (x =? y)%N
  | _, _ => false
  end.
Definition line_eqb (a b : line) : bool := (l_actor a =? l_actor b)%N && list_eqb stepk_eqb (l_steps a) (l_steps b).
Definition scene_eqb (a b : scene) : bool := (waitUntil a =? waitUntil b) && list_eqb line_eqb (s_lines a) (s_lines b).
Definition play_eqb (a b : play) : bool := list_eqb (list_eqb scene_eqb) a b.

(** Position of an event. *)
Definition pos := (nat * nat * nat * nat)%type.
Definition pos_eqb (a b : pos) : bool :=
  let '(a1, a2, a3, a4) := a in let '(b1, b2, b3, b4) := b in
  Nat.eqb a1 b1 && Nat.eqb a2 b2 && Nat.eqb a3 b3 && Nat.eqb a4 b4.
Definition ev_pos (e : ev) : pos := (e_act e, e_scene e, e_line e, e_step e).

Fixpoint alookup {B} (t : list (pos * B)) (k : pos) : option B :=
  match t with
  | [] => None
  | (k', v) :: tl => if pos_eqb k k' then Some v else alookup tl k
  end.

(** Observed (command start, command end) per position; only complete rows. *)
Definition obs_table (sk : list (ev * N)) (led : list lrow) : list (pos * (Z * Z)) :=
  flat_map (fun en => let '(e, n) := en in
    match find_row led (e_actor e, e_action e) n with
    | Some r => if lr_end r <? 0 then [] else [(ev_pos e, (lr_start r, lr_end r))]
    | None => []
    end) sk.

(** ** Lower bound of the first act's start: the binary was launched, and the
    initial cleanups (run n = 1 of every actor's cleanup) have ended. *)
Definition t_begin (c : lcase) : Z :=
  fold_left (fun m r => if (cl_n r =? 1)%N then Z.max m (cl_end r) else m) (lc_cleanups c) (lc_launch c).

(** ** Earliest-possible latencies, by replaying the model's own recursion on
    the observations. *)
Section Infer.
  Variable obs : list (pos * (Z * Z)).

  (* one line: returns (gaps, durations, line end) *)
  Fixpoint infer_steps (a i l : nat) (prev : Z) (k : nat) (steps : list stepk)
    : list (pos * Z) * list (pos * Z) * Z :=
    match steps with
    | [] => ([], [], prev)
    | SAmb _ :: tl => infer_steps a i l prev (S k) tl
    | SDo _ _ :: tl =>
        match alookup obs (a, i, l, k) with
        | Some (cs, ce) =>
            let '(g, d, t) := infer_steps a i l ce (S k) tl in
            (((a, i, l, k), cs - prev) :: g, ((a, i, l, k), ce - cs) :: d, t)
        | None =>
            let '(g, d, t) := infer_steps a i l prev (S k) tl in (g, d, t)
        end
    end.

  Fixpoint first_do (k : nat) (steps : list stepk) : option nat :=
    match steps with
    | [] => None
    | SDo _ _ :: _ => Some k
    | SAmb _ :: tl => first_do (S k) tl
    end.

  Fixpoint first_starts (a i l : nat) (lines : list line) : list Z :=
    match lines with
    | [] => []
    | ln :: tl =>
        match first_do O (l_steps ln) with
        | Some k => match alookup obs (a, i, l, k) with
                    | Some (cs, _) => cs :: first_starts a i (S l) tl
                    | None => first_starts a i (S l) tl
                    end
        | None => first_starts a i (S l) tl
        end
    end.

  Fixpoint infer_lines (a i : nat) (t0 : Z) (l : nat) (lines : list line)
    : list (pos * Z) * list (pos * Z) * Z :=
    match lines with
    | [] => ([], [], t0)
    | ln :: tl =>
        let '(g, d, t) := infer_steps a i l t0 O (l_steps ln) in
        let '(g', d', t') := infer_lines a i t0 (S l) tl in
        (g ++ g', d ++ d', Z.max t t')
    end.

  Fixpoint infer_scenes (a : nat) (act_start now : Z) (i : nat) (scs : list scene)
    : list (pos * Z) * list (pos * Z) * list (pos * Z) * Z :=
    match scs with
    | [] => ([], [], [], now)
    | sc :: tl =>
        let earliest := Z.max now (act_start + waitUntil sc) in
        let t0 := match first_starts a i O (s_lines sc) with
                  | [] => earliest
                  | x :: xs => fold_left Z.min xs x
                  end in
        let '(g, d, t) := infer_lines a i t0 O (s_lines sc) in
        let '(lt, g', d', t') := infer_scenes a act_start t (S i) tl in
        (((a, i, O, O), t0 - earliest) :: lt, g ++ g', d ++ d', t')
    end.

  Fixpoint infer_acts (now : Z) (a : nat) (acts : list act)
    : list (pos * Z) * list (pos * Z) * list (pos * Z) :=
    match acts with
    | [] => ([], [], [])
    | ac :: tl =>
        let '(lt, g, d, t) := infer_scenes a now now O ac in
        let '(lt', g', d') := infer_acts t (S a) tl in
        (lt ++ lt', g ++ g', d ++ d')
    end.
End Infer.

Definition zlookup (t : list (pos * Z)) (k : pos) : Z :=
  match alookup t k with Some v => v | None => 0 end.

Definition ptime_of (lt g d : list (pos * Z)) : ptime :=
  mkPtime (fun _ => 0)
    (fun a i => mkSctime (zlookup lt (a, i, O, O))
                  (fun l k => zlookup g (a, i, l, k))
                  (fun l k => mkAtime 0 (zlookup d (a, i, l, k)) 0)
                  0).

Definition all_nonneg (t : list (pos * Z)) : bool := forallb (fun kv => 0 <=? snd kv) t.

(** Does the model, run with these latencies, produce exactly the observed
    command instants? *)
Definition reproduces (obs : list (pos * (Z * Z))) (evs : list ev) : bool :=
  Nat.eqb (length evs) (length obs) &&
  forallb (fun e => match alookup obs (ev_pos e) with
                    | Some (cs, ce) => (e_cstart e =? cs) && (e_cend e =? ce)
                    | None => false
                    end) evs.

Definition c04_model_bad (c : lcase) : bool :=
  match choose_K c with
  | None => true
  | Some K =>
      let acts := unroll (lc_play c) (lc_ran c) K in
      let sk := skeleton (lc_play c) (lc_ran c) K in
      let obs := obs_table sk (lc_ledger c) in
      let '(lt, g, d) := infer_acts obs (t_begin c) O acts in
      let tm := ptime_of lt g d in
      negb (all_nonneg lt && all_nonneg g && all_nonneg d
            && reproduces obs (timed_play tm (t_begin c) acts))
  end.

(** ** The plain inequalities *)

(** Groups of the skeleton in performance order: (act instance, scene) with
    its lines; each line = its actions in order with their observations. *)
Definition orow := (Z * Z)%type.   (* command start, command end *)

Definition obs_of (led : list lrow) (en : ev * N) : option orow :=
  let '(e, n) := en in
  match find_row led (e_actor e, e_action e) n with
  | Some r => if lr_end r <? 0 then None else Some (lr_start r, lr_end r)
  | None => None
  end.

(** line order: inside one line an action starts only after the previous one
    ended.  The skeleton lists the steps of a line consecutively. *)
Fixpoint line_order_bad (led : list lrow) (sk : list (ev * N)) : bool :=
  match sk with
  | en1 :: ((en2 :: _) as tl) =>
      let e1 := fst en1 in let e2 := fst en2 in
      (if Nat.eqb (e_act e1) (e_act e2) && Nat.eqb (e_scene e1) (e_scene e2) && Nat.eqb (e_line e1) (e_line e2)
       then match obs_of led en1, obs_of led en2 with
            | Some (_, ce1), Some (cs2, _) => cs2 <? ce1
            | _, _ => false
            end
       else false) || line_order_bad led tl
  | _ => false
  end.

(** barrier and act order: no action of a later group starts before every
    action of all earlier groups has ended.  [cur] = latest end inside the
    current group, [before] = latest end of all earlier groups. *)
Fixpoint barrier_bad (led : list lrow) (sk : list (ev * N)) (ga gs : nat) (before cur : Z) : bool :=
  match sk with
  | [] => false
  | en :: tl =>
      let e := fst en in
      let same := Nat.eqb (e_act e) ga && Nat.eqb (e_scene e) gs in
      let before' := if same then before else Z.max before cur in
      match obs_of led en with
      | Some (cs, ce) => (cs <? before') || barrier_bad led tl (e_act e) (e_scene e) before' (if same then Z.max cur ce else ce)
      | None => barrier_bad led tl (e_act e) (e_scene e) before' (if same then cur else before')
      end
  end.

(** tempo: an action of a scene with [waitUntil = w] in act instance [a] starts
    no earlier than [L a + w], where [L a] is a lower bound of that act's start
    made of earlier observations only: [L 0 = t_begin], [L (a+1) = max (L a +
    longest waitUntil of act a) (every end observed in acts <= a)]. *)
Definition act_wait (ac : act) : Z := fold_left (fun m sc => Z.max m (waitUntil sc)) ac 0.

Fixpoint act_bounds (led : list lrow) (sk : list (ev * N)) (acts : list act) (a : nat) (L : Z) : list Z :=
  match acts with
  | [] => []
  | ac :: tl =>
      let ends := fold_left (fun m en => if Nat.leb (e_act (fst en)) a
                                          then match obs_of led en with Some (_, ce) => Z.max m ce | None => m end
                                          else m) sk L in
      L :: act_bounds led sk tl (S a) (Z.max (L + act_wait ac) ends)
  end.

Definition tempo_bad (led : list lrow) (sk : list (ev * N)) (bounds : list Z) : bool :=
  existsb (fun en => match obs_of led en with
                     | Some (cs, _) => cs <? nth (e_act (fst en)) bounds 0 + e_wait (fst en)
                     | None => false
                     end) sk.

(** rows: every performed action has exactly one CSV row, the k-th row of an
    (actor, action) belongs to its k-th run, and its status says whether the
    command exited 0 (0) or not (2). *)
Definition csv_numbered (c : lcase) : list (crow * N) :=
  number_occ (fun r => (cr_actor r, cr_action r)) (lc_csv c) [].

Definition rows_bad (c : lcase) : bool :=
  let cn := csv_numbered c in
  negb (Nat.eqb (length (lc_csv c)) (length (lc_ledger c))) ||
  existsb (fun r =>
    match find (fun cn => key_eqb (cr_actor (fst cn), cr_action (fst cn)) (lr_actor r, lr_action r) && (snd cn =? lr_n r)%N) cn with
    | Some (cr, _) => negb (N.eqb (cr_status cr) (if lr_rc r =? 0 then 0%N else 2%N))
    | None => true
    end) (lc_ledger c).

(** brackets: there is an epoch E, not before the launch and not after the
    first cleanup started, such that for every action the recorded interval
    [E + start, E + start + duration] contains the interval the command itself
    experienced, and ends before the next action of the same line started by
    its own clock and before the final cleanup started (the prompter takes
    actEnd before it goes on).  The CSV prints 4 decimals: 50 us of rounding
    on each number. *)
Definition tol : Z := 100000.

Definition csv_of (cn : list (crow * N)) (k : key) (n : N) : option crow :=
  match find (fun cn => key_eqb (cr_actor (fst cn), cr_action (fst cn)) k && (snd cn =? n)%N) cn with
  | Some (cr, _) => Some cr
  | None => None
  end.

(** upper bounds of E from consecutive steps of a line *)
Fixpoint succ_hi (led : list lrow) (cn : list (crow * N)) (sk : list (ev * N)) (hi : Z) : Z :=
  match sk with
  | en1 :: ((en2 :: _) as tl) =>
      let e1 := fst en1 in let e2 := fst en2 in
      let hi' :=
        if Nat.eqb (e_act e1) (e_act e2) && Nat.eqb (e_scene e1) (e_scene e2) && Nat.eqb (e_line e1) (e_line e2)
        then match csv_of cn (e_actor e1, e_action e1) (snd en1), obs_of led en2 with
             | Some cr, Some (cs2, _) => Z.min hi (cs2 - cr_start cr - cr_dur cr + tol)
             | _, _ => hi
             end
        else hi in
      succ_hi led cn tl hi'
  | _ => hi
  end.

Definition brackets_bad (c : lcase) (sk : list (ev * N)) : bool :=
  let cn := csv_numbered c in
  let hi0 := fold_left (fun m r => if (cl_n r =? 1)%N then Z.min m (cl_start r) else m) (lc_cleanups c) (lc_exit_t c) in
  let cl2 := fold_left (fun m r => if (cl_n r =? 2)%N then Z.min m (cl_start r) else m) (lc_cleanups c) (lc_exit_t c) in
  let '(lo, hi) :=
    fold_left (fun lh r =>
      let '(lo, hi) := lh in
      if lr_end r <? 0 then lh else
      match csv_of cn (lr_actor r, lr_action r) (lr_n r) with
      | Some cr => (Z.max lo (lr_end r - cr_start cr - cr_dur cr - tol),
                    Z.min (Z.min hi (lr_start r - cr_start cr + tol)) (cl2 - cr_start cr - cr_dur cr + tol))
      | None => lh
      end) (lc_ledger c) (lc_launch c - tol, hi0 + tol) in
  succ_hi (lc_ledger c) cn sk hi <? lo.

(** All of it.  Bit mask so that the driver can tell what failed:
    1 line order, 2 barrier / act order, 4 tempo, 8 rows, 16 brackets,
    32 the ledger is not a complete performance (a row without end, an
    unexpected number of rows, a non-zero exit status). *)
Definition bit (b : bool) (v : N) : N := if b then v else 0%N.

(** tempo, exactly, on the prompter's own recorded instants (CSV: seconds since
    the play's epoch, 4 decimals).  From the model's theorems
    [acts_sequential] and [not_ahead_of_tempo]: for an action [e2] of act
    instance [a] and every action [e1] of an earlier act instance,
    [gend e1 <= act_start a] and [act_start a + waitUntil <= gstart e2], hence
    [start2 >= start1 + duration1 + waitUntil] — the epoch cancels — and, the
    epoch preceding every act, [start2 >= waitUntil].  The prompter waits on a
    timer: a start can only be late, never early, so the only slack is the
    rounding of the printed numbers (50 us each). *)
Definition tempo_exact_bad (c : lcase) (sk : list (ev * N)) : bool :=
  let cn := csv_numbered c in
  let rows := flat_map (fun en => match csv_of cn (e_actor (fst en), e_action (fst en)) (snd en) with
                                  | Some cr => [(fst en, cr)]
                                  | None => []
                                  end) sk in
  existsb (fun x2 =>
    let '(e2, c2) := x2 in
    (cr_start c2 + 100000 <? e_wait e2) ||
    existsb (fun x1 => let '(e1, c1) := x1 in
                       Nat.ltb (e_act e1) (e_act e2) && (cr_start c2 + 200000 <? cr_start c1 + cr_dur c1 + e_wait e2)) rows) rows.

(** rendezvous plays: every action waits until all the others have started, so
    all the intervals the commands experienced contain one common instant. *)
Definition rendezvous_bad (c : lcase) : bool :=
  (lc_rdv c =? 1)%N &&
  let big := 4000000000000000000 in
  let maxs := fold_left (fun m r => Z.max m (lr_start r)) (lc_ledger c) 0 in
  let mine := fold_left (fun m r => if lr_end r <? 0 then m else Z.min m (lr_end r)) (lc_ledger c) big in
  mine <? maxs.

(** The plain-meaning oracle is evaluated against what the script TEXT denotes
    ([lc_script]); 64 = the compiled play differs from it. *)
Definition c04_oracle_mask (c : lcase) : N :=
  N.add (bit (negb (play_eqb (lc_play c) (lc_script c))) 64%N)
 (N.add (bit (rendezvous_bad c) 128%N)
  match choose_K_for (lc_script c) c with
  | None => 32%N
  | Some K =>
      let acts := unroll (lc_script c) (lc_ran c) K in
      let sk := skeleton (lc_script c) (lc_ran c) K in
      let led := lc_ledger c in
      let incomplete := negb (lc_exit c =? 0) || existsb (fun r => lr_end r <? 0) led
             || negb (forallb (fun en => match obs_of led en with Some _ => true | None => false end) sk) in
      N.add (bit (line_order_bad led sk) 1%N)
     (N.add (bit (barrier_bad led sk O O (t_begin c) (t_begin c)) 2%N)
     (N.add (bit (tempo_bad led sk (act_bounds led sk acts O (t_begin c)) || tempo_exact_bad c sk) 4%N)
     (N.add (bit (rows_bad c) 8%N)
     (N.add (bit (negb (lc_rdv c =? 2)%N && brackets_bad c sk) 16%N) (bit incomplete 32%N)))))
  end).

Definition c04_oracle_bad (c : lcase) : bool := negb (c04_oracle_mask c =? 0)%N.
