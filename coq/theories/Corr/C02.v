(** Correspondence functions for C02 (and shared by C03/C08/C11): the outputs
    of the real audition per round, the comparison with Model/Audit.v, and the
    plain-meaning oracle for activation periods evaluated on the
    implementation's outputs. *)
From Shk Require Import Base.Prelude Model.Value Model.Functions Model.Expr Model.Fsm Model.Audit.
Open Scope list_scope.
Open Scope Q_scope.

(** What the harness observed. *)
Inductive iout :=
| IObs (x : var) (v : value)
| IReport (a : string) (code : Z)
| IStart (a : string)
| IStop (a : string).

Inductive cond_shape := CThroughout | CNever | CMoodIs (m : string) | CSigGt (x : var) (k : Q) | COther.

Record aud_case := {
  k_cfg : acfg;
  k_events : list event;
  k_coll : list (list iout);     (* per round (initial round first): collector events in order *)
  k_judge : list (list iout);    (* per round: start / stop judgements in order *)
  k_status : Z;                  (* 0 ran to the end, 1 aborted by an evaluation error, 2 panicked *)
  k_shapes : list (string * cond_shape);
}.

(** Projections of the model's outputs. *)
Definition coll_of (o : out) : list iout :=
  match o with
  | OObs x v _ => [IObs x v]
  | OReport a _ c => [IReport a c]
  | _ => []
  end.
Definition judge_of (o : out) : list iout :=
  match o with
  | OStart a => [IStart a]
  | OStop a => [IStop a]
  | _ => []
  end.

(** Numeric tolerance: exact-ish (1e-9 relative) normally; 1/50 absolute in
    the final round, whose time stamp is the wall clock. *)
Definition num_loose (x y : Q) : bool := Qle_bool (Qabs.Qabs (x - y)) (1 # 50).
Fixpoint value_loose (a b : value) : bool :=
  match a, b with
  | VNum x, VNum y => num_loose x y
  | VArr x, VArr y =>
      (fix go (x y : list value) : bool :=
         match x, y with
         | [], [] => true
         | u :: x', v :: y' => value_loose u v && go x' y'
         | _, _ => false
         end) x y
  | _, _ => value_close a b
  end.

Definition iout_eqb (loose : bool) (a b : iout) : bool :=
  match a, b with
  | IObs x v, IObs y w => var_eqb x y && (if loose then value_loose v w else value_close v w)
  | IReport a c, IReport b d => String.eqb a b && Z.eqb c d
  | IStart a, IStart b => String.eqb a b
  | IStop a, IStop b => String.eqb a b
  | _, _ => false
  end.

Definition is_final (e : event) : bool := match e with EFinal _ => true | _ => false end.

(** per-round comparison; round 0 is the initial round *)
Fixpoint rounds_eqb (loose : list bool) (m : list (list iout)) (i : list (list iout)) : bool :=
  match m, i with
  | [], [] => true
  | a :: m', b :: i' =>
      let l := match loose with x :: _ => x | [] => false end in
      list_eqb (iout_eqb l) a b && rounds_eqb (tl loose) m' i'
  | _, _ => false
  end.

Definition status_code (s : status) : Z := match s with Running => 0 | Aborted => 1 | Panicked => 2 end%Z.

Definition model_outs (k : aud_case) : list (list out) * status :=
  let '(os, _, stt) := run_audition (k_cfg k) (k_events k) in (os, stt).

(** When the audit loop returns early (an evaluation error), its deferred
    final round runs at once: the harness cannot tell the outputs of the failing
    round from those of that final round, so aborted histories are compared
    flattened (and loosely, the final round's time being the wall clock). *)
Definition case_model_bad (k : aud_case) : bool :=
  let '(os, stt) := model_outs k in
  let loose := false :: map is_final (k_events k) in
  if Z.eqb (status_code stt) 1 then
    negb (list_eqb (iout_eqb true) (flat_map (fun r => flat_map coll_of r) os) (List.concat (k_coll k))
          && list_eqb (iout_eqb true) (flat_map (fun r => flat_map judge_of r) os) (List.concat (k_judge k))
          && Z.eqb 1 (k_status k))
  else
  negb (rounds_eqb loose (map (fun r => flat_map coll_of r) os) (k_coll k)
        && rounds_eqb loose (map (fun r => flat_map judge_of r) os) (k_judge k)
        && Z.eqb (status_code stt) (k_status k)).

(** * The plain-meaning oracle, on the implementation's outputs only *)

(** All outputs of one auditor, tagged with the round they were emitted in. *)
Definition tag_round {A} (rs : list (list A)) : list (nat * A) :=
  List.concat (map (fun '(i, r) => map (fun x => (i, x)) r) (combine (seq 0 (List.length rs)) rs)).

Definition judge_of_aud (a : string) (rs : list (list iout)) : list (nat * bool) :=
  flat_map (fun '(i, o) => match o with
                           | IStart b => if String.eqb a b then [(i, true)] else []
                           | IStop b => if String.eqb a b then [(i, false)] else []
                           | _ => []
                           end) (tag_round rs).

(** (i) starts and stops alternate, beginning with a start and — when the
    history ran to its final round — ending with a stop. *)
Fixpoint alternates (expect_start : bool) (l : list (nat * bool)) : bool :=
  match l with
  | [] => true
  | (_, b) :: tl => Bool.eqb b expect_start && alternates (negb expect_start) tl
  end.
Definition closed (l : list (nat * bool)) : bool := Nat.even (List.length l).

(** periods as (start round, stop round); an unclosed period has no stop *)
Fixpoint periods_of (l : list (nat * bool)) : list (nat * option nat) :=
  match l with
  | (i, true) :: (j, false) :: tl => (i, Some j) :: periods_of tl
  | [(i, true)] => [(i, None)]
  | _ => []
  end.

Definition in_some_period (ps : list (nat * option nat)) (r : nat) : bool :=
  existsb (fun '(i, j) => Nat.leb i r && match j with Some j => Nat.leb r j | None => true end) ps.

Definition reports_of_aud (a : string) (rs : list (list iout)) : list (nat * Z) :=
  flat_map (fun '(i, o) => match o with
                           | IReport b c => if String.eqb a b then [(i, c)] else []
                           | _ => []
                           end) (tag_round rs).

(** (iii) the result codes reported in one period are producible by a FRESH
    evaluator: some sequence of t/f observations (evaluation errors, code 1,
    leave the evaluator alone) followed by the end edge yields exactly these
    codes from the table's start state.  NFA simulation over state sets. *)
Definition step_set (tbl : fsm_table) (qs : list nat) (code : Z) (labels : list string) : list nat :=
  flat_map (fun q => flat_map (fun l => match fsm_report tbl q l with
                                        | Some (q', c) => if Z.eqb c code then [q'] else []
                                        | None => []
                                        end) labels) qs.
Fixpoint dedup (l : list nat) : list nat :=
  match l with [] => [] | x :: tl => if existsb (Nat.eqb x) tl then dedup tl else x :: dedup tl end.

Fixpoint fresh_run_possible (tbl : fsm_table) (qs : list nat) (codes : list Z) (must_end : bool) : bool :=
  match codes with
  | [] => negb must_end && negb (match qs with [] => true | _ => false end)
  | [c] => if must_end then negb (match step_set tbl qs c ["end"%string] with [] => true | _ => false end)
           else if Z.eqb c 1 then negb (match qs with [] => true | _ => false end)
                else negb (match step_set tbl qs c ["t"; "f"]%string with [] => true | _ => false end)
  | c :: tl => if Z.eqb c 1 then fresh_run_possible tbl qs tl must_end
               else fresh_run_possible tbl (dedup (step_set tbl qs c ["t"; "f"]%string)) tl must_end
  end.

(** period boundaries the cond shape prescribes, at event granularity: the
    round index (1 + event index; 0 = initial round) in which a period must
    start / stop.  Computed from the events alone. *)
Fixpoint expected_judgements (sh : cond_shape) (mood : string) (holds : bool) (i : nat) (es : list event)
  : list (nat * bool) :=
  match es with
  | [] => []
  | e :: tl =>
      match e with
      | EFinal _ => if holds then [(i, false)] else []
      | EMood _ m =>
          match sh with
          | CMoodIs m0 =>
              if String.eqb m mood then expected_judgements sh mood holds (S i) tl
              else let h := String.eqb m m0 in
                   (if Bool.eqb h holds then [] else [(i, h)]) ++ expected_judgements sh m h (S i) tl
          | _ => expected_judgements sh (if String.eqb m mood then mood else m) holds (S i) tl
          end
      | ESig _ vs =>
          match sh with
          | CSigGt x k =>
              match find (fun '(y, _) => var_eqb x y) vs with
              | Some (_, VNum q) =>
                  let h := negb (Qle_bool q k) in
                  (if Bool.eqb h holds then [] else [(i, h)]) ++ expected_judgements sh mood h (S i) tl
              | _ => expected_judgements sh mood holds (S i) tl
              end
          | _ => expected_judgements sh mood holds (S i) tl
          end
      end
  end.

Definition expected_for (sh : cond_shape) (es : list event) : option (list (nat * bool)) :=
  match sh with
  | CThroughout => Some ((0%nat, true) :: expected_judgements sh "clear" true 1 es)
  | CNever => Some []                                  (* a condition that never holds: no period at all *)
  | CMoodIs m0 => Some (expected_judgements sh "clear" false 1 es)   (* never "clear": moods are red / blue *)
  | CSigGt _ _ => Some (expected_judgements sh "clear" false 1 es)
  | COther => None
  end.

Definition judgements_eqb (a b : list (nat * bool)) : bool :=
  list_eqb (fun x y => Nat.eqb (fst x) (fst y) && Bool.eqb (snd x) (snd y)) a b.

Definition member_expect (c : acfg) (a : string) : option (option fsm_table) :=
  match find (fun m => String.eqb (m_name m) a) (c_members c) with
  | Some m => Some (match m_expect m with Some (t, _) => Some t | None => None end)
  | None => None
  end.

(** Split the reports of an auditor by period. *)
Definition codes_in (reps : list (nat * Z)) (i : nat) (j : option nat) : list Z :=
  map snd (filter (fun '(r, _) => Nat.leb i r && match j with Some j => Nat.leb r j | None => true end) reps).

(** a stop and a (re)start of the same auditor under one round index (the two
    rounds of a mood change): the round granularity cannot separate them *)
Fixpoint same_index_restart (l : list (nat * bool)) : bool :=
  match l with
  | (i, false) :: (((j, true) :: _) as tl) => Nat.eqb i j || same_index_restart tl
  | (i, true) :: (((j, false) :: _) as tl) => Nat.eqb i j || same_index_restart tl
  | _ :: tl => same_index_restart tl
  | [] => false
  end.

Definition aud_oracle_bad (ran_to_end : bool) (k : aud_case) (a : string) (sh : cond_shape) : bool :=
  let js := judge_of_aud a (k_judge k) in
  let ps := periods_of js in
  let reps := reports_of_aud a (k_coll k) in
  negb (
    alternates true js
    && (if ran_to_end then closed js else true)                                    (* every period closed *)
    && forallb (fun '(r, _) => in_some_period ps r) reps                           (* nothing judged outside periods *)
    && match (if same_index_restart js then None else member_expect (k_cfg k) a) with
       | Some (Some tbl) =>
           forallb (fun '(i, j) =>
                      let codes := codes_in reps i j in
                      match j with
                      | Some _ => fresh_run_possible tbl [f_start tbl] codes true   (* exactly one end judgement, fresh evaluator *)
                      | None => match codes with [] => true | _ => fresh_run_possible tbl [f_start tbl] codes false end
                      end) ps
       | _ => true
       end
    && (if ran_to_end then
          match expected_for sh (k_events k) with
          | Some ex => judgements_eqb js ex                                        (* periods are exactly the stretches where the condition holds *)
          | None => true
          end
        else true)).

(** Two periods of one auditor in one round would be conflated by the round
    granularity of [codes_in]; the mood-change event runs two rounds under one
    index, so a period can stop and the next start in the same index: such
    cases are skipped by the fresh-evaluator clause only (flagged here). *)
(** The play "ran to its end" when the audition was not cut short by an
    evaluation error of an activation condition or of a computes / collects
    clause (the only errors that end an audition: a predicate that fails to
    evaluate is reported and the audition goes on).  An implementation that
    stops although the history holds no such error (the model, which stops
    exactly on those, runs to the end) is judged as a play that ran to its
    end: its periods must all be closed. *)
Definition ran_to_end_of (k : aud_case) : bool :=
  Z.eqb (k_status k) 0 || Z.eqb (status_code (snd (model_outs k))) 0.

Definition case_oracle_bad (k : aud_case) : bool :=
  Z.eqb (k_status k) 2                                                              (* a crash is a failure by itself *)
  || (let ran := ran_to_end_of k in existsb (fun '(a, sh) => aud_oracle_bad ran k a sh) (k_shapes k)).

(** Which clause of the oracle fails (bit set): 1 starts/stops do not
    alternate, 2 a period is left open at the end of the play, 4 a report
    outside every period, 8 a period's codes are not those of a fresh evaluator
    with exactly one end judgement, 16 the periods are not the stretches over
    which the condition holds, 32 a crash. *)
Definition aud_oracle_code (ran_to_end : bool) (k : aud_case) (a : string) (sh : cond_shape) : N :=
  let js := judge_of_aud a (k_judge k) in
  let ps := periods_of js in
  let reps := reports_of_aud a (k_coll k) in
  ((if alternates true js then 0 else 1)
   + (if (if ran_to_end then closed js else true) then 0 else 2)
   + (if forallb (fun '(r, _) => in_some_period ps r) reps then 0 else 4)
   + (if match (if same_index_restart js then None else member_expect (k_cfg k) a) with
         | Some (Some tbl) =>
             forallb (fun '(i, j) =>
                        let codes := codes_in reps i j in
                        match j with
                        | Some _ => fresh_run_possible tbl [f_start tbl] codes true
                        | None => match codes with [] => true | _ => fresh_run_possible tbl [f_start tbl] codes false end
                        end) ps
         | _ => true
         end then 0 else 8)
   + (if (if ran_to_end then
            match expected_for sh (k_events k) with
            | Some ex => judgements_eqb js ex
            | None => true
            end
          else true) then 0 else 16))%N.

Definition case_oracle_code (k : aud_case) : N :=
  ((if Z.eqb (k_status k) 2 then 32 else 0)
   + (let ran := ran_to_end_of k in fold_left N.lor (map (fun '(a, sh) => aud_oracle_code ran k a sh) (k_shapes k)) 0))%N.

(** * The verdicts of a period against the plain meaning over its observations

    For an auditor whose activation condition has one of the shapes above and
    whose predicate is a plain comparison of one scalar signal with a constant,
    the observations of each period can be read off the events alone: a round
    is an observation iff it samples the predicate's signal (and, for an
    activation by a signal, that signal too: a round that does not sample it
    leaves the auditor alone), from the round that opens the period to the
    round that closes it, both included.  The result codes reported in the
    period must be those of the modality's automaton run afresh over exactly
    these observations, followed by the end judgement. *)
Inductive pred_shape :=
| PSigCmp (x : var) (gt : bool) (k : Q)
  (** the same comparison over a variable [w] that the auditor itself
      [computes] as the signal [x].  [w] is assigned in the rounds that sample
      [x] while the auditor audits (and keeps its value from one period to the
      next); once it has a value the predicate is observed in EVERY round the
      auditor takes part in: each sample event of the period (for an activation
      by a signal: each one that samples that signal), the round that opens a
      mood-delimited period, and the two rounds (end of the old mood, start of
      the new one) of the mood change that closes it.  Periods still open at
      the end of the play are not judged for this shape. *)
| PCompCmp (x : var) (gt : bool) (k : Q).

Definition sample_of (x : var) (vs : list (var * value)) : option Q :=
  match find (fun '(y, _) => var_eqb x y) vs with
  | Some (_, VNum q) => Some q
  | _ => None
  end.

Fixpoint observations (sh : cond_shape) (p : pred_shape) (i : nat) (es : list event) (lo : nat) (hi : option nat) : list bool :=
  match es with
  | [] => []
  | e :: tl =>
      let rest := observations sh p (S i) tl lo hi in
      if Nat.leb lo i && match hi with Some h => Nat.leb i h | None => true end then
        match e with
        | ESig _ vs =>
            let act_ok := match sh with
                          | CSigGt y _ => match sample_of y vs with Some _ => true | None => false end
                          | _ => true
                          end in
            match p with
            | PSigCmp x gt k | PCompCmp x gt k =>
                match sample_of x vs with
                | Some q => if act_ok then (if gt then negb (Qle_bool q k) else negb (Qle_bool k q)) :: rest else rest
                | None => rest
                end
            end
        | _ => rest
        end
      else rest
  end.

Definition cmp_obs (gt : bool) (k q : Q) : bool := if gt then negb (Qle_bool q k) else negb (Qle_bool k q).

Fixpoint obs_comp (sh : cond_shape) (x : var) (gt : bool) (k : Q) (ps : list (nat * option nat)) (w : option Q)
         (i : nat) (es : list event) (lo : nat) (hi : option nat) : list bool :=
  match es with
  | [] => []
  | e :: tl =>
      let inp := Nat.leb lo i && match hi with Some h => Nat.leb i h | None => true end in
      match e with
      | ESig _ vs =>
          let act_ok := match sh with
                        | CSigGt y _ => match sample_of y vs with Some _ => true | None => false end
                        | _ => true
                        end in
          let w' := if in_some_period ps i && act_ok then
                      match sample_of x vs with Some q => Some q | None => w end
                    else w in
          (if inp && act_ok then match w' with Some q => [cmp_obs gt k q] | None => [] end else [])
          ++ obs_comp sh x gt k ps w' (S i) tl lo hi
      | EMood _ _ =>
          (match sh, w with
           | CMoodIs _, Some q =>
               if Nat.eqb i lo then [cmp_obs gt k q]
               else if (match hi with Some h => Nat.eqb i h | None => false end) then [cmp_obs gt k q; cmp_obs gt k q]
               else []
           | _, _ => []
           end) ++ obs_comp sh x gt k ps w (S i) tl lo hi
      | EFinal _ => obs_comp sh x gt k ps w (S i) tl lo hi
      end
  end.

Definition pred_oracle_bad (k : aud_case) (a : string) (sh : cond_shape) (p : pred_shape) : bool :=
  let js := judge_of_aud a (k_judge k) in
  let ps := periods_of js in
  let reps := reports_of_aud a (k_coll k) in
  if negb (Z.eqb (k_status k) 0) || same_index_restart js then false else
  match expected_for sh (k_events k), member_expect (k_cfg k) a with
  | Some ex, Some (Some tbl) =>
      if negb (judgements_eqb js ex) then false            (* the periods themselves are wrong: clause 16 reports that *)
      else negb (forallb (fun '(i, j) =>
                   let codes := codes_in reps i j in
                   if existsb (Z.eqb 1) codes then true else
                   match j with
                   | Some jj =>
                       if (match p with PCompCmp _ _ _ => Nat.leb (List.length (k_events k)) jj | _ => false end) then true else
                       match run_period tbl (match p with
                                             | PSigCmp _ _ _ => observations sh p 1 (k_events k) i j
                                             | PCompCmp x gt kk => obs_comp sh x gt kk ps None 1 (k_events k) i j
                                             end) with
                       | Some vs => list_eqb Z.eqb codes (map verdict_code vs)
                       | None => true
                       end
                   | None => true
                   end) ps)
  | _, _ => false
  end.

Definition case_pred_oracle_bad (k : aud_case) (ps : list (string * cond_shape * pred_shape)) : bool :=
  existsb (fun '(a, sh, p) => pred_oracle_bad k a sh p) ps.

Fixpoint bad_indices2 {A B} (f : A -> B -> bool) (i : nat) (l : list A) (m : list B) : list nat :=
  match l, m with
  | a :: l', b :: m' => (if f a b then [i] else []) ++ bad_indices2 f (S i) l' m'
  | _, _ => []
  end.
