(** Correspondence functions for C06: the shape of the cases the Go harness
    writes, the comparison of the implementation's observations with the
    model ([*_model_bad]) and the property's plain meaning evaluated on the
    implementation's observations ([*_oracle_bad], through Model/Denote.v
    only — no function of Model/Storyline.v or of the compiler is used by the
    oracles). *)
From Shk Require Import Base.Prelude Model.Storyline Model.Compile Model.Denote Model.StepsText Model.StepsRead Model.Regex.
Open Scope Z_scope.

(** * Equality tests *)
Definition step_eqb (a b : step) : bool :=
  Bool.eqb (st_amb a) (st_amb b) && bytes_eqb (st_action a) (st_action b)
  && Bool.eqb (st_failok a) (st_failok b).
Definition obytes_eqb (a b : option bytes) : bool :=
  match a, b with
  | None, None => true
  | Some x, Some y => bytes_eqb x y
  | _, _ => false
  end.
Definition line_eqb (a b : sline) : bool :=
  obytes_eqb (ln_actor a) (ln_actor b) && list_eqb step_eqb (ln_steps a) (ln_steps b).
Definition scene_eqb (a b : scene) : bool :=
  (sc_wait a =? sc_wait b) && list_eqb line_eqb (sc_lines a) (sc_lines b).
Definition play_eqb : play -> play -> bool := list_eqb (list_eqb scene_eqb).
Definition story_eqb : list bytes -> list bytes -> bool := list_eqb bytes_eqb.
Definition cols_eqb : list (list column) -> list (list column) -> bool := list_eqb (list_eqb bytes_eqb).

Definition outcome_eqb {A} (eqb : A -> A -> bool) (a b : Outcome A) : bool :=
  match a, b with
  | Ok x, Ok y => eqb x y
  | Err c, Err d => N.eqb c d
  | Panic, Panic => true
  | OutOfFuel, OutOfFuel => true
  | _, _ => false
  end.

(** * Literal substitution: Go's [regexp.ReplaceAllString] for a non-empty
    pattern without meta-characters and a replacement without `$` (what the
    generator produces): leftmost, non-overlapping. *)
Fixpoint is_prefix (p s : bytes) : bool :=
  match p, s with
  | [], _ => true
  | x :: p', y :: s' => Byte.eqb x y && is_prefix p' s'
  | _ :: _, [] => false
  end.

Fixpoint lit_replace_aux (pat repl s : bytes) (skip : nat) : bytes :=
  match s with
  | [] => []
  | c :: tl =>
      match skip with
      | S k => lit_replace_aux pat repl tl k
      | O => if is_prefix pat s then repl ++ lit_replace_aux pat repl tl (List.length pat - 1)
             else c :: lit_replace_aux pat repl tl 0
      end
  end.
Definition lit_replace (pat repl s : bytes) : bytes :=
  match pat with [] => s | _ => lit_replace_aux pat repl s 0 end.

(** * Script cases *)

(** What the harness observed of the whole text: the final storyline, the
    compiled play (times in nanoseconds, as stored) and the text printSteps
    printed for it, byte for byte. *)
Record final_obs := mkFinal { f_story : list bytes; f_play : play; f_text : bytes }.

(** The harness writes the printed text line by line (lines are shared
    between cases through definitions): [join_lines ls] is the text. *)
Definition join_lines (ls : list bytes) : bytes := flat_map (fun l => l ++ [x0a]) ls.

(** How the oracle reads an edit clause.  [ELit]: the regular expression is a
    quoted literal and the replacement has no `$`: the clause is
    [CEdit (lit_replace pat repl)] and the oracle substitutes by itself.
    [EText]: a real regular expression (classes, groups, `$1`); Go's regexp is
    not modelled: the harness calls regexp.ReplaceAllString itself on the
    storyline the hook reported before the clause and supplies the resulting
    text; the clause is [CEdit (fun _ => text)].
    [ERe]: a regular expression of the subset of Model/Regex.v, written twice
    by the generator (Go pattern text in the clause, [re] term here); the
    oracle substitutes with its OWN matcher (leftmost-first, Go's replaceAll
    loop, [$]-free replacement) — nothing of Go's regexp is used to say what
    the edit must produce; the clause is [CEdit (re_replace r repl)]. *)
Inductive edit_desc := ELit (pat repl : bytes) | EText (text : bytes) | ERe (r : re) (repl : bytes).

Record c06_case := mkCase {
  k_cast : cast;
  k_tempo : Z;
  k_cmds : list cmd;
  (* one per edit clause, in order *)
  k_edits : list edit_desc;
  (* stepwise through the real parseScript: cfg.storyLine after each clause,
     the same shape as [run_trace] (an [Err] carries 10*act+kind read from the
     message, [Err 999] any other error) *)
  k_trace : list (Outcome (list bytes));
  (* whole text through reader, parseCfg, compileV2, printSteps; [None] = refused *)
  k_final : option final_obs
}.

Fixpoint all_ok {A} (l : list (Outcome A)) : bool :=
  match l with
  | [] => true
  | Ok _ :: tl => all_ok tl
  | _ :: _ => false
  end.

Definition case_model_bad (c : c06_case) : bool :=
  let tr := run_trace (k_cast c) init_state (k_cmds c) in
  negb (list_eqb (outcome_eqb story_eqb) tr (k_trace c))
  || match compile_script (k_cast c) (k_tempo c) (k_cmds c), k_final c with
     | Ok (st, p), Some f =>
         negb (story_eqb st (f_story f) && play_eqb p (f_play f)
               && outcome_eqb bytes_eqb (print_text st p 0) (Ok (f_text f)))
     | Ok _, None => true
     | Err _, None => false
     | _, _ => true
     end.

(** ** The oracle *)

(** Is the case inside the property's domain?  tempo >= 0; in clause texts
    every run of white space with a newline / tab in it that separates two acts
    also contains a blank ([Denote.ws_ok]: multi-line clauses, tabs next to
    blanks); the oracle then reads the clause with all white space turned into
    blanks ([Denote.blank_ws]). *)
Definition ctl_space (c : byte) : bool :=
  match c with x09 | x0a | x0b | x0c | x0d => true | _ => false end.
Definition cmd_in_domain (c : cmd) : bool :=
  match c with
  | CStoryline t => ws_ok t
  | _ => true
  end.
Definition in_domain (c : c06_case) : bool :=
  (0 <=? k_tempo c) && forallb cmd_in_domain (k_cmds c).

(** The set of defined scenes, from the clauses seen so far: a scene is
    defined by a mood clause or by an entails clause that selects at least one
    actor. *)
Definition defines (cs : cast) (c : cmd) : list byte :=
  match c with
  | CEntails ch t _ => match actors_of cs t with [] => [] | _ => [ch] end
  | CMoodStart ch _ | CMoodEnd ch _ => [ch]
  | _ => []
  end.
Definition mem_byte (l : list byte) (c : byte) : bool := existsb (Byte.eqb c) l.

Fixpoint oracle_walk (cs : cast) (dfn : list byte) (text : list bytes) (cols : list (list column))
         (cmds : list cmd) (edits : list edit_desc) (tr : list (Outcome (list bytes)))
  : option (list (list column)) * bool :=     (* (final columns if all accepted, bad?) *)
  match cmds, tr with
  | [], [] => (Some cols, false)
  | c :: ctl, o :: otl =>
      match c with
      | CStoryline t0 =>
          let t := blank_ws t0 in
          if wf_story (mem_byte dfn) (acts_of t) then
            match o with
            | Ok new =>
                let cols' := union_story cols (clause_columns t) in
                if wf_story (mem_byte dfn) new && cols_eqb (map columns new) cols'
                then oracle_walk cs dfn new cols' ctl edits otl
                else (None, true)
            | _ => (None, true)
            end
          else match o, otl with Err _, [] => (None, false) | _, _ => (None, true) end
      | CEdit _ =>
          match edits with
          | ed :: etl =>
              let new := acts_of (match ed with
                                  | ELit pat repl => lit_replace pat repl (print_story text)
                                  | EText t => t
                                  | ERe r repl => re_replace r repl (print_story text)
                                  end) in
              if wf_story (mem_byte dfn) new then
                match o with
                | Ok obs => if story_eqb obs new then oracle_walk cs dfn new (map columns new) ctl etl otl
                            else (None, true)
                | _ => (None, true)
                end
              else match o, otl with Err _, [] => (None, false) | _, _ => (None, true) end
          | [] => (None, true)
          end
      | CCast more =>      (* a cast section leaves the storyline alone; the cast in force grows *)
          match o with
          | Ok obs => if story_eqb obs text then oracle_walk (cs ++ more) dfn text cols ctl edits otl
                      else (None, true)
          | _ => (None, true)
          end
      | _ =>
          match o with
          | Ok obs => if story_eqb obs text then oracle_walk cs (defines cs c ++ dfn) text cols ctl edits otl
                      else (None, true)
          | _ => (None, true)
          end
      end
  | _, _ => (None, true)
  end.

Definition ev_eqb (a b : Z * list sline) : bool :=
  (fst a =? fst b) && list_eqb line_eqb (snd a) (snd b).
Definition sched_eqb (a b : list (Z * list sline) * Z) : bool :=
  list_eqb ev_eqb (fst a) (fst b) && (snd a =? snd b).

(** The printed dump is read by Model/StepsRead.v ([decode_text], then
    [read_events]): per act its number and header, per scene with lines the
    time in force and the lines, and the time in force at the end.  What it
    must show: act j is headed by the j-th act of the storyline and its
    scenes are the denoted events. *)
Definition strip_entries (v : list entry) : list (Z * list sline) :=
  map (fun e => (snd (fst e), snd e)) v.

Fixpoint dump_matches (j : Z) (obs : list (Z * option bytes * (list entry * Z)))
         (story : list bytes) (den : list (list (Z * list sline) * Z)) : bool :=
  match obs, story, den with
  | [], [], [] => true
  | (k, h, (v, e)) :: obs', a :: story', d :: den' =>
      (k =? j) && obytes_eqb h (Some a) && sched_eqb (strip_entries v, e) d
      && dump_matches (j + 1) obs' story' den'
  | _, _, _ => false
  end.

Definition case_oracle_bad (c : c06_case) : bool :=
  if negb (in_domain c) then false else
  match oracle_walk (k_cast c) [] [] [] (k_cmds c) (k_edits c) (k_trace c) with
  | (_, true) => true
  | (None, false) => match k_final c with None => false | Some _ => true end   (* refused stepwise => refused as a whole *)
  | (Some cols, false) =>
      match k_final c with
      | None => true
      | Some f =>
          let sem := den_specs (k_cast c) (k_cmds c) in
          let den := denote_play sem (k_tempo c) cols in
          let last_text := f_story f in
          negb (cols_eqb (map columns last_text) cols
                && list_eqb sched_eqb (map timeline (f_play f)) (map act_events den)
                && dump_matches 1 (read_events (decode_text (f_text f))) last_text (map act_events den))
      end
  end.

(** The storyline part of the oracle alone (used to name what failed). *)
Definition case_oracle_story_bad (c : c06_case) : bool :=
  if negb (in_domain c) then false else
  match oracle_walk (k_cast c) [] [] [] (k_cmds c) (k_edits c) (k_trace c) with
  | (_, true) => true
  | (None, false) => match k_final c with None => false | Some _ => true end
  | (Some cols, false) =>
      match k_final c with
      | None => true
      | Some f => negb (cols_eqb (map columns (f_story f)) cols)
      end
  end.

(** * Act-pair cases: the real [combineActs] called directly. *)
Definition pair_case := (bytes * bytes * option bytes)%type.     (* a1, a2, observed (None = panic) *)

Definition pair_model_bad (c : pair_case) : bool :=
  let '(a1, a2, o) := c in
  match combine_acts a1 a2, o with
  | Ok r, Some r' => negb (bytes_eqb r r')
  | _, _ => true
  end.

(** Domain: both acts well formed (every scene counts as defined). *)
Definition pair_oracle_bad (c : pair_case) : bool :=
  let '(a1, a2, o) := c in
  let dfn := fun _ : byte => true in
  if wf_act dfn a1 && wf_act dfn a2 then
    match o with
    | Some r => negb (wf_act dfn r && list_eqb bytes_eqb (columns r) (union_act (columns a1) (columns a2)))
    | None => true
    end
  else false.
