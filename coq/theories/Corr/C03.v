(** Correspondence functions for C03 (in-process part). *)
From Shk Require Import Base.Prelude Model.Verdict Model.RunStage.
From Coq Require Import String.
Open Scope list_scope.

Record vobs := {
  v_fouled : bool;                       (* checkAuditViolations(...) != nil *)
  v_errors : nat;
  v_bad : list (string * nat);           (* sorted by name, zero counts absent *)
  v_good : list (string * nat);
  v_hasdata : list string;               (* sorted *)
  v_early_at : Z;                        (* index among the reports at which the collector stopped; -1 never *)
}.

Record verdict_case := {
  q_items : list item;                   (* the configuration's verdict-relevant items in file order *)
  q_reports : list report;               (* everything the audition reported, in order *)
  q_expected : list (string * fc);       (* the generator's own "last clause wins" computation *)
  q_full : vobs;                         (* observed without -S *)
  q_early : vobs;                        (* observed with -S *)
}.

Definition counts_agree (names : list string) (m : list (string * nat)) (o : list (string * nat)) : bool :=
  forallb (fun a => Nat.eqb (count_of a m) (count_of a o)) names.
Definition hasdata_agree (names : list string) (t : tally) (o : list string) : bool :=
  forallb (fun a => Bool.eqb (has_data a t) (existsb (String.eqb a) o)) names.

(** index of the report at which collector_run stops *)
Fixpoint stop_index (cfg : list (string * fc)) (t : tally) (rs : list report) (i : Z) : Z :=
  match rs with
  | [] => (-1)%Z
  | r :: tl => let t' := add_report t r in
               if early_stop cfg t' r then i else stop_index cfg t' tl (i + 1)%Z
  end.

Definition obs_agree (cfg : list (string * fc)) (early : bool) (rs : list report) (o : vobs) : bool :=
  let names := map fst cfg in
  let '(t, stopped) := collector_run cfg early tally0 rs in
  Bool.eqb (fouled cfg t) (v_fouled o)
  && Nat.eqb (t_errors t) (v_errors o)
  && counts_agree names (t_bad t) (v_bad o)
  && counts_agree names (t_good t) (v_good o)
  && hasdata_agree names t (v_hasdata o)
  && Z.eqb (if early then stop_index cfg tally0 rs 0 else (-1)%Z) (v_early_at o).

Definition case_model_bad (q : verdict_case) : bool :=
  match interp [] (q_items q) with
  | None => true
  | Some cfg => negb (obs_agree cfg false (q_reports q) (q_full q) && obs_agree cfg true (q_reports q) (q_early q))
  end.

(** The documented rule, evaluated on the implementation's OWN tallies with
    the generator's own idea of which clause wins — no model involved. *)
Definition documented (expected : list (string * fc)) (o : vobs) : bool :=
  Nat.ltb 0 (v_errors o)
  || existsb (fun '(a, (mb, mg)) =>
                existsb (String.eqb a) (v_hasdata o)
                && (match mb with FNonZero => Nat.ltb 0 (count_of a (v_bad o)) | FZero => Nat.eqb (count_of a (v_bad o)) 0 | FIgnore => false end
                    || match mg with FNonZero => Nat.ltb 0 (count_of a (v_good o)) | FZero => Nat.eqb (count_of a (v_good o)) 0 | FIgnore => false end))
             expected.

Definition case_oracle_code (q : verdict_case) : N :=
  ((if Bool.eqb (documented (q_expected q) (q_full q)) (v_fouled (q_full q)) then 0 else 1)      (* verdict <> documented rule *)
   + (if Bool.eqb (documented (q_expected q) (q_early q)) (v_fouled (q_early q)) then 0 else 2)  (* same, with -S *)
   + (if Bool.eqb (v_fouled (q_full q)) (v_fouled (q_early q)) then 0 else 4))%N.                (* -S changes the verdict *)

(** * Funnel primitives against the real combineErrors / ignCancel / errors.Is *)

(** (what the selects choose, component errors p s a c, verdict, cleanup,
    observed non-nil of the real combineErrors/ignCancel/errors.Is run over the
    harness's mirror of the stages, that mirror's reads and cancellations) *)
Definition funnel_case := (list comp * err * err * err * err * err * err * bool * list (comp * bool) * list comp)%type.
Definition read_eqb (a b : comp * bool) : bool := comp_eqb (fst a) (fst b) && Bool.eqb (snd a) (snd b).
Fixpoint list_eqb {A} (eqb : A -> A -> bool) (l1 l2 : list A) : bool :=
  match l1, l2 with
  | [], [] => true
  | a :: l1', b :: l2' => eqb a b && list_eqb eqb l1' l2'
  | _, _ => false
  end.
Definition funnel_model_bad (k : funnel_case) : bool :=
  let '(ch, p, s, a, c, v, cl, obs, rds, cns) := k in
  let o := {| o_p := p; o_s := s; o_a := a; o_c := c |} in
  let r := conduct_run true ch o in
  negb (Bool.eqb (exit_nonzero (conduct_result true ch o v cl)) obs
        && list_eqb read_eqb (sh_reads r) rds && list_eqb comp_eqb (sh_cancelled r) cns).

(** (results in completion order, observed non-nil, observed errors.Is(_, Canceled)) *)
Definition collect_case := (list err * bool * bool)%type.
Definition collect_model_bad (k : collect_case) : bool :=
  let '(rs, o, oc) := k in
  negb (Bool.eqb (exit_nonzero (collect_errors rs)) o && Bool.eqb (is_last KCancel (collect_errors rs)) oc).
(** the plain meaning: a failure among the results is never dropped *)
Definition collect_oracle_bad (k : collect_case) : bool :=
  let '(rs, o, _) := k in negb (Bool.eqb (existsb exit_nonzero rs) o).

(** * The end of [run]: directory / upload operations (Model/RunStage.v)

    One end-to-end play per case: the flags it ran with, which single
    operation was made to fail (a directory planted where a file has to be
    written, an immutable artifact, a failing upload command), whether the play
    itself failed, and the exit status observed: (clear, keep, noplot,
    failing operation, play failed, exit status non-zero). *)
Definition run_case := (bool * bool * bool * option dop * bool * bool)%type.
Definition run_case_bad (c : run_case) : bool :=
  let '(cl, kp, np, fo, pf, obs) := c in
  let fails d := match fo with Some d' => dop_eqb d d' | None => false end in
  negb (Bool.eqb (run_exit_nonzero {| f_clear := cl; f_keep := kp; f_noplot := np |} fails
                                   (if pf then [RPlay false] else [])) obs).
